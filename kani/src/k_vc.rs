//! C04 / C20: VectorClock::hash feeds the components up to the last non-zero one, so that clocks equal
//! up to trailing zeros feed equal streams and different clocks feed different streams.
//! Verus cannot take this function (closure-based `rposition`); bounded stand-in: length <= 3,
//! components < 3 (labelled bounded in checks.json, never counted as proved).
use stateright::util::VectorClock;
use std::hash::{Hash, Hasher};

struct Rec { buf: [u8; 48], n: usize }
impl Hasher for Rec {
    fn finish(&self) -> u64 { 0 }
    fn write(&mut self, bytes: &[u8]) {
        let mut i = 0;
        while i < bytes.len() {
            if self.n < 48 { self.buf[self.n] = bytes[i]; }
            self.n += 1;
            i += 1;
        }
    }
}
fn any_clock() -> ([u32; 3], usize) {
    let v: [u32; 3] = kani::any();
    let len: usize = kani::any();
    kani::assume(len <= 3 && v[0] < 3 && v[1] < 3 && v[2] < 3);
    (v, len)
}
fn stream(v: &[u32; 3], len: usize) -> Rec {
    let mut vec = Vec::new();
    let mut i = 0;
    while i < len { vec.push(v[i]); i += 1; }
    let c = VectorClock::from(vec);
    let mut r = Rec { buf: [0; 48], n: 0 };
    c.hash(&mut r);
    r
}
fn at(v: &[u32; 3], len: usize, i: usize) -> u32 { if i < len { v[i] } else { 0 } }

#[kani::proof]
#[kani::unwind(50)]
fn k_vc_hash() {
    let (a, la) = any_clock();
    let (b, lb) = any_clock();
    let veq = at(&a, la, 0) == at(&b, lb, 0) && at(&a, la, 1) == at(&b, lb, 1) && at(&a, la, 2) == at(&b, lb, 2);
    let (ra, rb) = (stream(&a, la), stream(&b, lb));
    assert!(ra.n <= 48 && rb.n <= 48);
    let same = ra.n == rb.n && ra.buf == rb.buf;
    assert!(same == veq);
    kani::cover!(veq && la != lb);
    kani::cover!(!veq);
}
