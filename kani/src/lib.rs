//! KX: Kani harnesses on the REAL crate (path dependency on /repo, feature getong_stateright_verif).
//! Loop-free harnesses over a full scalar domain are complete proofs for the stated instantiation;
//! everything else is labelled bounded in checks.json and never counted as proved.
#![allow(dead_code, unused_imports)]
#[cfg(kani)]
mod probe;
#[cfg(kani)]
mod k_id;
#[cfg(kani)]
mod k_fwd;
#[cfg(kani)]
mod k_spec;
#[cfg(kani)]
mod k_client;
#[cfg(kani)]
mod k_plan;
#[cfg(kani)]
mod k_vc;
#[cfg(kani)]
mod k_assert;
