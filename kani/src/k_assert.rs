//! C02: `assert_properties` (and through it assert_no_discovery / assert_any_discovery) succeeds EXACTLY
//! when no always/eventually property has a discovery, every sometimes property has one, and the
//! check is done. The "succeeds if" half is also proved by Verus (unit ASRT); the "panics otherwise"
//! half is a must-panic statement: the point after the call must be unreachable.
use stateright::{Checker, Model, Path, Property};
use std::collections::HashMap;
use std::thread::JoinHandle;

#[derive(Clone)]
struct M3;
impl Model for M3 {
    type State = u8;
    type Action = u8;
    fn init_states(&self) -> Vec<u8> { vec![0] }
    fn actions(&self, _s: &u8, _a: &mut Vec<u8>) {}
    fn next_state(&self, _s: &u8, _a: u8) -> Option<u8> { None }
    fn properties(&self) -> Vec<Property<Self>> {
        vec![
            Property::always("a", |_, _| true),
            Property::sometimes("s", |_, _| true),
            Property::eventually("e", |_, _| true),
        ]
    }
}

/// A checker whose verdicts are symbolic: which properties have a discovery, and whether it is done.
struct Mock { m: M3, found: [bool; 3], done: bool }
impl Checker<M3> for Mock {
    fn model(&self) -> &M3 { &self.m }
    fn state_count(&self) -> usize { 1 }
    fn unique_state_count(&self) -> usize { 1 }
    fn max_depth(&self) -> usize { 1 }
    fn discoveries(&self) -> HashMap<&'static str, Path<u8, u8>> { unreachable!() }
    fn discovery(&self, name: &'static str) -> Option<Path<u8, u8>> {
        let i = if name == "a" { 0 } else if name == "s" { 1 } else { 2 };
        if self.found[i] { Path::from_actions(&self.m, 0u8, std::iter::empty::<&u8>()) } else { None }
    }
    fn handles(&mut self) -> Vec<JoinHandle<()>> { Vec::new() }
    fn is_done(&self) -> bool { self.done }
}
fn ok(found: &[bool; 3], done: bool) -> bool { !found[0] && found[1] && !found[2] && done }

#[kani::proof]
#[kani::unwind(8)]
fn k_assert_properties_succeeds_when_verdicts_good() {
    let c = Mock { m: M3, found: kani::any(), done: kani::any() };
    kani::assume(ok(&c.found, c.done));
    c.assert_properties();
    kani::cover!(true);
}

#[kani::proof]
#[kani::unwind(8)]
#[kani::should_panic]
fn k_assert_properties_panics_otherwise() {
    let c = Mock { m: M3, found: kani::any(), done: kani::any() };
    kani::assume(!ok(&c.found, c.done));
    c.assert_properties();
    kani::cover!(true, "assert_properties returned although a verdict is bad or the check is not done");
}
