//! Probe actor: every handler writes ALL of its arguments into the new state and emits commands
//! that carry them (one Send, one SetTimer / CancelTimer, one ChooseRandom); the `mode` selects
//! whether a handler changes the state and/or emits commands (see `P`). Generic wrappers cannot inspect the wrapped
//! actor; since unit ADP proves transparency generically over the wrapped actor, the harnesses on this probe are
//! independent cross-checks on the real `choice` crate (the parametricity argument A-PARAM is no longer relied upon).
use stateright::actor::*;
use std::borrow::Cow;
use std::fmt::Debug;
use std::hash::Hash;
use std::marker::PhantomData;
use std::time::Duration;

#[derive(Clone, Debug, PartialEq, Eq, Hash)]
pub struct PS<M> {
    pub tag: u8,
    pub id: u64,
    pub src: u64,
    pub m: Option<M>,
    pub x: u8,
}

/// `mode`: 0 = change the state AND emit commands, 1 = do nothing (state stays borrowed, no command),
/// 2 = emit commands but leave the state borrowed (a stateless responder / heartbeat), 3 = change the
/// state but emit nothing. A transparent adapter must forward all four shapes unchanged.
#[derive(Clone, Debug, PartialEq, Eq)]
pub struct P<M> {
    pub mode: u8,
    pub _m: PhantomData<M>,
}

impl<M> P<M> {
    pub fn new(mode: u8) -> Self {
        P { mode, _m: PhantomData }
    }
    fn touches_state(&self) -> bool { self.mode == 0 || self.mode == 3 }
    fn emits(&self) -> bool { self.mode == 0 || self.mode == 2 }
}

pub fn idn(id: Id) -> u64 {
    usize::from(id) as u64
}

impl<M: Clone + Debug + Eq + Hash> Actor for P<M> {
    type Msg = M;
    type State = PS<M>;
    type Timer = u8;
    type Random = u8;
    fn on_start(&self, id: Id, o: &mut Out<Self>) -> PS<M> {
        if self.emits() {
            o.set_timer(7, Duration::from_secs(1)..Duration::from_secs(2));
            o.choose_random("s", vec![1, 2]);
        }
        PS { tag: 0, id: idn(id), src: 0, m: None, x: self.mode }
    }
    fn on_msg(&self, id: Id, s: &mut Cow<PS<M>>, src: Id, m: M, o: &mut Out<Self>) {
        let x = s.x;
        if self.touches_state() {
            *s.to_mut() = PS { tag: 1, id: idn(id), src: idn(src), m: Some(m.clone()), x };
        }
        if self.emits() {
            o.send(src, m);
            o.set_timer(x, Duration::from_secs(3)..Duration::from_secs(4));
        }
    }
    fn on_timeout(&self, id: Id, s: &mut Cow<PS<M>>, t: &u8, o: &mut Out<Self>) {
        let m = s.m.clone();
        if self.touches_state() {
            *s.to_mut() = PS { tag: 2, id: idn(id), src: 0, m, x: *t };
        }
        if self.emits() {
            o.cancel_timer(*t);
            o.set_timer(t.wrapping_add(1), Duration::from_secs(5)..Duration::from_secs(6));
        }
    }
    fn on_random(&self, id: Id, s: &mut Cow<PS<M>>, r: &u8, o: &mut Out<Self>) {
        let m = s.m.clone();
        if self.touches_state() {
            *s.to_mut() = PS { tag: 3, id: idn(id), src: 0, m, x: *r };
        }
        if self.emits() {
            o.choose_random("k", vec![*r]);
            o.cancel_timer(*r);
        }
    }
    fn name(&self) -> String {
        "probe".to_owned()
    }
}

/// Structural equality of two commands (Command derives neither PartialEq nor Clone).
pub fn cmd_eq<M: PartialEq, T: PartialEq, R: PartialEq>(a: &Command<M, T, R>, b: &Command<M, T, R>) -> bool {
    match (a, b) {
        (Command::CancelTimer(x), Command::CancelTimer(y)) => x == y,
        (Command::SetTimer(x, r1), Command::SetTimer(y, r2)) => x == y && r1 == r2,
        (Command::Send(d1, m1), Command::Send(d2, m2)) => d1 == d2 && m1 == m2,
        (Command::ChooseRandom(k1, v1), Command::ChooseRandom(k2, v2)) => k1 == k2 && v1 == v2,
        _ => false,
    }
}

/// The command sequences are equal, in order.
pub fn out_eq<M: PartialEq, T: PartialEq, R: PartialEq>(a: &[Command<M, T, R>], b: &[Command<M, T, R>]) -> bool {
    if a.len() != b.len() {
        return false;
    }
    let mut i = 0;
    while i < a.len() {
        if !cmd_eq(&a[i], &b[i]) {
            return false;
        }
        i += 1;
    }
    true
}

#[cfg(kani)]
pub fn sym_state<M>(m: Option<M>) -> PS<M> {
    PS { tag: kani::any(), id: kani::any(), src: kani::any(), m, x: kani::any() }
}
