//! C15: adapters are transparent. Differential form: the wrapper's handler is compared with the
//! wrapped probe's own handler on the same (symbolic) arguments: same new state (wrapped), same
//! Cow ownership, same commands in the same order.
use crate::probe::*;
use choice::{Choice, Never};
use stateright::actor::register::*;
use stateright::actor::write_once_register::*;
use stateright::actor::*;
use std::borrow::Cow;

type M = u8;

macro_rules! fwd_harness {
    ($name:ident, $wrap_actor:expr, $wrap_state:expr, $unwrap_state:expr, $msgty:ty, $mkmsg:expr, $handler:ident) => {
        #[kani::proof]
        #[kani::unwind(5)]
        fn $name() {
            let mode: u8 = kani::any();
            kani::assume(mode < 4);
            let inner: P<$msgty> = P::new(mode);
            let id: usize = kani::any();
            let src: usize = kani::any();
            let msg: $msgty = $mkmsg;
            let t: u8 = kani::any();
            let s0: PS<$msgty> = sym_state(if kani::any() { Some($mkmsg) } else { None });
            // direct call
            let mut ds = Cow::Borrowed(&s0);
            let mut dout: Out<P<$msgty>> = Out::new();
            // wrapped call
            let w = $wrap_actor(inner.clone());
            let ws0 = $wrap_state(s0.clone());
            let mut wst = Cow::Borrowed(&ws0);
            let mut wout = Out::new();
            fwd_harness!(@call $handler, inner, w, id, src, msg, t, ds, dout, wst, wout);
            assert!(matches!(ds, Cow::Owned(_)) == matches!(wst, Cow::Owned(_)));
            let got: &PS<$msgty> = $unwrap_state(&*wst);
            assert!(got == &*ds);
            assert!(wout.len() == dout.len());
            assert!(out_eq(&wout, &dout));
            kani::cover!(mode == 0);
            kani::cover!(mode == 1);
            kani::cover!(mode == 2);
            kani::cover!(mode == 3);
        }
    };
    (@call on_msg, $inner:ident, $w:ident, $id:ident, $src:ident, $msg:ident, $t:ident, $ds:ident, $dout:ident, $wst:ident, $wout:ident) => {
        $inner.on_msg(Id::from($id), &mut $ds, Id::from($src), $msg.clone(), &mut $dout);
        $w.on_msg(Id::from($id), &mut $wst, Id::from($src), $msg, &mut $wout);
    };
    (@call on_timeout, $inner:ident, $w:ident, $id:ident, $src:ident, $msg:ident, $t:ident, $ds:ident, $dout:ident, $wst:ident, $wout:ident) => {
        $inner.on_timeout(Id::from($id), &mut $ds, &$t, &mut $dout);
        $w.on_timeout(Id::from($id), &mut $wst, &$t, &mut $wout);
    };
    (@call on_random, $inner:ident, $w:ident, $id:ident, $src:ident, $msg:ident, $t:ident, $ds:ident, $dout:ident, $wst:ident, $wout:ident) => {
        $inner.on_random(Id::from($id), &mut $ds, &$t, &mut $dout);
        $w.on_random(Id::from($id), &mut $wst, &$t, &mut $wout);
    };
}

macro_rules! start_harness {
    ($name:ident, $wrap_actor:expr, $unwrap_state:expr, $msgty:ty) => {
        #[kani::proof]
        #[kani::unwind(5)]
        fn $name() {
            let mode: u8 = kani::any();
            kani::assume(mode < 4);
            let inner: P<$msgty> = P::new(mode);
            let id: usize = kani::any();
            let mut dout: Out<P<$msgty>> = Out::new();
            let ds = inner.on_start(Id::from(id), &mut dout);
            let w = $wrap_actor(inner.clone());
            let mut wout = Out::new();
            let ws = w.on_start(Id::from(id), &mut wout);
            let got: &PS<$msgty> = $unwrap_state(&ws);
            assert!(got == &ds);
            assert!(out_eq(&wout, &dout));
            kani::cover!(mode == 0);
            kani::cover!(mode == 2);
        }
    };
}

// ---- Choice<A, Never>
fn wa_cn(p: P<M>) -> Choice<P<M>, Never> { Choice::new(p) }
fn ws_cn(s: PS<M>) -> Choice<PS<M>, Never> { Choice::new(s) }
fn us_cn(s: &Choice<PS<M>, Never>) -> &PS<M> { s.get() }
start_harness!(k_fwd_choice_never_start, wa_cn, us_cn, M);
fwd_harness!(k_fwd_choice_never_msg, wa_cn, ws_cn, us_cn, M, kani::any(), on_msg);
fwd_harness!(k_fwd_choice_never_timeout, wa_cn, ws_cn, us_cn, M, kani::any(), on_timeout);
fwd_harness!(k_fwd_choice_never_random, wa_cn, ws_cn, us_cn, M, kani::any(), on_random);

// ---- Choice<A1, A2>: probe in the L position and in the R position (the other side is a second,
// always-silent second actor type so that a mix-up of the two arms is visible)
#[derive(Clone, Debug, PartialEq, Eq)]
pub struct Q;
impl Actor for Q {
    type Msg = M;
    type State = u16;
    type Timer = u8;
    type Random = u8;
    fn on_start(&self, _id: Id, _o: &mut Out<Self>) -> u16 { 77 }
}
type CL = Choice<P<M>, Choice<Q, Never>>;
type CLS = Choice<PS<M>, Choice<u16, Never>>;
fn wa_l(p: P<M>) -> CL { Choice::new(p) }
fn ws_l(s: PS<M>) -> CLS { Choice::new(s) }
fn us_l(s: &CLS) -> &PS<M> { match s { Choice::L(s) => s, Choice::R(_) => panic!("state moved to the wrong arm") } }
start_harness!(k_fwd_choice_l_start, wa_l, us_l, M);
fwd_harness!(k_fwd_choice_l_msg, wa_l, ws_l, us_l, M, kani::any(), on_msg);
fwd_harness!(k_fwd_choice_l_timeout, wa_l, ws_l, us_l, M, kani::any(), on_timeout);
fwd_harness!(k_fwd_choice_l_random, wa_l, ws_l, us_l, M, kani::any(), on_random);

type CR = Choice<Q, Choice<P<M>, Never>>;
type CRS = Choice<u16, Choice<PS<M>, Never>>;
fn wa_r(p: P<M>) -> CR { Choice::new(p).or() }
fn ws_r(s: PS<M>) -> CRS { Choice::new(s).or() }
fn us_r(s: &CRS) -> &PS<M> { match s { Choice::R(s) => s.get(), Choice::L(_) => panic!("state moved to the wrong arm") } }
start_harness!(k_fwd_choice_r_start, wa_r, us_r, M);
fwd_harness!(k_fwd_choice_r_msg, wa_r, ws_r, us_r, M, kani::any(), on_msg);
fwd_harness!(k_fwd_choice_r_timeout, wa_r, ws_r, us_r, M, kani::any(), on_timeout);
fwd_harness!(k_fwd_choice_r_random, wa_r, ws_r, us_r, M, kani::any(), on_random);

// ---- RegisterActor::Server / WORegisterActor::Server
type RM = RegisterMsg<u64, char, u8>;
fn any_rm() -> RM {
    let k: u8 = kani::any();
    let c: char = if kani::any() { 'A' } else { 'Z' };
    match k % 5 {
        0 => RegisterMsg::Internal(kani::any()),
        1 => RegisterMsg::Put(kani::any(), c),
        2 => RegisterMsg::Get(kani::any()),
        3 => RegisterMsg::PutOk(kani::any()),
        _ => RegisterMsg::GetOk(kani::any(), c),
    }
}
fn wa_reg(p: P<RM>) -> RegisterActor<P<RM>> { RegisterActor::Server(p) }
fn ws_reg(s: PS<RM>) -> RegisterActorState<PS<RM>, u64> { RegisterActorState::Server(s) }
fn us_reg(s: &RegisterActorState<PS<RM>, u64>) -> &PS<RM> { match s { RegisterActorState::Server(s) => s, _ => panic!("not a server state") } }
start_harness!(k_fwd_reg_server_start, wa_reg, us_reg, RM);
fwd_harness!(k_fwd_reg_server_msg, wa_reg, ws_reg, us_reg, RM, any_rm(), on_msg);
fwd_harness!(k_fwd_reg_server_timeout, wa_reg, ws_reg, us_reg, RM, any_rm(), on_timeout);
fwd_harness!(k_fwd_reg_server_random, wa_reg, ws_reg, us_reg, RM, any_rm(), on_random);

type WM = WORegisterMsg<u64, char, u8>;
fn any_wm() -> WM {
    let k: u8 = kani::any();
    let c: char = if kani::any() { 'A' } else { 'Z' };
    match k % 6 {
        0 => WORegisterMsg::Internal(kani::any()),
        1 => WORegisterMsg::Put(kani::any(), c),
        2 => WORegisterMsg::Get(kani::any()),
        3 => WORegisterMsg::PutOk(kani::any()),
        4 => WORegisterMsg::PutFail(kani::any()),
        _ => WORegisterMsg::GetOk(kani::any(), c),
    }
}
fn wa_wo(p: P<WM>) -> WORegisterActor<P<WM>> { WORegisterActor::Server(p) }
fn ws_wo(s: PS<WM>) -> WORegisterActorState<PS<WM>, u64> { WORegisterActorState::Server(s) }
fn us_wo(s: &WORegisterActorState<PS<WM>, u64>) -> &PS<WM> { match s { WORegisterActorState::Server(s) => s, _ => panic!("not a server state") } }
start_harness!(k_fwd_wo_server_start, wa_wo, us_wo, WM);
fwd_harness!(k_fwd_wo_server_msg, wa_wo, ws_wo, us_wo, WM, any_wm(), on_msg);
fwd_harness!(k_fwd_wo_server_timeout, wa_wo, ws_wo, us_wo, WM, any_wm(), on_timeout);
fwd_harness!(k_fwd_wo_server_random, wa_wo, ws_wo, us_wo, WM, any_wm(), on_random);

// ---- the scripted Vec<(Id, Msg)> client: sends exactly its script, one message per received
// message, in order (script length <= 3: bounded by the script length only)
#[kani::proof]
#[kani::unwind(5)]
fn k_vec_client() {
    let n: usize = kani::any();
    kani::assume(n <= 3);
    let d: [usize; 3] = kani::any();
    let m: [u8; 3] = kani::any();
    let mut script: Vec<(Id, u8)> = Vec::new();
    let mut i = 0;
    while i < n {
        script.push((Id::from(d[i]), m[i]));
        i += 1;
    }
    let id: usize = kani::any();
    let mut o: Out<Vec<(Id, u8)>> = Out::new();
    let s = script.on_start(Id::from(id), &mut o);
    if n == 0 {
        assert!(s == 0 && o.len() == 0);
    } else {
        assert!(s == 1 && o.len() == 1);
        assert!(cmd_eq(&o[0], &Command::Send(Id::from(d[0]), m[0])));
    }
    // any state k, any incoming message
    let k: usize = kani::any();
    kani::assume(k <= 5);
    let mut st = Cow::Borrowed(&k);
    let mut o2: Out<Vec<(Id, u8)>> = Out::new();
    script.on_msg(Id::from(id), &mut st, Id::from(kani::any::<usize>()), kani::any(), &mut o2);
    if k < n {
        assert!(o2.len() == 1 && cmd_eq(&o2[0], &Command::Send(Id::from(d[k]), m[k])));
        assert!(*st == k + 1);
    } else {
        assert!(o2.len() == 0 && matches!(st, Cow::Borrowed(_)));
    }
    kani::cover!(n == 3 && k == 2);
}
