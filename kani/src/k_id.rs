//! C17: Id <-> SocketAddrV4 is a bijection on 48-bit ids (loop-free, full domain = complete).
use stateright::actor::Id;
use std::net::{Ipv4Addr, SocketAddrV4};

#[kani::proof]
fn k_id_addr_roundtrip() {
    let a: u32 = kani::any();
    let p: u16 = kani::any();
    let addr = SocketAddrV4::new(Ipv4Addr::from(a), p);
    let id = Id::from(addr);
    assert!(SocketAddrV4::from(id) == addr);
    // the id is the 48-bit big-endian concatenation ip:port
    assert!(usize::from(id) as u64 == ((a as u64) << 16) | p as u64);
    assert!((usize::from(id) as u64) < (1u64 << 48));
    kani::cover!(a == 0x7f000001 && p == 3000);
}

#[kani::proof]
fn k_id_id_roundtrip() {
    let v: u64 = kani::any();
    kani::assume(v < (1u64 << 48));
    let id = Id::from(v as usize);
    let addr = SocketAddrV4::from(id);
    assert!(Id::from(addr) == id);
    assert!(u32::from(*addr.ip()) as u64 == v >> 16 && addr.port() as u64 == v & 0xffff);
    kani::cover!(v == 0x0a00_0001_1f90);
}
