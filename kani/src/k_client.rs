//! C18: client arms of RegisterActor / WORegisterActor and the record_* history hooks.
//! Loop-free and symbolic in put_count, server_count, client index, op_count and every message:
//! complete under the stated arithmetic preconditions (no u64 overflow of (op_count+1)*index;
//! at most 26 clients, which is what the `b'A' + k` value scheme of the real code supports).
use crate::probe::*;
use stateright::actor::register::*;
use stateright::actor::write_once_register::*;
use stateright::actor::*;
use stateright::semantics::register::*;
use stateright::semantics::write_once_register::*;
use stateright::semantics::ConsistencyTester;
use std::borrow::Cow;

macro_rules! client_harnesses {
    ($start:ident, $reply:ident, $idle:ident, $timeout:ident, $actor:ident, $state:ident, $msg:ident, $anymsg:expr, $isreply:expr) => {
        #[kani::proof]
        #[kani::unwind(4)]
        fn $start() {
            let put_count: usize = kani::any();
            let server_count: usize = kani::any();
            let idx: usize = kani::any();
            kani::assume(server_count >= 1 && server_count <= 3);
            kani::assume(idx >= server_count && idx - server_count < 4);
            let a: $actor<P<$msg<u64, char, u8>>> = $actor::Client { put_count, server_count };
            let mut o = Out::new();
            let st = a.on_start(Id::from(idx), &mut o);
            if put_count == 0 {
                assert!(o.len() == 0);
                assert!(st == $state::Client { awaiting: None, op_count: 0 });
            } else {
                // exactly one Put with request id 1*index, to a server, and it is now awaited
                assert!(o.len() == 1);
                match &o[0] {
                    Command::Send(dst, $msg::Put(rid, _v)) => {
                        assert!(*rid == idx as u64);
                        assert!(usize::from(*dst) < server_count);
                    }
                    _ => assert!(false),
                }
                assert!(st == $state::Client { awaiting: Some(idx as u64), op_count: 1 });
            }
            kani::cover!(put_count == 2 && idx == 4 && server_count == 3);
            kani::cover!(put_count == 0);
        }

        #[kani::proof]
        #[kani::unwind(4)]
        fn $reply() {
            let put_count: usize = kani::any();
            let server_count: usize = kani::any();
            let idx: usize = kani::any();
            let op_count: u64 = kani::any();
            // 64-bit `*` and `%` on fully symbolic operands do not finish in CBMC: small configurations
            kani::assume(server_count >= 1 && server_count <= 3);
            kani::assume(idx >= server_count && idx - server_count < 4);
            kani::assume(op_count >= 1 && op_count <= 8);
            // client invariant: the awaited id is op_count * index (established by on_start, kept below)
            let awaiting: u64 = op_count * idx as u64;
            let a: $actor<P<$msg<u64, char, u8>>> = $actor::Client { put_count, server_count };
            let st0 = $state::Client { awaiting: Some(awaiting), op_count };
            let mut st = Cow::Borrowed(&st0);
            let mut o = Out::new();
            let msg: $msg<u64, char, u8> = $anymsg;
            let kind: u8 = $isreply(&msg, awaiting); // 0 = not a reply to the awaited request, 1 = put reply, 2 = get reply
            a.on_msg(Id::from(idx), &mut st, Id::from(kani::any::<usize>()), msg, &mut o);
            if kind == 0 {
                assert!(matches!(st, Cow::Borrowed(_)) && o.len() == 0);
            } else if kind == 1 {
                let fresh = (op_count + 1) * idx as u64;
                assert!(fresh > awaiting); // strictly larger than every earlier id of this client
                assert!(o.len() == 1);
                match &o[0] {
                    Command::Send(dst, $msg::Put(rid, _)) => {
                        assert!(*rid == fresh && op_count < put_count as u64 && usize::from(*dst) < server_count);
                    }
                    Command::Send(dst, $msg::Get(rid)) => {
                        assert!(*rid == fresh && op_count >= put_count as u64 && usize::from(*dst) < server_count);
                    }
                    _ => assert!(false),
                }
                assert!(*st == $state::Client { awaiting: Some(fresh), op_count: op_count + 1 });
            } else {
                assert!(o.len() == 0);
                assert!(*st == $state::Client { awaiting: None, op_count: op_count + 1 });
            }
            kani::cover!(kind == 1 && op_count < put_count as u64);
            kani::cover!(kind == 1 && op_count >= put_count as u64);
            kani::cover!(kind == 2);
            kani::cover!(kind == 0);
        }

        #[kani::proof]
        #[kani::unwind(4)]
        fn $idle() {
            // with nothing outstanding, no message makes the client send or change anything
            let a: $actor<P<$msg<u64, char, u8>>> = $actor::Client { put_count: kani::any(), server_count: kani::any() };
            let st0 = $state::Client { awaiting: None, op_count: kani::any() };
            let mut st = Cow::Borrowed(&st0);
            let mut o = Out::new();
            let msg: $msg<u64, char, u8> = $anymsg;
            a.on_msg(Id::from(kani::any::<usize>()), &mut st, Id::from(kani::any::<usize>()), msg, &mut o);
            assert!(matches!(st, Cow::Borrowed(_)) && o.len() == 0);
            kani::cover!(true);
        }

        #[kani::proof]
        #[kani::unwind(4)]
        fn $timeout() {
            let a: $actor<P<$msg<u64, char, u8>>> = $actor::Client { put_count: kani::any(), server_count: kani::any() };
            let st0 = $state::Client { awaiting: if kani::any() { Some(kani::any()) } else { None }, op_count: kani::any() };
            let mut st = Cow::Borrowed(&st0);
            let mut o = Out::new();
            let t: u8 = kani::any();
            a.on_timeout(Id::from(kani::any::<usize>()), &mut st, &t, &mut o);
            assert!(matches!(st, Cow::Borrowed(_)) && o.len() == 0);
            let mut st2 = Cow::Borrowed(&st0);
            a.on_random(Id::from(kani::any::<usize>()), &mut st2, &t, &mut o);
            assert!(matches!(st2, Cow::Borrowed(_)) && o.len() == 0);
            kani::cover!(true);
        }
    };
}

fn any_char() -> char {
    if kani::any() { 'A' } else { 'Z' }
}
fn any_rm() -> RegisterMsg<u64, char, u8> {
    let k: u8 = kani::any();
    match k % 5 {
        0 => RegisterMsg::Internal(kani::any()),
        1 => RegisterMsg::Put(kani::any(), any_char()),
        2 => RegisterMsg::Get(kani::any()),
        3 => RegisterMsg::PutOk(kani::any()),
        _ => RegisterMsg::GetOk(kani::any(), any_char()),
    }
}
fn reply_kind_r(m: &RegisterMsg<u64, char, u8>, awaiting: u64) -> u8 {
    match m {
        RegisterMsg::PutOk(r) if *r == awaiting => 1,
        RegisterMsg::GetOk(r, _) if *r == awaiting => 2,
        _ => 0,
    }
}
fn any_wm() -> WORegisterMsg<u64, char, u8> {
    let k: u8 = kani::any();
    match k % 6 {
        0 => WORegisterMsg::Internal(kani::any()),
        1 => WORegisterMsg::Put(kani::any(), any_char()),
        2 => WORegisterMsg::Get(kani::any()),
        3 => WORegisterMsg::PutOk(kani::any()),
        4 => WORegisterMsg::PutFail(kani::any()),
        _ => WORegisterMsg::GetOk(kani::any(), any_char()),
    }
}
fn reply_kind_w(m: &WORegisterMsg<u64, char, u8>, awaiting: u64) -> u8 {
    match m {
        WORegisterMsg::PutOk(r) if *r == awaiting => 1,
        WORegisterMsg::PutFail(r) if *r == awaiting => 1,
        WORegisterMsg::GetOk(r, _) if *r == awaiting => 2,
        _ => 0,
    }
}

client_harnesses!(k_client_reg_start, k_client_reg_reply, k_client_reg_idle, k_client_reg_timeout, RegisterActor, RegisterActorState, RegisterMsg, any_rm(), reply_kind_r);
client_harnesses!(k_client_wo_start, k_client_wo_reply, k_client_wo_idle, k_client_wo_timeout, WORegisterActor, WORegisterActorState, WORegisterMsg, any_wm(), reply_kind_w);

// ---- history hooks against a logging tester: which call is recorded for which message
#[derive(Clone, PartialEq, Debug)]
struct LogR(Vec<(bool, u64, Option<RegisterOp<char>>, Option<RegisterRet<char>>)>);
impl ConsistencyTester<Id, Register<char>> for LogR {
    fn on_invoke(&mut self, t: Id, op: RegisterOp<char>) -> Result<&mut Self, String> {
        self.0.push((true, idn(t), Some(op), None));
        Ok(self)
    }
    fn on_return(&mut self, t: Id, ret: RegisterRet<char>) -> Result<&mut Self, String> {
        self.0.push((false, idn(t), None, Some(ret)));
        Ok(self)
    }
    fn is_consistent(&self) -> bool {
        true
    }
}

#[kani::proof]
#[kani::unwind(4)]
fn k_hooks_reg() {
    let h0 = LogR(Vec::new());
    let m = any_rm();
    let src: usize = kani::any();
    let dst: usize = kani::any();
    let env = Envelope { src: Id::from(src), dst: Id::from(dst), msg: &m };
    let inv = RegisterMsg::record_invocations(&(), &h0, env);
    let ret = RegisterMsg::record_returns(&(), &h0, env);
    assert!(h0.0.is_empty()); // the original history is untouched
    match &m {
        RegisterMsg::Put(_, v) => {
            assert!(inv == Some(LogR(vec![(true, src as u64, Some(RegisterOp::Write(*v)), None)])) && ret.is_none())
        }
        RegisterMsg::Get(_) => assert!(inv == Some(LogR(vec![(true, src as u64, Some(RegisterOp::Read), None)])) && ret.is_none()),
        RegisterMsg::PutOk(_) => assert!(ret == Some(LogR(vec![(false, dst as u64, None, Some(RegisterRet::WriteOk))])) && inv.is_none()),
        RegisterMsg::GetOk(_, v) => {
            assert!(ret == Some(LogR(vec![(false, dst as u64, None, Some(RegisterRet::ReadOk(*v)))])) && inv.is_none())
        }
        RegisterMsg::Internal(_) => assert!(inv.is_none() && ret.is_none()),
    }
    kani::cover!(matches!(m, RegisterMsg::GetOk(_, _)));
}

#[derive(Clone, PartialEq, Debug)]
struct LogW(Vec<(bool, u64, Option<WORegisterOp<char>>, Option<WORegisterRet<char>>)>);
impl ConsistencyTester<Id, WORegister<char>> for LogW {
    fn on_invoke(&mut self, t: Id, op: WORegisterOp<char>) -> Result<&mut Self, String> {
        self.0.push((true, idn(t), Some(op), None));
        Ok(self)
    }
    fn on_return(&mut self, t: Id, ret: WORegisterRet<char>) -> Result<&mut Self, String> {
        self.0.push((false, idn(t), None, Some(ret)));
        Ok(self)
    }
    fn is_consistent(&self) -> bool {
        true
    }
}

#[kani::proof]
#[kani::unwind(4)]
fn k_hooks_wo() {
    let h0 = LogW(Vec::new());
    let m = any_wm();
    let src: usize = kani::any();
    let dst: usize = kani::any();
    let env = Envelope { src: Id::from(src), dst: Id::from(dst), msg: &m };
    let inv = WORegisterMsg::record_invocations(&(), &h0, env);
    let ret = WORegisterMsg::record_returns(&(), &h0, env);
    assert!(h0.0.is_empty());
    match &m {
        WORegisterMsg::Put(_, v) => {
            assert!(inv == Some(LogW(vec![(true, src as u64, Some(WORegisterOp::Write(*v)), None)])) && ret.is_none())
        }
        WORegisterMsg::Get(_) => assert!(inv == Some(LogW(vec![(true, src as u64, Some(WORegisterOp::Read), None)])) && ret.is_none()),
        WORegisterMsg::PutOk(_) => assert!(ret == Some(LogW(vec![(false, dst as u64, None, Some(WORegisterRet::WriteOk))])) && inv.is_none()),
        WORegisterMsg::PutFail(_) => assert!(ret == Some(LogW(vec![(false, dst as u64, None, Some(WORegisterRet::WriteFail))])) && inv.is_none()),
        WORegisterMsg::GetOk(_, v) => {
            assert!(ret == Some(LogW(vec![(false, dst as u64, None, Some(WORegisterRet::ReadOk(Some(*v))))])) && inv.is_none())
        }
        WORegisterMsg::Internal(_) => assert!(inv.is_none() && ret.is_none()),
    }
    kani::cover!(matches!(m, WORegisterMsg::PutFail(_)));
}
