//! C10 / C20: the sorting plan on the real RewritePlan (bounded: n = 3 values in 0..3, so ties occur;
//! labelled bounded(3) in checks.json) and DenseNatMap::rewrite under that plan.
use stateright::actor::Id;
use stateright::util::DenseNatMap;
use stateright::{Rewrite, RewritePlan};

fn plan3() -> ([u8; 3], RewritePlan<Id, DenseNatMap<Id, Id>>, [usize; 3]) {
    let v: [u8; 3] = kani::any();
    kani::assume(v[0] < 3 && v[1] < 3 && v[2] < 3);
    let vals = v.to_vec();
    let plan = RewritePlan::<Id, _>::from_values_to_sort(&vals);
    let p = [
        usize::from(plan.rewrite(&Id::from(0))),
        usize::from(plan.rewrite(&Id::from(1))),
        usize::from(plan.rewrite(&Id::from(2))),
    ];
    (v, plan, p)
}

#[kani::proof]
#[kani::unwind(6)]
fn k_plan_is_stable_sorting_permutation() {
    let (v, _plan, p) = plan3();
    // a permutation of 0..3
    assert!(p[0] < 3 && p[1] < 3 && p[2] < 3);
    assert!(p[0] != p[1] && p[0] != p[2] && p[1] != p[2]);
    // order preserving and stable: i before j in the result iff (value, index) is smaller
    let mut i = 0;
    while i < 3 {
        let mut j = 0;
        while j < 3 {
            if v[i] < v[j] || (v[i] == v[j] && i < j) {
                assert!(p[i] < p[j]);
            }
            j += 1;
        }
        i += 1;
    }
    kani::cover!(v[0] == 2 && v[1] == 0 && v[2] == 2);
}

#[kani::proof]
#[kani::unwind(6)]
fn k_plan_reindex_moves_each_element_to_its_new_index() {
    let (v, plan, p) = plan3();
    let xs: [u8; 3] = kani::any();
    let out: Vec<u8> = plan.reindex(&xs.to_vec());
    assert!(out.len() == 3);
    assert!(out[p[0]] == xs[0] && out[p[1]] == xs[1] && out[p[2]] == xs[2]);
    // the values themselves come out sorted
    let sorted: Vec<u8> = plan.reindex(&v.to_vec());
    assert!(sorted[0] <= sorted[1] && sorted[1] <= sorted[2]);
    // elements that are ids are rewritten as well as moved (one single permutation)
    let ids = vec![Id::from(0), Id::from(1), Id::from(2)];
    let out_ids: Vec<Id> = plan.reindex(&ids);
    assert!(usize::from(out_ids[p[0]]) == p[0] && usize::from(out_ids[p[1]]) == p[1] && usize::from(out_ids[p[2]]) == p[2]);
    kani::cover!(p[0] == 2 && p[1] == 0);
}

#[kani::proof]
#[kani::unwind(6)]
fn k_dnm_rewrite_moves_values_to_rewritten_keys() {
    let (_v, plan, p) = plan3();
    let xs: [u8; 3] = kani::any();
    let m: DenseNatMap<Id, u8> = xs.to_vec().into_iter().collect();
    let r = m.rewrite(&plan);
    assert!(r.len() == 3);
    assert!(*r.get(Id::from(p[0])).unwrap() == xs[0]);
    assert!(*r.get(Id::from(p[1])).unwrap() == xs[1]);
    assert!(*r.get(Id::from(p[2])).unwrap() == xs[2]);
    kani::cover!(p[2] == 0);
}

// C20: DenseNatMap from (key, value) pairs: order independent, rejects gaps and duplicates
// (bounded: 3 pairs, keys 0..=3; the accepting and the panicking direction are separate harnesses).
fn any_pairs3() -> ([usize; 3], [u8; 3]) {
    let k: [usize; 3] = kani::any();
    kani::assume(k[0] < 4 && k[1] < 4 && k[2] < 4);
    (k, kani::any())
}
fn is_perm3(k: &[usize; 3]) -> bool {
    k[0] < 3 && k[1] < 3 && k[2] < 3 && k[0] != k[1] && k[0] != k[2] && k[1] != k[2]
}

#[kani::proof]
#[kani::unwind(6)]
fn k_dnm_from_pairs_accepts_permutations() {
    let (k, v) = any_pairs3();
    kani::assume(is_perm3(&k));
    let m: DenseNatMap<usize, u8> = vec![(k[0], v[0]), (k[1], v[1]), (k[2], v[2])].into_iter().collect();
    assert!(m.len() == 3);
    assert!(*m.get(k[0]).unwrap() == v[0] && *m.get(k[1]).unwrap() == v[1] && *m.get(k[2]).unwrap() == v[2]);
    kani::cover!(k[0] == 2 && k[1] == 0);
}

#[kani::proof]
#[kani::unwind(6)]
#[kani::should_panic]
fn k_dnm_from_pairs_rejects_gaps_and_duplicates() {
    let (k, v) = any_pairs3();
    kani::assume(!is_perm3(&k));
    let m: DenseNatMap<usize, u8> = vec![(k[0], v[0]), (k[1], v[1]), (k[2], v[2])].into_iter().collect();
    let _ = m.len();
    // `should_panic` only demands SOME panic; that EVERY non-permutation panics is the unreachability
    // of this point: the driver requires this cover to be UNSATISFIABLE (harness flag must_panic)
    kani::cover!(true, "from_iter returned for a key set with a gap or a duplicate");
}
