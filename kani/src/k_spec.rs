//! C18: write-once register reference object (Verus cannot take these two functions, DESIGN 2.1).
//! Loop-free over the full u8 domain: complete for T = u8; generic T by A-PARAM.
use stateright::semantics::write_once_register::*;
use stateright::semantics::SequentialSpec;

fn any_op() -> WORegisterOp<u8> {
    if kani::any() { WORegisterOp::Write(kani::any()) } else { WORegisterOp::Read }
}
fn any_ret() -> WORegisterRet<u8> {
    let k: u8 = kani::any();
    match k % 3 {
        0 => WORegisterRet::WriteOk,
        1 => WORegisterRet::WriteFail,
        _ => WORegisterRet::ReadOk(if kani::any() { Some(kani::any()) } else { None }),
    }
}
/// documented semantics of the write-once register
fn wo_step(s: Option<u8>, op: &WORegisterOp<u8>) -> (Option<u8>, WORegisterRet<u8>) {
    match op {
        WORegisterOp::Write(v) => match s {
            None => (Some(*v), WORegisterRet::WriteOk),
            Some(p) if p == *v => (Some(*v), WORegisterRet::WriteOk),
            Some(_) => (s, WORegisterRet::WriteFail),
        },
        WORegisterOp::Read => (s, WORegisterRet::ReadOk(s)),
    }
}

#[kani::proof]
fn k_wo_invoke() {
    let s: Option<u8> = if kani::any() { Some(kani::any()) } else { None };
    let op = any_op();
    let mut r = WORegister(s);
    let ret = r.invoke(&op);
    let (s2, ret2) = wo_step(s, &op);
    assert!(ret == ret2);
    assert!(r.0 == s2);
    kani::cover!(ret == WORegisterRet::WriteFail);
}

#[kani::proof]
fn k_wo_valid_step() {
    let s: Option<u8> = if kani::any() { Some(kani::any()) } else { None };
    let op = any_op();
    let ret = any_ret();
    let mut r = WORegister(s);
    let ok = r.is_valid_step(&op, &ret);
    let (s2, ret2) = wo_step(s, &op);
    assert!(ok == (ret == ret2));
    if ok {
        assert!(r.0 == s2);
    }
    kani::cover!(ok && ret == WORegisterRet::WriteFail);
    kani::cover!(!ok);
}

// ---- is_valid_history (default trait method) accepts exactly the invoke traces: bounded stand-in,
// histories of up to 3 steps over Register<u8> with values < 2
use stateright::semantics::register::*;

fn any_reg_op() -> RegisterOp<u8> {
    if kani::any() { let v: u8 = kani::any(); kani::assume(v < 2); RegisterOp::Write(v) } else { RegisterOp::Read }
}
fn any_reg_ret() -> RegisterRet<u8> {
    if kani::any() { RegisterRet::WriteOk } else { let v: u8 = kani::any(); kani::assume(v < 2); RegisterRet::ReadOk(v) }
}

#[kani::proof]
#[kani::unwind(6)]
fn k_valid_history_register() {
    let n: usize = kani::any();
    kani::assume(n <= 3);
    let ops = [any_reg_op(), any_reg_op(), any_reg_op()];
    let rets = [any_reg_ret(), any_reg_ret(), any_reg_ret()];
    let init: u8 = kani::any();
    kani::assume(init < 2);
    let mut hist: Vec<(RegisterOp<u8>, RegisterRet<u8>)> = Vec::new();
    let mut i = 0;
    while i < n { hist.push((ops[i].clone(), rets[i].clone())); i += 1; }
    let mut obj = Register(init);
    let got = obj.is_valid_history(hist);
    // reference: replay invoke from the initial object
    let mut r = Register(init);
    let mut want = true;
    let mut i = 0;
    while i < n {
        if want && r.invoke(&ops[i]) != rets[i] { want = false; }
        i += 1;
    }
    assert!(got == want);
    kani::cover!(n == 3 && got);
    kani::cover!(n == 3 && !got);
}
