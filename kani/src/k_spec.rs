//! C18: write-once register reference object (Verus cannot take these two functions, DESIGN 2.1).
//! Loop-free over the full u8 domain: complete for T = u8; generic T by A-PARAM.
use stateright::semantics::write_once_register::*;
use stateright::semantics::SequentialSpec;

fn any_op() -> WORegisterOp<u8> {
    if kani::any() { WORegisterOp::Write(kani::any()) } else { WORegisterOp::Read }
}
fn any_ret() -> WORegisterRet<u8> {
    let k: u8 = kani::any();
    match k % 3 {
        0 => WORegisterRet::WriteOk,
        1 => WORegisterRet::WriteFail,
        _ => WORegisterRet::ReadOk(if kani::any() { Some(kani::any()) } else { None }),
    }
}
/// documented semantics of the write-once register
fn wo_step(s: Option<u8>, op: &WORegisterOp<u8>) -> (Option<u8>, WORegisterRet<u8>) {
    match op {
        WORegisterOp::Write(v) => match s {
            None => (Some(*v), WORegisterRet::WriteOk),
            Some(p) if p == *v => (Some(*v), WORegisterRet::WriteOk),
            Some(_) => (s, WORegisterRet::WriteFail),
        },
        WORegisterOp::Read => (s, WORegisterRet::ReadOk(s)),
    }
}

#[kani::proof]
fn k_wo_invoke() {
    let s: Option<u8> = if kani::any() { Some(kani::any()) } else { None };
    let op = any_op();
    let mut r = WORegister(s);
    let ret = r.invoke(&op);
    let (s2, ret2) = wo_step(s, &op);
    assert!(ret == ret2);
    assert!(r.0 == s2);
    kani::cover!(ret == WORegisterRet::WriteFail);
}

#[kani::proof]
fn k_wo_valid_step() {
    let s: Option<u8> = if kani::any() { Some(kani::any()) } else { None };
    let op = any_op();
    let ret = any_ret();
    let mut r = WORegister(s);
    let ok = r.is_valid_step(&op, &ret);
    let (s2, ret2) = wo_step(s, &op);
    assert!(ok == (ret == ret2));
    if ok {
        assert!(r.0 == s2);
    }
    kani::cover!(ok && ret == WORegisterRet::WriteFail);
    kani::cover!(!ok);
}
