"""Desugaring rule of the adapter units (RCL; DESIGN.md 2.1 quirk "an assigning arm before a guarded arm").

Same conventions as rules.py: a rule is a generic syntactic idiom with captures, captured sub-expressions are
re-emitted unchanged, `RULE(body, ctx) -> (new_body, fired_count)`, and a rule raises LostAnchor rather than guess.
"""
import re

from extract import LostAnchor, code_mask, find_top, match_close

PATH_RX = re.compile(r'\s*(?:&\s*)?((?:[A-Za-z_][A-Za-z0-9_]*\s*::\s*)*[A-Z][A-Za-z0-9_]*)\s*([({]?)')


def _arms(text, lo, hi, mask):
    """The arms of the match body text[lo:hi] (exclusive of the braces): list of dict(start, end, pat, guard, body,
    body_is_block). `end` is past the arm's trailing comma, if any."""
    arms = []
    k = lo
    while True:
        while k < hi and (text[k].isspace() or not mask[k]):
            k += 1
        if k >= hi:
            break
        start = k
        arrow = find_top(text, r'=>', start, mask, hi)
        if not arrow:
            raise LostAnchor('GUARD_DEFAULT: match arm without `=>`')
        header = text[start:arrow.start()]
        hmask = mask[start:arrow.start()]
        g = find_top(header, r'(?<![A-Za-z0-9_])if(?![A-Za-z0-9_])', 0, hmask)
        pat, guard = (header[:g.start()].strip(), header[g.end():].strip()) if g else (header.strip(), None)
        b = arrow.end()
        while b < hi and text[b].isspace():
            b += 1
        if b < hi and text[b] == '{':
            cb = match_close(text, b, mask)
            body, is_block, end = text[b:cb + 1], True, cb + 1
        else:
            comma = find_top(text, r',', b, mask, hi)
            end = comma.start() if comma else hi
            body, is_block = text[b:end].strip(), False
        j = end
        while j < hi and text[j].isspace():
            j += 1
        if j < hi and text[j] == ',':
            end = j + 1
        arms.append(dict(start=start, end=end, pat=pat, guard=guard, body=body, is_block=is_block))
        k = end
    return arms


def _head(pat):
    """The constructor a pattern starts with (`RegisterMsg::PutOk(..)` -> `RegisterMsg::PutOk`), or None when the
    pattern is not syntactically a constructor pattern (a binding, a literal, a tuple, an or-pattern, a range)."""
    if find_top(pat, r'\|', 0) or '..=' in pat:
        return None
    m = PATH_RX.match(pat)
    if not m:
        return None
    path = re.sub(r'\s+', '', m.group(1))
    if '::' not in path and not m.group(2):
        return None  # a bare identifier could be a binding or a constant: not decided syntactically
    return path


def GUARD_DEFAULT(body, ctx):
    """`match E { .. P if G => { B } .. _ => {} }`  ->  `match E { .. P => { if G { B } else {} } .. _ => {} }`
    for every guarded arm of a `match` that is used as a statement, PROVIDED THAT (else LostAnchor)
      * the last arm is the unguarded catch-all `_ => {}` (the default does nothing),
      * every other arm starts with a constructor path (`Enum::Variant(..)`, `Enum::Variant { .. }`, `Enum::Variant`;
        no or-patterns, bindings, literals or ranges at the top), and these constructors are pairwise distinct, and
      * every guarded arm's body is a brace block.
    Why the two spellings agree: a value matches at most one of the constructor patterns. If it matches P and G holds,
    both run B; if it matches P and G does not hold, the original goes on to the later arms, none of which can match
    except `_`, whose body is empty - the rewritten arm's `else {}`; if it matches no constructor pattern both take `_`.
    G sees P's bindings by reference in the original and by value in the rewrite, which is the same for an expression
    that could be a guard at all (a guard cannot move out of its bindings). Only the moment at which the scrutinee's
    parts are dropped differs.
    Why the rule exists (DESIGN.md 2.1): with Verus 0.2026.09.13 a `&mut` parameter assigned in an arm that is
    followed by a guarded arm is not resolved on the paths that fall through a failed guard (`*final(state)` is
    unconstrained there, although `*state` at the end of the body is known), so a true postcondition about
    `final(state)` cannot be proved on the original spelling. E, P, G and B are re-emitted unchanged."""
    fired = 0
    pos = 0
    while True:
        mask = code_mask(body)
        m = None
        for cand in re.finditer(r'(?<![A-Za-z0-9_.])match\b', body[pos:]):
            if mask[pos + cand.start()]:
                m = cand
                break
        if not m:
            break
        kw = pos + m.start()
        ob = find_top(body, r'\{', kw + 5, mask)
        if not ob:
            raise LostAnchor('GUARD_DEFAULT: `match` without a body')
        ob = ob.start()
        cb = match_close(body, ob, mask)
        arms = _arms(body, ob + 1, cb, mask)
        if not any(a['guard'] is not None for a in arms):
            pos = ob + 1  # nothing to do here; inner matches are visited next
            continue
        last = arms[-1]
        if not (last['pat'] == '_' and last['guard'] is None and last['is_block'] and not last['body'][1:-1].strip()):
            raise LostAnchor('GUARD_DEFAULT: a match with guarded arms must end in `_ => {}`')
        heads = []
        for a in arms[:-1]:
            h = _head(a['pat'])
            if h is None:
                raise LostAnchor('GUARD_DEFAULT: arm pattern `%s` is not a constructor pattern' % a['pat'][:60])
            heads.append(h)
            if a['guard'] is not None and not a['is_block']:
                raise LostAnchor('GUARD_DEFAULT: the body of a guarded arm must be a brace block')
        # the same variant may be written with different prefixes (`Msg::PutOk` / `PutOk`): compare the variant names
        last_seg = [h.split('::')[-1] for h in heads]
        if len(set(last_seg)) != len(last_seg):
            raise LostAnchor('GUARD_DEFAULT: two arms start with the same constructor (%s)' % ', '.join(heads))
        out, p = [], ob + 1
        for a in arms:
            if a['guard'] is None:
                continue
            out.append(body[p:a['start']])
            out.append('%s => { if %s %s else {} }' % (a['pat'], a['guard'], a['body']))
            p = a['start'] + len(body[a['start']:a['end']].rstrip().rstrip(','))
            fired += 1
        out.append(body[p:cb])
        new_inner = ''.join(out)
        body = body[:ob + 1] + new_inner + body[cb:]
        pos = ob + 1  # arms (and the matches inside them) are visited next; the rewritten arms have no guard left
    return body, fired
