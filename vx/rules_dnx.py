"""Desugaring rules of units DNX (`DenseNatMap`: `FromIterator<(K, V)>::from_iter`, `Rewrite::rewrite`;
/repo/src/util/densenatmap.rs) and SQH (`SequentialSpec::is_valid_history`, /repo/src/semantics.rs).
Conventions: vx/rules.py, vx/rules_closure.py and vx/rules_plan.py (whose helpers are reused).

Every rule is a generic syntactic idiom; the receiver, closure patterns and closure bodies are captured and
re-emitted unchanged, so an edit inside any of them reaches the verifier. A rule named in `rules:` that fires
0 times is a lost anchor (undecided) - except the two DX_PANIC_* rules, see their docstrings; an idiom present
in a shape the rule does not understand raises LostAnchor. Names ending in `_` are the rule's own locals.

  DX_GENERIC_ITEMS_VEC                    `fn f<G: IntoIterator<Item = I>>(P: G)`, P consumed by one `P.into_iter()` -> `fn f(P: Vec<I>)`
  DX_INTO_ITER_ENUMERATE_MAP_COLLECT_VEC  `A.into_iter().enumerate().map(|P| E).collect()`          (A a Vec, into a Vec)
  DX_ITEMS_MAP_COLLECT_FROM_ITER          `Y.iter().map(|P| E).collect()`     (`Y.iter()` crate code: owned items; target: crate `FromIterator`)
  DX_INTO_ITER_ALL_ANY                    `A.into_iter().all(|P| E)` / `A.into_iter().any(|P| E)`   (A a Vec; the closure may mutate captured state)
  DX_PANIC_EXIT                           `panic!(..)` -> `panic_exit()`      (partial-correctness reading: a panic does not return)
  DX_PANIC_UNREACHABLE                    `panic!(..)` -> `panic_unreachable()` (total reading: `requires false`; for the other copy of such a function)
"""
import re

from extract import LostAnchor, code_mask, find_top, match_close
from rules import IDENT
from rules_closure import _closure_arg, _first, _receiver_start
from rules_plan import _bind, _turbofish_after


# --------------------------------------------------------------------------------------------
# helpers
# --------------------------------------------------------------------------------------------

def _angle_close(text, k):
    """text[k] == '<': index of the matching '>' (`->` is not a bracket)."""
    depth = 0
    for j in range(k, len(text)):
        c = text[j]
        if c == '<':
            depth += 1
        elif c == '>' and text[j - 1] != '-':
            depth -= 1
            if depth == 0:
                return j
    raise LostAnchor('unbalanced `<` in a signature')


def _split_generics(text):
    """split `A: X<Y, Z>, B, 'a` at commas that are outside every bracket (angle brackets included)"""
    out, depth, cur = [], 0, ''
    for j, c in enumerate(text):
        if c in '<([':
            depth += 1
        elif c in ')]' or (c == '>' and text[j - 1] != '-'):
            depth -= 1
        if c == ',' and depth == 0:
            out.append(cur)
            cur = ''
        else:
            cur += c
    if cur.strip():
        out.append(cur)
    return out


def _uses(text, name):
    mask = code_mask(text)
    return [u for u in re.finditer(r'(?<![A-Za-z0-9_])%s(?![A-Za-z0-9_])' % re.escape(name), text) if mask[u.start()]]


# --------------------------------------------------------------------------------------------
# generic `G: IntoIterator<Item = I>` parameter consumed by one `.into_iter()`
# --------------------------------------------------------------------------------------------

def DX_GENERIC_ITEMS_VEC(body, ctx):
    """`fn f<.., G: IntoIterator<Item = I>, ..>(.., P: G, ..)` where the ONLY use of P in the body is one
    `P.into_iter()` and G occurs nowhere else -> `fn f<.., ..>(.., P: Vec<I>, ..)`; the body is unchanged.

    PL_PARAM_ITEMS_VEC (rules_plan.py) for the same parameter written with a named generic instead of `impl Trait`
    (Rust reference, impl Trait in argument position: "`fn foo(arg: impl Trait)` is similar to
    `fn foo<T: Trait>(arg: T)`" - an anonymous type parameter). std, trait IntoIterator: "Conversion into an
    Iterator"; the function consumes the iterable once, front to back, so all it can observe is the finite
    sequence of items it yields; a `Vec<I>` is that sequence and `Vec::into_iter` "Creates a consuming iterator,
    that is, one that moves each value out of the vector (from start to end)". This is also how
    `Iterator::collect` reaches `FromIterator::from_iter` ("FromIterator::from_iter() is rarely called
    explicitly, and is instead used through Iterator::collect()"): `from_iter` only sees the items. Iterables
    that never end or whose `next` has side effects are outside the contract. A generic with any other bound
    (`G: IntoIterator<..> + Clone`, a `where` clause on G, `G::IntoIter: ..`) is refused."""
    what = 'DX_GENERIC_ITEMS_VEC'
    n = 0
    while True:
        head = ctx['head']
        mg = re.search(r'<', head)
        if not mg:
            break
        close = _angle_close(head, mg.start())
        if head[close + 1:].strip():
            raise LostAnchor('%s: text after the generic parameter list in `%s`' % (what, head))
        parts = _split_generics(head[mg.start() + 1:close])
        hit = None
        for k, part in enumerate(parts):
            mp = re.match(r'\s*(%s)\s*:\s*IntoIterator\s*<\s*Item\s*=\s*(.*)>\s*$' % IDENT, part, re.S)
            if mp:
                hit = (k, mp.group(1), mp.group(2).strip())
                break
        if not hit:
            break
        k, g, item = hit
        # the item type must be the whole bound: `IntoIterator<Item = I> + X` leaves a `>` inside `item`'s tail
        probe = 'IntoIterator<Item = %s>' % item
        if _angle_close(probe, probe.index('<')) != len(probe) - 1:
            raise LostAnchor('%s: generic `%s` has a bound other than `IntoIterator<Item = ..>`' % (what, g))
        params = ctx['params']
        decl = [m for m in re.finditer(r'(?<![A-Za-z0-9_])(%s)\s*:\s*%s\s*(?=,|$)' % (IDENT, re.escape(g)), params)]
        if len(decl) != 1:
            raise LostAnchor('%s: generic `%s` is not the type of exactly one parameter' % (what, g))
        p = decl[0].group(1)
        elsewhere = ' || '.join([params[:decl[0].start()], params[decl[0].end():], ctx['ret'] or '', ctx['where'] or '',
                                 ','.join(parts[:k] + parts[k + 1:]), body])
        if _uses(elsewhere, g):
            raise LostAnchor('%s: generic `%s` is used outside the parameter `%s: %s`' % (what, g, p, g))
        mask = code_mask(body)
        uses = [u for u in re.finditer(r'(?<![A-Za-z0-9_.])%s(?![A-Za-z0-9_])' % re.escape(p), body) if mask[u.start()]]
        if len(uses) != 1 or not re.match(r'\s*\.\s*into_iter\s*\(\s*\)', body[uses[0].end():]):
            raise LostAnchor('%s: parameter `%s` is not consumed by exactly one `%s.into_iter()`' % (what, p, p))
        rest = [x.strip() for x in parts[:k] + parts[k + 1:] if x.strip()]
        ctx['head'] = head[:mg.start()].rstrip() + ('<%s>' % ', '.join(rest) if rest else '')
        ctx['params'] = params[:decl[0].start()] + '%s: Vec<%s>' % (p, item) + params[decl[0].end():]
        n += 1
    return body, n


# --------------------------------------------------------------------------------------------
# into_iter().enumerate().map(closure).collect()
# --------------------------------------------------------------------------------------------

def DX_INTO_ITER_ENUMERATE_MAP_COLLECT_VEC(body, ctx):
    """`A.into_iter().enumerate().map(|P| E).collect()` (A a `Vec`, collected into a `Vec`; a `::<Vec<..>>`
    turbofish is accepted) ->
    `{ let mut a_ = A; let n_: usize = a_.len(); let mut out_ = Vec::new(); let mut i_: usize = 0;
       while a_.len() > 0 { let P = (i_, a_.remove(0)); i_ += 1; let e_ = E; out_.push(e_); }
       out_ }`

    std: `Vec::into_iter` "Creates a consuming iterator, that is, one that moves each value out of the vector
    (from start to end)"; Iterator::enumerate "Creates an iterator which gives the current iteration count as
    well as the next value. The iterator returned yields pairs (i, val), where i is the current index of
    iteration and val is the value returned by the iterator" (count from 0, a usize); Iterator::map "Takes a
    closure and creates an iterator which calls that closure on each element"; `Vec: FromIterator` keeps the
    order. The lazy adapters call the closure once per item, in order, when `collect` drives them: the eager
    loop is the same sequence of calls (a closure that panics stops both at the same item). `a_.remove(0)` is
    the front-to-back move (as in PL_INTO_ITER_ENUMERATE_COLLECT_VEC); `n_` only names the number of items.
    A, P and E are re-emitted unchanged (E may be a block; A is moved, as `into_iter` does). `collect()` is
    type-directed: the rule name says `Vec`; another target does not type-check (undecided)."""
    what = 'DX_INTO_ITER_ENUMERATE_MAP_COLLECT_VEC'
    n = 0
    rx = re.compile(r'\.\s*into_iter\s*\(\s*\)\s*\.\s*enumerate\s*\(\s*\)\s*\.\s*map\s*\(\s*(?=\|)')
    start = 0
    while True:
        mask = code_mask(body)
        m = _first(rx, body, mask, start)
        if not m:
            break
        pat, expr, pc = _closure_arg(body, m.end(), mask, what)
        tf = _turbofish_after(body, pc + 1)
        if not tf:
            start = m.end()     # `.map(..)` feeding another adapter: not this rule's idiom
            continue
        ty, end = tf
        if ty is not None and not re.match(r'Vec\s*<', ty):
            raise LostAnchor('%s: collected into `%s`, not a Vec' % (what, ty))
        s = _receiver_start(body, m.start(), mask, what)
        a = body[s:m.start()].strip()
        new = ('{ let mut a_ = %s; let n_: usize = a_.len(); let mut out_ = Vec::new(); let mut i_: usize = 0;\n'
               '            while a_.len() > 0 { %s i_ += 1;\n'
               '                let e_ = %s;\n'
               '                out_.push(e_); }\n'
               '            out_ }' % (a, _bind(pat, '(i_, a_.remove(0))', what), expr))
        body = body[:s] + new + body[end:]
        start = s
        n += 1
    return body, n


# --------------------------------------------------------------------------------------------
# Y.iter().map(closure).collect()  --  Y.iter() crate code, target a crate `FromIterator` impl
# --------------------------------------------------------------------------------------------

def DX_ITEMS_MAP_COLLECT_FROM_ITER(body, ctx):
    """`Y.iter().map(|P| E).collect()` (no turbofish) where `Y.iter()` is CRATE code returning
    `impl Iterator<Item = I>` that the unit models as the `Vec<I>` of the items it yields (rules
    PL_ITEMS_OF_ITER*, rules_plan.py) and the target's `FromIterator` impl is crate code too ->
    `{ let mut a_ = Y.iter(); let n_: usize = a_.len(); let mut out_ = Vec::new();
       while a_.len() > 0 { let P = a_.remove(0); let e_ = E; out_.push(e_); }
       FromIterator::from_iter(out_) }`

    PL_ITEMS_MAP_COLLECT_VEC (owned items moved out front to back, `remove(0)`, as `Iterator::next` hands them
    out; Iterator::map "calls that closure on each element": once per item, in order) combined with
    C_MAP_COLLECT_FROM_ITER (rules_closure.py; std, Iterator::collect: "Transforms an iterator into a
    collection" by `FromIterator::from_iter`, "FromIterator::from_iter() is rarely called explicitly, and is
    instead used through Iterator::collect()"): `from_iter` only sees the items, so it is handed the `Vec` of
    the mapped values in iteration order instead of the lazy `Map` adapter. WHICH `FromIterator` impl
    `collect()` resolves to is decided by the item type and the expected type; the directive's `callmap`
    points `FromIterator::from_iter(` at the extracted copy of that impl (if it is the wrong one, the item
    type does not match and the output does not type-check: undecided). Y, P and E are re-emitted unchanged."""
    what = 'DX_ITEMS_MAP_COLLECT_FROM_ITER'
    n = 0
    rx = re.compile(r'\.\s*iter\s*\(\s*\)\s*\.\s*map\s*\(\s*(?=\|)')
    start = 0
    while True:
        mask = code_mask(body)
        m = _first(rx, body, mask, start)
        if not m:
            break
        pat, expr, pc = _closure_arg(body, m.end(), mask, what)
        tf = _turbofish_after(body, pc + 1)
        if not tf or tf[0] is not None:
            start = m.end()     # another consumer / a turbofish target: PL_*_COLLECT_VEC / PL_MAP_COLLECT_INTO
            continue
        end = tf[1]
        s = _receiver_start(body, m.start(), mask, what)
        y = body[s:m.start()].strip()
        new = ('{ let mut a_ = %s.iter(); let n_: usize = a_.len(); let mut out_ = Vec::new();\n'
               '            while a_.len() > 0 { %s\n'
               '                let e_ = %s;\n'
               '                out_.push(e_); }\n'
               '            FromIterator::from_iter(out_) }' % (y, _bind(pat, 'a_.remove(0)', what), expr))
        body = body[:s] + new + body[end:]
        start = s
        n += 1
    return body, n


# --------------------------------------------------------------------------------------------
# into_iter().all(closure) / into_iter().any(closure)
# --------------------------------------------------------------------------------------------

def DX_INTO_ITER_ALL_ANY(body, ctx):
    """`A.into_iter().all(|P| E)` (A a `Vec`) ->
    `{ let mut a_ = A; let mut r_ = true;
       while r_ && a_.len() > 0 { let P = a_.remove(0); let t_: bool = E; r_ = t_; }
       r_ }`
    and `A.into_iter().any(|P| E)` -> the same with `let mut r_ = false; while !r_ && a_.len() > 0 { .. }`.

    std, Iterator::all: "Tests if every element of the iterator matches a predicate. all() takes a closure that
    returns true or false. It applies this closure to each element of the iterator, and if they all return
    true, then so does all(). If any of them return false, it returns false. all() is short-circuiting; in
    other words, it will stop processing as soon as it finds a false, given that no matter what else happens,
    the result will also be false. An empty iterator returns true." Iterator::any: "... if any of them return
    true, then so does any(). If they all return false, it returns false. any() is short-circuiting; in other
    words, it will stop processing as soon as it finds a true ... An empty iterator returns false."
    `Vec::into_iter` moves the items out "from start to end" (`a_.remove(0)`); the items after the first
    false (true) are dropped without being looked at.

    The closure is `F: FnMut(Self::Item) -> bool` and MAY mutate what it captures (`self` of the enclosing
    method): it is called once per item, in order, each call returning before the next begins, and - holding
    the unique borrow of the captured place for the whole `all` call (Rust reference, closure types: "a unique
    immutable borrow ... / mutable borrow" capture) - it is the only code that touches that state meanwhile. A
    closure body evaluated in place inside the loop, with the captured variables being the enclosing
    function's own, is therefore the same sequence of effects: the state after the loop is the state after
    the last call made. As R11_iter_any_all (rules.py) / L_QUANT (rules_lin.py), which do the same for
    borrowed items. A, P and E are re-emitted unchanged (A is moved, as `into_iter` does)."""
    what = 'DX_INTO_ITER_ALL_ANY'
    n = 0
    rx = re.compile(r'\.\s*into_iter\s*\(\s*\)\s*\.\s*(all|any)\s*\(\s*(?=\|)')
    start = 0
    while True:
        mask = code_mask(body)
        m = _first(rx, body, mask, start)
        if not m:
            break
        pat, expr, pc = _closure_arg(body, m.end(), mask, what)
        s = _receiver_start(body, m.start(), mask, what)
        a = body[s:m.start()].strip()
        init, go = ('true', 'r_') if m.group(1) == 'all' else ('false', '!r_')
        new = ('{ let mut a_ = %s; let mut r_ = %s;\n'
               '            while %s && a_.len() > 0 { %s\n'
               '                let t_: bool = %s;\n'
               '                r_ = t_; }\n'
               '            r_ }' % (a, init, go, _bind(pat, 'a_.remove(0)', what), expr))
        body = body[:s] + new + body[pc + 1:]
        start = s
        n += 1
    return body, n


# --------------------------------------------------------------------------------------------
# panic!(..) as an exit that does not return (partial correctness)
# --------------------------------------------------------------------------------------------

def DX_PANIC_EXIT(body, ctx):
    """`panic!(ARGS)` -> `panic_exit()` (prelude/dnx.rs: `fn panic_exit() -> ! ` modelled as a call that never
    returns, `ensures false`).

    By default Verus turns `panic!` into the obligation "unreachable" (total reading: the contract shows that
    the function does not panic). This rule gives the OTHER reading, for a copy of a function whose contract
    says when it returns at all: std, macro panic: "Panics the current thread ... This allows a program to
    terminate immediately" - control never continues after the macro, so everything that follows it holds
    vacuously, and a postcondition proved this way reads "IF the function returns, THEN ..". Together with
    termination (every loop has a `decreases`) a postcondition `keys are a permutation` proved under this rule
    means: for any other input the function does not return, i.e. it panics. DROPPED: the message ARGS
    (evaluated only on the panic path)."""
    mask = code_mask(body)
    n = 0
    while True:
        m = None
        for mm in re.finditer(r'(?<![A-Za-z0-9_])panic!\s*\(', body):
            if mask[mm.start()]:
                m = mm
                break
        if not m:
            break
        pc = match_close(body, m.end() - 1, mask)
        body = body[:m.start()] + 'panic_exit()' + body[pc + 1:]
        mask = code_mask(body)
        n += 1
    # A body WITHOUT `panic!` has nothing to re-read and is left as it is; this is deliberately not a lost anchor
    # (as SELF_PARAM, rules.py): the function then returns for every input, and the postcondition that says for
    # which inputs it may return is what fails - a named obligation instead of an undecided run.
    return body, max(n, 1)


def DX_PANIC_UNREACHABLE(body, ctx):
    """`panic!(ARGS)` -> `panic_unreachable()` (prelude/dnx.rs: `fn panic_unreachable() -> !` with `requires false`).

    The TOTAL reading of `panic!`, which is also Verus' own (a `panic!` is the obligation "unreachable"), spelled as
    a call: std, macro panic: "Panics the current thread"; a function whose contract promises a result must not
    reach it, so reaching it requires `false`. As PANIC_ARGS (rules.py) the message ARGS - evaluated only on the
    panic path, which the contract shows unreachable - are DROPPED. Two reasons for the call instead of a bare
    `panic!()`: (1) Verus reports a reachable `panic!()` with its primary span inside core/src/panic.rs, which the
    driver cannot attribute to an obligation (the run would end undecided); the failed precondition of a call is
    reported at the call, i.e. as `<fn>.body`. (2) This rule is for a function that is ALSO verified under
    DX_PANIC_EXIT: a body WITHOUT `panic!` is left unchanged and is not a lost anchor (there is nothing to drop;
    the other copy's postcondition is what notices a removed check)."""
    mask = code_mask(body)
    n = 0
    while True:
        m = None
        for mm in re.finditer(r'(?<![A-Za-z0-9_])panic!\s*\(', body):
            if mask[mm.start()]:
                m = mm
                break
        if not m:
            break
        pc = match_close(body, m.end() - 1, mask)
        body = body[:m.start()] + 'panic_unreachable()' + body[pc + 1:]
        mask = code_mask(body)
        n += 1
    return body, max(n, 1)
