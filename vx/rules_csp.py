"""Desugaring rules of unit CSP (the prologue of the checkers' `spawn`: bfs.rs / dfs.rs / on_demand.rs).

Same conventions as rules.py / rules_closure.py: every rule is a generic syntactic idiom with captures, captured
sub-expressions are re-emitted unchanged (an edit inside them still reaches the verifier), `RULE(body, ctx) ->
(new_body, times_fired)`, a rule listed for a function that fires 0 times is a lost anchor (undecided), and a rule
that meets its idiom in a shape it does not cover raises LostAnchor rather than guess.  Prelude: vx/prelude/csp.rs.

  C_INTO_ITER_FILTER_COLLECT_VEC      A.into_iter()[.filter(|P| COND)].collect()      (A a Vec, collected into a Vec)
  C_INTO_ITER_MAP_COLLECT_VECDEQUE    A.into_iter().map(|P| E).collect()              (A a Vec, collected into a VecDeque)
  ARC_NEW                             Arc::new(E)  ->  E                              (dropped: the sharing)
  R7_NEW                              AtomicUsize::new(E) -> Counter::new(E);  let X = DashMap::default(); ->
                                      let mut X = SeqMap::new();  (DashSet -> SeqSet)  (A-SEQ, the constructor side of R7)
"""
import re

from extract import LostAnchor, code_mask, match_close
from rules import IDENT
from rules_closure import _closure_arg, _first, _receiver_start


def _into_iter_adapter_collect(body, what, adapter, build):
    """`A.into_iter().ADAPTER(|P| X).collect()` -> build(A, P, X)."""
    n = 0
    rx = re.compile(r'\.\s*into_iter\s*\(\s*\)\s*\.\s*' + adapter + r'\s*\(\s*(?=\|)')
    start = 0
    while True:
        mask = code_mask(body)
        m = _first(rx, body, mask, start)
        if not m:
            break
        pat, expr, pc = _closure_arg(body, m.end(), mask, what)
        mc = re.match(r'\s*\.\s*collect\s*\(\s*\)', body[pc + 1:])
        if not mc:
            start = m.end()     # the adapter feeds another adapter: not this rule's idiom
            continue
        if not re.fullmatch(IDENT, pat):
            raise LostAnchor('%s: closure parameter `%s` is not a plain identifier' % (what, pat))
        s = _receiver_start(body, m.start(), mask, what)
        a = body[s:m.start()].strip()
        body = body[:s] + build(a, pat, expr) + body[pc + 1 + mc.end():]
        start = s
        n += 1
    return body, n


def C_INTO_ITER_FILTER_COLLECT_VEC(body, ctx):
    """`A.into_iter()[.filter(|P| COND)].collect()` with A a `Vec`, collected into a `Vec` (the `filter` link is optional,
    so that an edit that removes it stays decidable) ->
    `{ let mut a_ = A; let mut out_ = Vec::new();
       while a_.len() > 0 { let x_ = a_.remove(0); [let keep_ = { let P = &x_; COND }; if keep_] { out_.push(x_); } }
       out_ }`
    std: `Vec::into_iter` "Creates a consuming iterator, that is, one that moves each value out of the vector (from
    start to end)"; Iterator::filter "Creates an iterator which uses a closure to determine if an element should be
    yielded. Given an element the closure must return true or false. The returned iterator will yield only the
    elements for which the closure returns true" - the closure "takes a reference" to the element, hence `let P = &x_`;
    `Vec: FromIterator` keeps the order of the iterator.  `a_.remove(0)` ("Removes and returns the element at position
    index within the vector, shifting all elements after it to the left") is the front-to-back move; the closure is
    called once per element, in order, as in the lazy chain driven by `collect`.  A, P and COND are re-emitted
    unchanged; A is moved, as `into_iter` does.  If A is not a `Vec` or the result is another collection the output
    does not type-check (undecided).  `into_iter()` followed by any other adapter is not this rule's idiom."""
    what = 'C_INTO_ITER_FILTER_COLLECT_VEC'
    n = 0
    rx = re.compile(r'\.\s*into_iter\s*\(\s*\)\s*(?=\.\s*(filter\s*\(\s*\||collect\s*\(\s*\)))')
    start = 0
    while True:
        mask = code_mask(body)
        m = _first(rx, body, mask, start)
        if not m:
            break
        mf = re.match(r'\.\s*filter\s*\(\s*(?=\|)', body[m.end():])
        if mf:
            pat, cond, pc = _closure_arg(body, m.end() + mf.end(), mask, what)
            if not re.fullmatch(IDENT, pat):
                raise LostAnchor('%s: closure parameter `%s` is not a plain identifier' % (what, pat))
            after = pc + 1
            test = ('                let keep_ = { let %s = &x_; %s };\n'
                    '                if keep_ { out_.push(x_); } }\n' % (pat, cond))
        else:
            after = m.end()
            test = '                { out_.push(x_); } }\n'
        mc = re.match(r'\s*\.\s*collect\s*\(\s*\)', body[after:])
        if not mc:
            start = m.end()     # `filter(..)` feeding another adapter: not this rule's idiom
            continue
        s = _receiver_start(body, m.start(), mask, what)
        a = body[s:m.start()].strip()
        new = ('{ let mut a_ = %s; let mut out_ = Vec::new();\n'
               '            while a_.len() > 0 { let x_ = a_.remove(0);\n' % a) + test + '            out_ }'
        body = body[:s] + new + body[after + mc.end():]
        start = s
        n += 1
    return body, n


def C_INTO_ITER_MAP_COLLECT_VECDEQUE(body, ctx):
    """`A.into_iter().map(|P| E).collect()` with A a `Vec`, collected into a `VecDeque` ->
    `{ let mut a_ = A; let mut out_ = VecDeque::new();
       while a_.len() > 0 { let P = a_.remove(0); let e_ = E; out_.push_back(e_); }
       out_ }`
    std: `Vec::into_iter` moves the elements out "from start to end"; Iterator::map "Takes a closure and creates an
    iterator which calls that closure on each element"; `VecDeque: FromIterator` keeps the order of the iterator
    (`push_back` "Appends an element to the back of the deque").  Otherwise as C_INTO_ITER_FILTER_COLLECT_VEC.
    A, P and E are re-emitted unchanged (E may be a block)."""
    def build(a, pat, expr):
        return ('{ let mut a_ = %s; let mut out_ = VecDeque::new();\n'
                '            while a_.len() > 0 { let %s = a_.remove(0);\n'
                '                let e_ = %s;\n'
                '                out_.push_back(e_); }\n'
                '            out_ }' % (a, pat, expr))
    return _into_iter_adapter_collect(body, 'C_INTO_ITER_MAP_COLLECT_VECDEQUE', 'map', build)


def ARC_NEW(body, ctx):
    """`Arc::new(E)` -> `(E)`.  Dropped: the reference-counted sharing (std: "Constructs a new Arc<T>"; `Arc<T>`
    "automatically dereferences to T (via the Deref trait), so you can call T's methods on a value of type Arc<T>"):
    every method call on the value reads the same with and without the wrapper.  E is re-emitted unchanged.  A use of
    the value AS an Arc (`Arc::clone(&X)`) inside the verified text does not type-check afterwards (undecided)."""
    n = 0
    rx = re.compile(r'(?<![A-Za-z0-9_:])Arc\s*::\s*new\s*\(')
    while True:
        mask = code_mask(body)
        m = _first(rx, body, mask)
        if not m:
            break
        po = m.end() - 1
        pc = match_close(body, po, mask)
        inner = body[po + 1:pc]
        if not inner.strip():
            raise LostAnchor('ARC_NEW: `Arc::new()` without an argument')
        body = body[:m.start()] + '(' + inner + ')' + body[pc + 1:]
        n += 1
    return body, n


def R7_NEW(body, ctx):
    """A-SEQ, the constructor side of rule R7 (which turns `&DashMap` / `&DashSet` / `&AtomicUsize` parameters into the
    sequential stand-ins of prelude/model.rs):
      `AtomicUsize::new(E)`         -> `Counter::new(E)`                 (std: "Creates a new atomic integer.")
      `let X = DashMap::default();` -> `let mut X = SeqMap::new();`      (dashmap `impl Default`: an empty map)
      `let X = DashSet::default();` -> `let mut X = SeqSet::new();`      (dashmap `impl Default`: an empty set)
    `mut`: the real collections are mutated through `&self` (interior mutability), the stand-ins through `&mut self`.
    E and X are re-emitted unchanged.  A `DashMap::default()` that is not the whole initialiser of a `let` is left alone
    (and then does not type-check: undecided)."""
    n = 0
    rx = re.compile(r'(?<![A-Za-z0-9_:])AtomicUsize\s*::\s*new\s*\(')
    while True:
        mask = code_mask(body)
        m = _first(rx, body, mask)
        if not m:
            break
        body = body[:m.start()] + 'Counter::new(' + body[m.end():]
        n += 1
    rx = re.compile(r'(?<![A-Za-z0-9_])let\s+(mut\s+)?(%s)\s*=\s*Dash(Map|Set)\s*::\s*default\s*\(\s*\)\s*;' % IDENT)
    while True:
        mask = code_mask(body)
        m = _first(rx, body, mask)
        if not m:
            break
        body = body[:m.start()] + 'let mut %s = Seq%s::new();' % (m.group(2), m.group(3)) + body[m.end():]
        n += 1
    return body, n
