"""Generic desugaring rules of the VX extractor (DESIGN.md 3.2).

Every rule is a syntactic idiom with captures. Captured sub-expressions are re-emitted unchanged,
so an edit inside a captured expression still reaches the verifier. Each rule returns
(new_body, number_of_times_it_fired); a rule listed for a function that fires 0 times is a lost
anchor (undecided), never a violation.
"""
import re

from extract import LostAnchor, code_mask, find_top, match_close

IDENT = r'[A-Za-z_][A-Za-z0-9_]*'


def _ident_replace(text, old, new):
    """Replace identifier token `old` by `new` in code (not in strings/comments)."""
    mask = code_mask(text)
    out, pos, n = [], 0, 0
    for m in re.finditer(r'(?<![A-Za-z0-9_])' + re.escape(old) + r'(?![A-Za-z0-9_])', text):
        if not mask[m.start()]:
            continue
        out.append(text[pos:m.start()])
        out.append(new)
        pos = m.end()
        n += 1
    out.append(text[pos:])
    return ''.join(out), n


def drop_logging(body, fired):
    """Dropped: `log::trace!(..);` / `trace!(..);` / debug / info / warn statements (no effect on values)."""
    mask = code_mask(body)
    rx = re.compile(r'(?<![A-Za-z0-9_:])(?:log::)?(trace|debug|info|warn)!\s*\(')
    out, pos, n = [], 0, 0
    for m in rx.finditer(body):
        if not mask[m.start()] or m.start() < pos:
            continue
        po = m.end() - 1
        pc = match_close(body, po, mask)
        k = pc + 1
        while k < len(body) and body[k] in ' \t':
            k += 1
        if k < len(body) and body[k] == ';':
            out.append(body[pos:m.start()])
            pos = k + 1
            n += 1
    out.append(body[pos:])
    if n:
        fired['drop-log'] = fired.get('drop-log', 0) + n
    return ''.join(out)


_PURE_TOKEN = re.compile(r"\s+|[A-Za-z_][A-Za-z0-9_]*(?:\s*(?:::|\.)\s*[A-Za-z_0-9][A-Za-z0-9_]*)*(?!\s*[(!\[{])|\d[A-Za-z0-9_]*|&&|\|\||==|!=|<=|>=|[!<>()*&]")


def _is_pure_expr(e):
    """True for an expression made only of identifiers / paths / field accesses, integer and bool literals, `!`,
    comparisons, `&&`, `||`, `*` / `&` (deref / borrow) and parentheses: no call, macro, index, block or `?`, so evaluating
    it has no effect and cannot diverge."""
    pos = 0
    while pos < len(e):
        m = _PURE_TOKEN.match(e, pos)
        if not m or m.end() == pos:
            return False
        pos = m.end()
    return e.strip() != '' and e.count('(') == e.count(')')


def norm_bool_op_assign(body, fired):
    """Always on (fires 0 or more times): `X |= E;` -> `X = X || (E);` and `X &= E;` -> `X = X && (E);` where X is a local the
    body declares as a bool (`let mut X = true|false;` or `let mut X: bool`) and E is pure (`_is_pure_expr`).
    Rust reference, "Boolean type": `a | b` is logical or, `a & b` logical and; "Lazy boolean operators": `||` / `&&`
    "differ from | and & in that the right operand is only evaluated when the left operand does not already determine the
    result" - with a right operand whose evaluation has no effect the two are the same function.  Verus has no
    non-short-circuit bool operators.  X and E are re-emitted unchanged; anything else is left alone (and is then the
    verifier's business: undecided)."""
    mask = code_mask(body)
    bools = set()
    for m in re.finditer(r'(?<![A-Za-z0-9_])let\s+mut\s+(%s)\s*(?:=\s*(?:true|false)\s*;|:\s*bool\b)' % IDENT, body):
        if mask[m.start()]:
            bools.add(m.group(1))
    if not bools:
        return body
    out, pos, n = [], 0, 0
    for m in re.finditer(r'(?<![A-Za-z0-9_.])(%s)\s*([|&])=(?!=)' % IDENT, body):
        if not mask[m.start()] or m.start() < pos or m.group(1) not in bools:
            continue
        sm = find_top(body, r';', m.end(), mask)
        if not sm:
            continue
        e = body[m.end():sm.start()].strip()
        if not _is_pure_expr(e):
            continue
        out.append(body[pos:m.start()])
        out.append('%s = %s %s (%s);' % (m.group(1), m.group(1), '||' if m.group(2) == '|' else '&&', e))
        pos = sm.end()
        n += 1
    out.append(body[pos:])
    if n:
        fired['norm-bool-op-assign'] = fired.get('norm-bool-op-assign', 0) + n
    return ''.join(out)


def R1(body, ctx):
    """`fn f(mut self, ..) { B }` -> `fn f(self, ..) { let mut self_ = self; B[self -> self_] }`"""
    p = ctx['params']
    m = re.match(r'\s*mut\s+self\b', p)
    if not m:
        return body, 0
    ctx['params'] = 'self' + p[m.end():]
    new, _ = _ident_replace(body, 'self', 'self_')
    return '\n        let mut self_ = self;' + new, 1


def R4(body, ctx):
    """`for (I, X) in V.iter_mut().enumerate() { B }` with the only use of X being `*X = E;`
    -> `let n_ = V.len(); for I in 0..n_ { B[*X = E; -> V.set(I, E);] }`"""
    mask = code_mask(body)
    rx = re.compile(r'for\s*\(\s*(%s)\s*,\s*(%s)\s*\)\s*in\s+(%s(?:\.%s)*)\.iter_mut\(\)\.enumerate\(\)\s*\{' % (IDENT, IDENT, IDENT, IDENT))
    n = 0
    while True:
        m = None
        for mm in rx.finditer(body):
            if mask[mm.start()]:
                m = mm
                break
        if not m:
            break
        i, x, v = m.group(1), m.group(2), m.group(3)
        ob = m.end() - 1
        cb = match_close(body, ob, mask)
        inner = body[ob + 1:cb]
        # every use of X must be `*X = E;`
        asg = re.compile(r'\*\s*' + re.escape(x) + r'\s*=(?!=)')
        uses = len(re.findall(r'(?<![A-Za-z0-9_])' + re.escape(x) + r'(?![A-Za-z0-9_])', inner))
        parts, pos, cnt = [], 0, 0
        for am in asg.finditer(inner):
            sm = find_top(inner, r';', am.end())
            if not sm:
                raise LostAnchor('R4: assignment without `;`')
            expr = inner[am.end():sm.start()].strip()
            parts.append(inner[pos:am.start()])
            parts.append('%s.set(%s, %s);' % (v, i, expr))
            pos = sm.end()
            cnt += 1
        parts.append(inner[pos:])
        if cnt == 0 or cnt != uses:
            raise LostAnchor('R4: element binding `%s` used other than as `*%s = E;`' % (x, x))
        new_inner = ''.join(parts)
        body = (body[:m.start()] + 'let n_ = %s.len();\n        for %s in 0..n_ {' % (v, i) + new_inner + body[cb:])
        mask = code_mask(body)
        n += 1
    return body, n


def SELF_PARAM(body, ctx):
    """A method of an impl on a foreign type (`impl SequentialSpec for Vec<T>`) is verified as a free
    function whose first parameter `self_` replaces `self`; every `self` token in the body is renamed.
    The replacement signature is given by the sidecar (`sig:`) and is checked against the real one
    only in its parameter names and types (the real signature is kept in the evidence)."""
    new, n = _ident_replace(body, 'self', 'self_')
    return new, max(n, 1)


def _closure_at(body, start, mask):
    """body[start] == '|': parse `|IDENT| EXPR` up to the `)` that closes the enclosing call.
    Returns (ident, expr_text, index_of_closing_paren)."""
    m = re.match(r'\|\s*(%s)\s*\|' % IDENT, body[start:])
    if not m:
        raise LostAnchor('closure with a non-identifier pattern')
    # the enclosing `(` is the char before `start` (modulo spaces)
    k = start - 1
    while k >= 0 and body[k] in ' \t\n':
        k -= 1
    if body[k] != '(':
        raise LostAnchor('closure is not a call argument')
    pc = match_close(body, k, mask)
    return m.group(1), body[start + m.end():pc].strip(), pc


def R11_iter_any_all(body, ctx):
    """`X.iter().filter(|A| F).any(|B| G)`, `.. .all(|B| G)`, `X.iter().any(|B| G)`, `X.iter().all(|B| G)`
    -> an explicit short-circuiting index loop over `iter_seq(X)` (prelude trait IterSeq: the
    elements in iteration order), which is what the std adapters are documented to do:
    { let it_ = iter_seq(X); let mut r_ = INIT; let mut i_ = 0;
      while i_ < it_.len() { let A = &it_[i_]; let f_ = F; let B = it_[i_]; i_ += 1; if f_ { if [!]G { r_ = !INIT; break; } } } r_ }
    X, F and G are re-emitted unchanged."""
    n = 0
    rx = re.compile(r'\.iter\(\)\s*(\.filter\(\s*)?')
    while True:
        mask = code_mask(body)
        hit = None
        for m in rx.finditer(body):
            if not mask[m.start()]:
                continue
            pos = m.end()
            filt = None
            if m.group(1):
                a, f, pc = _closure_at(body, pos, mask)
                filt = (a, f)
                pos = pc + 1
            m2 = re.match(r'\s*\.(any|all)\(\s*', body[pos:])
            if not m2:
                continue
            b, g, pc2 = _closure_at(body, pos + m2.end(), mask)
            # receiver: scan back from m.start() over a postfix expression (identifiers, `.`, calls, indexes)
            k = m.start()
            while k > 0 and body[k - 1] in ' \t\n':
                k -= 1
            recv_end = k
            while k > 0:
                c = body[k - 1]
                if c.isalnum() or c in '_.':
                    k -= 1
                elif c in ')]':
                    # find matching open
                    depth, j = 0, k - 1
                    while j >= 0:
                        if mask[j] and body[j] in ')]':
                            depth += 1
                        elif mask[j] and body[j] in '([':
                            depth -= 1
                            if depth == 0:
                                break
                        j -= 1
                    k = j
                else:
                    break
            recv = body[k:recv_end].strip()
            if not recv:
                continue
            hit = (k, pc2 + 1, recv, filt, m2.group(1), b, g)
            break
        if not hit:
            break
        k, end, recv, filt, kind, b, g = hit
        init = 'false' if kind == 'any' else 'true'
        cond = g if kind == 'any' else '!(%s)' % g
        inner = 'if %s { r_ = %s; break; }' % (cond, 'true' if kind == 'any' else 'false')
        binds = 'let %s = it_[i_];' % b
        if filt:
            # the filter closure sees `&&T`, the consumer closure `&T`; the filter test is evaluated
            # before the consumer's binding (the two closures may use the same parameter name)
            binds = 'let %s = &it_[i_]; let f_ = %s; ' % filt + binds
            inner = 'if f_ { %s }' % inner
        loop = ('{ let it_ = iter_seq(%s); let mut r_ = %s; let mut i_: usize = 0;\n'
                '            while i_ < it_.len() { %s i_ += 1; %s }\n            r_ }' % (recv, init, binds, inner))
        body = body[:k] + loop + body[end:]
        n += 1
    return body, n


def R2(body, ctx):
    """`for P in A..B { body }` (a range loop, needed where the body contains `continue`, which Verus
    rejects inside `for`) -> `{ let mut i_ = A; let end_ = B; while i_ < end_ { let P = i_; i_ += 1; body } }`.
    A, B, P and the body are re-emitted unchanged; `continue` then re-tests `i_ < end_`, exactly as
    the range iterator would."""
    n = 0
    rx = re.compile(r'(?<![A-Za-z0-9_.])for\s+(%s|_)\s+in\s+' % IDENT)
    while True:
        mask = code_mask(body)
        hit = None
        for m in rx.finditer(body):
            if not mask[m.start()]:
                continue
            mo = find_top(body, r'\{', m.end(), mask)
            if not mo:
                continue
            head = body[m.end():mo.start()]
            mr = find_top(head, r'\.\.(?!=)')
            if not mr:
                continue
            a, b = head[:mr.start()].strip(), head[mr.end():].strip()
            if not a or not b:
                continue
            ob = mo.start()
            cb = match_close(body, ob, mask)
            hit = (m.start(), ob, cb, m.group(1), a, b)
            break
        if not hit:
            break
        s, ob, cb, pat, a, b = hit
        new = ('{ let mut i_ = %s; let end_ = %s;\n        while i_ < end_ {\n            let %s = i_; i_ += 1;' % (a, b, pat)
               + body[ob + 1:cb] + '} }')
        body = body[:s] + new + body[cb + 1:]
        n += 1
    return body, n


def R8(body, ctx):
    """Critical sections of the job market (assumption A-LOCK: the parking_lot mutex gives mutual
    exclusion): `let [mut] G = self.market.lock();` is removed and `G` becomes the `&mut JobMarket`
    parameter replacing `self`; `self.has_new_jobs.notify_one()/notify_all();` are dropped (wake-ups
    are not modelled); `self.has_new_jobs.wait(&mut G);` -> `lock_released_and_reacquired(G);`
    (prelude: the market may have been changed arbitrarily by other threads)."""
    mask = code_mask(body)
    m = re.search(r'let\s+(mut\s+)?(%s)\s*=\s*self\.market\.lock\(\)\s*;' % IDENT, body)
    if not m or not mask[m.start()]:
        return body, 0
    g = m.group(2)
    body = body[:m.start()] + body[m.end():]
    n = 1
    body, k = re.subn(r'self\.has_new_jobs\.notify_(one|all)\(\)\s*;', '', body)
    n += k
    body, k = re.subn(r'self\.has_new_jobs\.wait\(\s*&mut\s+%s\s*\)\s*;' % re.escape(g), 'lock_released_and_reacquired(%s);' % g, body)
    n += k
    if re.search(r'(?<![A-Za-z0-9_])self(?![A-Za-z0-9_])', body):
        raise LostAnchor('R8: `self` still used after removing the lock / condvar calls')
    p = ctx['params']
    mp = re.match(r'\s*&\s*(mut\s+)?self\b', p)
    if not mp:
        raise LostAnchor('R8: no self receiver')
    ctx['params'] = '%s: &mut JobMarket<Job>' % g + p[mp.end():]
    if '<' not in ctx['head']:
        ctx['head'] += '<Job>'  # the method of `impl<Job> JobBroker<Job>` becomes a free function
    return body, n


def R5(body, ctx):
    """`E.hash(S);` -> `feed(&E, S);` (prelude: the hasher's ghost stream grows by `enc(E)`).
    E and S are re-emitted unchanged."""
    mask = code_mask(body)
    out, pos, n = [], 0, 0
    for m in re.finditer(r'\.hash\(\s*', body):
        if not mask[m.start()] or m.start() < pos:
            continue
        po = m.end() - 1
        while body[po] != '(':
            po -= 1
        pc = match_close(body, po, mask)
        arg = body[po + 1:pc].strip()
        # receiver: back to the start of the statement
        k = m.start()
        while k > pos and body[k - 1] not in ';{}':
            k -= 1
        recv = body[k:m.start()].strip()
        j = pc + 1
        while j < len(body) and body[j] in ' \t\n':
            j += 1
        if not recv or j >= len(body) or body[j] != ';':
            raise LostAnchor('R5: `.hash(..)` is not a statement of the form `E.hash(S);`')
        out.append(body[pos:k])
        out.append(' feed(&%s, %s);' % (recv, arg))
        pos = j + 1
        n += 1
    out.append(body[pos:])
    return ''.join(out), n


def R5_eq(body, ctx):
    """`A.eq(&B)` -> `field_eq(&A, &B)`; `A.eq(B)` (both already references, e.g. slices) -> `ref_eq(A, B)`
    (prelude: structural equality of the two values, A-EQ). A and B are re-emitted unchanged."""
    mask = code_mask(body)
    n = 0
    while True:
        m = None
        for mm in re.finditer(r'\.eq\(', body):
            if mask[mm.start()]:
                m = mm
                break
        if not m:
            break
        po = body.index('(', m.start())
        pc = match_close(body, po, mask)
        arg = body[po + 1:pc].strip()
        # receiver: a postfix expression (identifiers, `.`, calls) ending at m.start()
        k = m.start()
        while k > 0:
            c = body[k - 1]
            if c.isalnum() or c in '_.':
                k -= 1
            elif c == ')':
                depth, j = 0, k - 1
                while j >= 0:
                    if mask[j] and body[j] == ')':
                        depth += 1
                    elif mask[j] and body[j] == '(':
                        depth -= 1
                        if depth == 0:
                            break
                    j -= 1
                k = j
            else:
                break
        recv = body[k:m.start()]
        if not recv:
            raise LostAnchor('R5_eq: no receiver')
        if arg.startswith('&'):
            rep = 'field_eq(&%s, &%s)' % (recv, arg[1:].strip())
        else:
            rep = 'ref_eq(%s, %s)' % (recv, arg)
        body = body[:k] + rep + body[pc + 1:]
        mask = code_mask(body)
        n += 1
    return body, n


def ASSERT_MACRO(body, ctx):
    """`assert!(C, "fmt", args..);` / `assert!(C);` -> `if !(C) { panic!(); }` (what the macro expands to;
    the message is dropped - message arguments are evaluated only on the panic path)."""
    mask = code_mask(body)
    n = 0
    while True:
        m = None
        for mm in re.finditer(r'(?<![A-Za-z0-9_])assert!\s*\(', body):
            if mask[mm.start()]:
                m = mm
                break
        if not m:
            break
        po = m.end() - 1
        pc = match_close(body, po, mask)
        inner = body[po + 1:pc]
        mc = find_top(inner, r',')
        cond = inner[:mc.start()] if mc else inner
        k = pc + 1
        while k < len(body) and body[k] in ' \t\n':
            k += 1
        if k < len(body) and body[k] == ';':
            k += 1
        body = body[:m.start()] + 'if !(%s) { panic!(); }' % cond.strip() + body[k:]
        mask = code_mask(body)
        n += 1
    return body, n


def PANIC_ARGS(body, ctx):
    """`panic!("fmt", args..)` -> `panic!()`: the message and its arguments (evaluated only on the panic
    path, which the contract shows unreachable) are dropped."""
    mask = code_mask(body)
    n = 0
    pos = 0
    while True:
        m = None
        for mm in re.finditer(r'(?<![A-Za-z0-9_])panic!\s*\(', body):
            if mask[mm.start()] and mm.start() >= pos:
                m = mm
                break
        if not m:
            break
        po = m.end() - 1
        pc = match_close(body, po, mask)
        if body[po + 1:pc].strip():
            body = body[:po + 1] + body[pc:]
            mask = code_mask(body)
            n += 1
        pos = m.end()
    return body, n


def C_POSITION(body, ctx):
    """`X.iter().position(|P| COND)` ->
    `{ let mut j_: usize = 0; let mut r_: Option<usize> = None;
       while j_ < X.len() { let P = &X[j_]; if COND { r_ = Some(j_); break; } j_ += 1; } r_ }`

    The forward sibling of C_RPOSITION (rules_closure.py), with the same names for the cursor (`j_`) and the
    result (`r_`).  std, Iterator::position: "Searches for an element in an iterator, returning its index.
    position() takes a closure that returns true or false. It applies this closure to each element of the
    iterator, and if one of them returns true, then position() returns Some(index). If all of them return
    false, it returns None. position() is short-circuiting; in other words, it will stop processing as soon as
    it finds a true."; slice::iter yields `&X[0]`, .., `&X[len-1]`, so the closure parameter is bound to
    `&X[j_]` and the index is the slice index.
    X must be a place expression (it is evaluated more than once); X, P and COND are re-emitted unchanged."""
    from rules_closure import _closure_arg, _first, _is_place, _receiver_start
    n = 0
    rx = re.compile(r'\.\s*iter\s*\(\s*\)\s*\.\s*position\s*\(\s*(?=\|)')
    while True:
        mask = code_mask(body)
        m = _first(rx, body, mask)
        if not m:
            break
        s = _receiver_start(body, m.start(), mask, 'C_POSITION')
        x = re.sub(r'\s+', '', body[s:m.start()].strip())
        if not _is_place(x):
            raise LostAnchor('C_POSITION: receiver `%s` is not a place expression' % x)
        pat, cond, pc = _closure_arg(body, m.end(), mask, 'C_POSITION')
        new = ('{ let mut j_: usize = 0; let mut r_: Option<usize> = None;\n'
               '            while j_ < %s.len() { let %s = &%s[j_]; if %s { r_ = Some(j_); break; } j_ += 1; }\n'
               '            r_ }' % (x, pat, x, cond))
        body = body[:s] + new + body[pc + 1:]
        n += 1
    return body, n


def C_RETAIN_MAP(body, ctx):
    """`M.retain(|K, V| PRED);`  (M a std map place / call chain, PRED a pure expression that only READS K and V)
    -> `map_retain(&mut M, |K', V'| -> (b_: bool) ensures b_ == (PRED) { PRED });`

    std, HashMap::retain: "Retains only the elements specified by the predicate. In other words, remove all pairs
    (k, v) for which f(&k, &mut v) returns false. The elements are visited in unsorted (and unspecified) order."
    `map_retain` (prelude/retain.rs) is that statement for a predicate that does not modify the value, over the
    closure's own specification; the rule states the closure's specification - its result IS its body - and names
    wildcard parameters (`_` -> `w1_`, `w2_`: Verus closures take variables only).  M, K, V and PRED are re-emitted
    unchanged; a predicate with statements, control flow or a non-variable parameter pattern is a LostAnchor."""
    from rules_closure import _first, _receiver_start
    n = 0
    rx = re.compile(r'\.\s*retain\s*\(\s*(?=\|)')
    while True:
        mask = code_mask(body)
        m = _first(rx, body, mask)
        if not m:
            break
        s = _receiver_start(body, m.start(), mask, 'C_RETAIN_MAP')
        recv = body[s:m.start()].strip()
        po = body.rindex('(', m.start(), m.end())
        pc = match_close(body, po, mask)
        clo = body[po + 1:pc].strip()
        if clo.endswith(','):
            clo = clo[:-1].rstrip()
        bar = find_top(clo, r'\|', 1)
        if not bar:
            raise LostAnchor('C_RETAIN_MAP: closure parameter list not closed')
        params = [p.strip() for p in clo[1:bar.start()].split(',')]
        pred = clo[bar.end():].strip()
        if len(params) != 2:
            raise LostAnchor('C_RETAIN_MAP: the predicate of a map `retain` takes (key, value)')
        names = []
        for k, p in enumerate(params, 1):
            if p == '_':
                names.append('w%d_' % k)
            elif re.fullmatch(IDENT, p):
                names.append(p)
            else:
                raise LostAnchor('C_RETAIN_MAP: closure parameter `%s` is not a variable or `_`' % p)
        if pred.startswith('{') and match_close(pred, 0) == len(pred) - 1:
            pred = pred[1:-1].strip()
        pmask = code_mask(pred)
        for mm in re.finditer(r'(?<![A-Za-z0-9_])(return|break|continue|let|while|loop|for)(?![A-Za-z0-9_])|[;?]|(?<![=!<>+\-*/%&|^])=(?!=)', pred):
            if pmask[mm.start()]:
                raise LostAnchor('C_RETAIN_MAP: predicate is not a pure expression (`%s`)' % mm.group(0))
        k = pc + 1
        while k < len(body) and body[k] in ' \t\r\n':
            k += 1
        if k >= len(body) or body[k] != ';':
            raise LostAnchor('C_RETAIN_MAP: `retain(..)` is not a statement')
        new = 'map_retain(&mut %s, |%s, %s| -> (b_: bool) ensures b_ == (%s) { %s });' % (recv, names[0], names[1], pred, pred)
        body = body[:s] + new + body[k + 1:]
        n += 1
    return body, n
