"""Generic desugaring rules of the VX extractor (DESIGN.md 3.2).

Every rule is a syntactic idiom with captures. Captured sub-expressions are re-emitted unchanged,
so an edit inside a captured expression still reaches the verifier. Each rule returns
(new_body, number_of_times_it_fired); a rule listed for a function that fires 0 times is a lost
anchor (undecided), never a violation.
"""
import re

from extract import LostAnchor, code_mask, find_top, match_close

IDENT = r'[A-Za-z_][A-Za-z0-9_]*'


def _ident_replace(text, old, new):
    """Replace identifier token `old` by `new` in code (not in strings/comments)."""
    mask = code_mask(text)
    out, pos, n = [], 0, 0
    for m in re.finditer(r'(?<![A-Za-z0-9_])' + re.escape(old) + r'(?![A-Za-z0-9_])', text):
        if not mask[m.start()]:
            continue
        out.append(text[pos:m.start()])
        out.append(new)
        pos = m.end()
        n += 1
    out.append(text[pos:])
    return ''.join(out), n


def drop_logging(body, fired):
    """Dropped: `log::trace!(..);` / `trace!(..);` / debug / info / warn statements (no effect on values)."""
    mask = code_mask(body)
    rx = re.compile(r'(?<![A-Za-z0-9_:])(?:log::)?(trace|debug|info|warn)!\s*\(')
    out, pos, n = [], 0, 0
    for m in rx.finditer(body):
        if not mask[m.start()] or m.start() < pos:
            continue
        po = m.end() - 1
        pc = match_close(body, po, mask)
        k = pc + 1
        while k < len(body) and body[k] in ' \t':
            k += 1
        if k < len(body) and body[k] == ';':
            out.append(body[pos:m.start()])
            pos = k + 1
            n += 1
    out.append(body[pos:])
    if n:
        fired['drop-log'] = fired.get('drop-log', 0) + n
    return ''.join(out)


def R1(body, ctx):
    """`fn f(mut self, ..) { B }` -> `fn f(self, ..) { let mut self_ = self; B[self -> self_] }`"""
    p = ctx['params']
    m = re.match(r'\s*mut\s+self\b', p)
    if not m:
        return body, 0
    ctx['params'] = 'self' + p[m.end():]
    new, _ = _ident_replace(body, 'self', 'self_')
    return '\n        let mut self_ = self;' + new, 1


def R4(body, ctx):
    """`for (I, X) in V.iter_mut().enumerate() { B }` with the only use of X being `*X = E;`
    -> `let n_ = V.len(); for I in 0..n_ { B[*X = E; -> V.set(I, E);] }`"""
    mask = code_mask(body)
    rx = re.compile(r'for\s*\(\s*(%s)\s*,\s*(%s)\s*\)\s*in\s+(%s(?:\.%s)*)\.iter_mut\(\)\.enumerate\(\)\s*\{' % (IDENT, IDENT, IDENT, IDENT))
    n = 0
    while True:
        m = None
        for mm in rx.finditer(body):
            if mask[mm.start()]:
                m = mm
                break
        if not m:
            break
        i, x, v = m.group(1), m.group(2), m.group(3)
        ob = m.end() - 1
        cb = match_close(body, ob, mask)
        inner = body[ob + 1:cb]
        # every use of X must be `*X = E;`
        asg = re.compile(r'\*\s*' + re.escape(x) + r'\s*=(?!=)')
        uses = len(re.findall(r'(?<![A-Za-z0-9_])' + re.escape(x) + r'(?![A-Za-z0-9_])', inner))
        parts, pos, cnt = [], 0, 0
        for am in asg.finditer(inner):
            sm = find_top(inner, r';', am.end())
            if not sm:
                raise LostAnchor('R4: assignment without `;`')
            expr = inner[am.end():sm.start()].strip()
            parts.append(inner[pos:am.start()])
            parts.append('%s.set(%s, %s);' % (v, i, expr))
            pos = sm.end()
            cnt += 1
        parts.append(inner[pos:])
        if cnt == 0 or cnt != uses:
            raise LostAnchor('R4: element binding `%s` used other than as `*%s = E;`' % (x, x))
        new_inner = ''.join(parts)
        body = (body[:m.start()] + 'let n_ = %s.len();\n        for %s in 0..n_ {' % (v, i) + new_inner + body[cb:])
        mask = code_mask(body)
        n += 1
    return body, n


def SELF_PARAM(body, ctx):
    """A method of an impl on a foreign type (`impl SequentialSpec for Vec<T>`) is verified as a free
    function whose first parameter `self_` replaces `self`; every `self` token in the body is renamed.
    The replacement signature is given by the sidecar (`sig:`) and is checked against the real one
    only in its parameter names and types (the real signature is kept in the evidence)."""
    new, n = _ident_replace(body, 'self', 'self_')
    return new, max(n, 1)
