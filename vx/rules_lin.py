"""Desugaring rules of the LIN / SC units (consistency testers; DESIGN.md 3.2 rules R10, R11, R13, R14).

Same discipline as rules.py: every rule is a generic syntactic idiom with captures; the captured
sub-expressions (map place M, key K, values, closure bodies, loop bodies, format arguments) are
re-emitted unchanged, so an edit inside them still reaches the verifier. A rule returns
(new_body, times_fired) and raises LostAnchor (run undecided) when it meets its idiom in a shape it
does not cover. Names introduced by the rules end in `_` (`ks_`, `i_`, `out_`, `acc_`, `v_`).

What each rule trusts (std documentation):
  L_ERRSTR  the text of an error message is not observable by any property: `format!(..)` and
            `"..".to_string()` in `Err(..)` position yield an arbitrary `String`; the format
            ARGUMENTS are still evaluated (by reference, as `format!` does), in order.
  L_ENTRY   `M.entry(K)` is `Entry::Occupied` iff `M.contains_key(&K)`; `OccupiedEntry::get()` is the
            value stored under K; `Entry::or_insert(V)` "ensures a value is in the entry by inserting
            the default if empty".
  L_ORDEF   `Entry::or_default()` "ensures a value is in the entry by inserting the default value if
            empty, and returns a mutable reference to the value in the entry".
  L_FOR / L_QUANT / L_FMAP / L_MAPC
            `BTreeMap::iter` "gets an iterator over the entries of the map, sorted by key": every
            entry exactly once (prelude `btree_keys_vec`); `Iterator::all/any` are short-circuiting
            folds of `&&` / `||`; `filter_map(f).collect::<BTreeMap>()` inserts every `Some((k, v))`
            that `f` yields, in iteration order; `map(f).collect()` inserts every `f(entry)`.
  L_ENUM    `X.into_iter().enumerate().collect()` on a `VecDeque` pairs every element with its
            position, front to back (prelude `deque_enumerate`).
  L_COW     `Cow::Borrowed(X)` .. `C.to_mut()`: `to_mut` "clones the data if it is not already owned";
            a `Cow` that is cloned at its creation instead has the same value at every later read
            (only the allocation moment differs); `&C` / `C.method()` deref to the same collection;
            `C.to_mut()` outside receiver position is `&mut C`.
  N_OKORELSE (normalisation, `norm:`) `let P = X.ok_or_else(|| E)?;` is the `match X { Some(v) => v, None => return
            Err(E) }` the contracts were written against (`Option::ok_or_else`, the `?` operator; see the rule).
"""
import re

from extract import LostAnchor, code_mask, find_top, match_close
from rules import IDENT

PLACE = r'%s(?:\s*\.\s*%s)*' % (IDENT, IDENT)           # a place expression `a.b.c`
PATHPFX = r'(?:%s\s*::\s*)*' % IDENT                    # `btree_map::Entry::` / `Entry::` / ``
WS = ' \t\r\n'


def _skip_ws(text, k):
    while k < len(text) and text[k] in WS:
        k += 1
    return k


def _first(rx, text, mask, start=0):
    for m in rx.finditer(text, start):
        if mask[m.start()]:
            return m
    return None


def _ident_uses(text, name):
    mask = code_mask(text)
    return [m for m in re.finditer(r'(?<![A-Za-z0-9_])' + re.escape(name) + r'(?![A-Za-z0-9_])', text) if mask[m.start()]]


def _split_args(text):
    """split `a, b(c, d), e` at top-level commas"""
    mask = code_mask(text)
    out, depth, pos = [], 0, 0
    for k, c in enumerate(text):
        if not mask[k]:
            continue
        if c in '([{':
            depth += 1
        elif c in ')]}':
            depth -= 1
        elif c == ',' and depth == 0:
            out.append(text[pos:k])
            pos = k + 1
    out.append(text[pos:])
    return [a.strip() for a in out if a.strip()]


def _norm(place):
    return re.sub(r'\s+', '', place)


def _stmt_start(text, k):
    """True if index k is at the start of a statement (previous code char is `;`, `{` or `}`)."""
    j = k - 1
    while j >= 0 and text[j] in WS:
        j -= 1
    return j < 0 or text[j] in ';{}'


def _closure2(body, k, mask, what):
    """body[k:] is `|(A, B)| EXPR` followed by the `)` of the adapter call whose `(` is at k-1.
    Returns (A, B, EXPR, index_of_closing_paren)."""
    pc = match_close(body, k - 1, mask)
    m = re.match(r'\s*\|\s*\(\s*(%s)\s*,\s*(%s)\s*\)\s*\|' % (IDENT, IDENT), body[k:pc])
    if not m:
        raise LostAnchor('%s: closure is not of the form |(a, b)| ..' % what)
    return m.group(1), m.group(2), body[k + m.end():pc].strip(), pc


def _no_return(expr, what):
    if _ident_uses(expr, 'return') or _ident_uses(expr, 'break') or _ident_uses(expr, 'continue'):
        raise LostAnchor('%s: closure body contains return/break/continue' % what)


# ------------------------------------------------------------------------------------------------

def L_ERRSTR(body, ctx):
    """`Err(format!(F, a1, .., an))` -> `Err({ let _ = &(a1); ..; let _ = &(an); any_string() })`
    `Err("lit".to_string())`      -> `Err(any_string())`"""
    n = 0
    while True:
        mask = code_mask(body)
        m = _first(re.compile(r'(?<![A-Za-z0-9_])Err\s*\(\s*(?=format!|")'), body, mask)
        if not m:
            break
        po = body.index('(', m.start())
        pc = match_close(body, po, mask)
        inner = body[po + 1:pc].strip()
        if inner.startswith('format!'):
            fo = po + 1 + body[po + 1:pc].index('format!') + len('format!')
            fo = _skip_ws(body, fo)
            if body[fo] != '(':
                raise LostAnchor('L_ERRSTR: format! without parentheses')
            fc = match_close(body, fo, mask)
            if body[fc + 1:pc].strip():
                raise LostAnchor('L_ERRSTR: Err(format!(..) <more>)')
            args = _split_args(body[fo + 1:fc])
            if not args or not args[0].startswith('"'):
                raise LostAnchor('L_ERRSTR: format! without a literal format string')
            for a in args[1:]:
                if re.match(r'%s\s*=(?!=)' % IDENT, a):
                    raise LostAnchor('L_ERRSTR: named format argument')
            new = '{ ' + ''.join('let _ = &(%s); ' % a for a in args[1:]) + 'any_string() }'
        else:
            mm = re.match(r'"(?:[^"\\]|\\.)*"\s*\.\s*to_string\s*\(\s*\)$', inner, re.S)
            if not mm:
                raise LostAnchor('L_ERRSTR: Err(<string expression>) of an unknown shape')
            new = 'any_string()'
        body = body[:po + 1] + new + body[pc:]
        n += 1
    return body, n


def L_ENTRY(body, ctx):
    """`let E = M.entry(K);` .. `if let P::Occupied(O) = E { B }` .. `E.or_insert(V);`
    -> (the `let` is dropped)  `if M.contains_key(&K) { B[O.get() -> M.get(&K).unwrap()] }` ..
       `{ let v_ = V; if !M.contains_key(&K) { M.insert(K, v_); } }`
    K must be a plain variable (it is evaluated more than once); every use of E and O must be one of
    the shapes above. The borrow checker guarantees M is not touched while E is live."""
    n = 0
    while True:
        mask = code_mask(body)
        m = _first(re.compile(r'let\s+(%s)\s*=\s*(%s)\s*\.\s*entry\s*\(\s*(%s)\s*\)\s*;' % (IDENT, PLACE, IDENT)), body, mask)
        if not m:
            break
        e, mp, k = m.group(1), _norm(m.group(2)), m.group(3)
        rest = body[m.end():]
        uses_total = len(_ident_uses(rest, e))
        handled = 0
        # the Occupied test
        rmask = code_mask(rest)
        mo = _first(re.compile(r'if\s+let\s+%sOccupied\s*\(\s*(%s)\s*\)\s*=\s*%s\s*\{' % (PATHPFX, IDENT, re.escape(e))), rest, rmask)
        if mo:
            o = mo.group(1)
            ob = mo.end() - 1
            cb = match_close(rest, ob, rmask)
            blk = rest[ob + 1:cb]
            gets = re.compile(r'(?<![A-Za-z0-9_])%s\s*\.\s*get\s*\(\s*\)' % re.escape(o))
            bm = code_mask(blk)
            ng = len([x for x in gets.finditer(blk) if bm[x.start()]])
            if ng != len(_ident_uses(blk, o)):
                raise LostAnchor('L_ENTRY: occupied entry `%s` used other than as `%s.get()`' % (o, o))
            blk = gets.sub('%s.get(&%s).unwrap()' % (mp, k), blk)
            rest = rest[:mo.start()] + 'if %s.contains_key(&%s) {' % (mp, k) + blk + rest[cb:]
            handled += 1
        # or_insert statements
        while True:
            rmask = code_mask(rest)
            mi = _first(re.compile(r'(?<![A-Za-z0-9_.])%s\s*\.\s*or_insert\s*\(' % re.escape(e)), rest, rmask)
            if not mi:
                break
            if not _stmt_start(rest, mi.start()):
                raise LostAnchor('L_ENTRY: value of or_insert is used')
            po = mi.end() - 1
            pc = match_close(rest, po, rmask)
            j = _skip_ws(rest, pc + 1)
            if j >= len(rest) or rest[j] != ';':
                raise LostAnchor('L_ENTRY: value of or_insert is used')
            v = rest[po + 1:pc].strip()
            rest = (rest[:mi.start()] + '{ let v_ = %s; if !%s.contains_key(&%s) { %s.insert(%s, v_); } }' % (v, mp, k, mp, k) + rest[j + 1:])
            handled += 1
        if handled != uses_total or handled == 0:
            raise LostAnchor('L_ENTRY: entry binding `%s` has %d uses, %d understood' % (e, uses_total, handled))
        body = body[:m.start()] + rest
        n += 1
    return body, n


def L_ORDEF(body, ctx):
    """`M.entry(K).or_default();`   -> `if !M.contains_key(&K) { M.insert(K, Default::default()); }`
    `M.entry(K).or_default()` (value used: a `&mut V`)
        -> `({ if !M.contains_key(&K) { M.insert(K, Default::default()); } M.get_mut(&K).unwrap() })`"""
    n = 0
    rx = re.compile(r'(?<![A-Za-z0-9_.])(%s)\s*\.\s*entry\s*\(\s*(%s)\s*\)\s*\.\s*or_default\s*\(\s*\)' % (PLACE, IDENT))
    while True:
        mask = code_mask(body)
        m = _first(rx, body, mask)
        if not m:
            break
        mp, k = _norm(m.group(1)), m.group(2)
        ins = 'if !%s.contains_key(&%s) { %s.insert(%s, Default::default()); }' % (mp, k, mp, k)
        j = _skip_ws(body, m.end())
        if _stmt_start(body, m.start()) and j < len(body) and body[j] == ';':
            body = body[:m.start()] + ins + body[j + 1:]
        else:
            body = body[:m.start()] + '({ %s %s.get_mut(&%s).unwrap() })' % (ins, mp, k) + body[m.end():]
        n += 1
    return body, n


def _keys_loop(mp, a, b, idx, cond_extra=''):
    return ('let ks_ = btree_keys_vec(&%s);\n        let mut %s: usize = 0;\n        while %s < ks_.len()%s {\n'
            '            let %s = &ks_[%s];\n            let %s = %s.get(%s).unwrap();\n            %s += 1;\n'
            % (mp, idx, idx, cond_extra, a, idx, b, mp, a, idx))


def L_FOR(body, ctx):
    """R13: `for (A, B) in M.iter() { BODY }` over a BTreeMap ->
    `let ks_ = btree_keys_vec(&M); let mut i_ = 0; while i_ < ks_.len() { let A = &ks_[i_];
     let B = M.get(A).unwrap(); i_ += 1; BODY }`   (`continue` in BODY keeps its meaning)"""
    n = 0
    rx = re.compile(r'(?<![A-Za-z0-9_.])for\s*\(\s*(%s)\s*,\s*(%s)\s*\)\s*in\s+(%s)\s*\.\s*iter\s*\(\s*\)\s*\{' % (IDENT, IDENT, PLACE))
    while True:
        mask = code_mask(body)
        m = _first(rx, body, mask)
        if not m:
            break
        if n:
            raise LostAnchor('L_FOR: more than one map loop in a function (temporaries would clash)')
        a, b, mp = m.group(1), m.group(2), _norm(m.group(3))
        body = body[:m.start()] + _keys_loop(mp, a, b, 'i_') + body[m.end():]
        n += 1
    return body, n


def L_QUANT(body, ctx):
    """R13: `M.iter().all(|(A, B)| P)` -> `{ let ks_ = ..; let mut acc_ = true; while j_ < ks_.len() && acc_ { let A..; let B..; j_ += 1; acc_ = P; } acc_ }`
    `M.iter().any(|(A, B)| { S.. return E; .. T })` -> the same loop with `acc_ = false`, `while .. && !acc_`,
    every closure-level `return E;` -> `{ acc_ = E; continue; }` and the tail T assigned to `acc_`."""
    n = 0
    rx = re.compile(r'(?<![A-Za-z0-9_.])(%s)\s*\.\s*iter\s*\(\s*\)\s*\.\s*(all|any)\s*\(' % PLACE)
    while True:
        mask = code_mask(body)
        m = _first(rx, body, mask)
        if not m:
            break
        mp, which = _norm(m.group(1)), m.group(2)
        a, b, expr, pc = _closure2(body, m.end(), mask, 'L_QUANT')
        if _ident_uses(expr, 'break') or _ident_uses(expr, 'continue'):
            raise LostAnchor('L_QUANT: closure body contains break/continue')
        if '|' in ''.join(c for c, k in zip(expr, code_mask(expr)) if k).replace('||', ''):
            raise LostAnchor('L_QUANT: nested closure (a `return` in it would be misread)')
        if _ident_uses(expr, 'return'):
            emask = code_mask(expr)
            out, pos = [], 0
            for r in _ident_uses(expr, 'return'):
                sm = find_top(expr, r';', r.end(), emask)
                if not sm:
                    raise LostAnchor('L_QUANT: return without `;`')
                out.append(expr[pos:r.start()])
                out.append('{ acc_ = %s; continue; }' % expr[r.end():sm.start()].strip())
                pos = sm.end()
            out.append(expr[pos:])
            expr = ''.join(out)
        init, cond = ('true', ' && acc_') if which == 'all' else ('false', ' && !acc_')
        new = ('{\n        let mut acc_ = %s;\n        ' % init + _keys_loop(mp, a, b, 'j_', cond)
               + '            let v_: bool = %s;\n            acc_ = v_;\n        }\n        acc_ }' % expr)
        body = body[:m.start()] + new + body[pc + 1:]
        n += 1
    return body, n


def L_FMAP(body, ctx):
    """R11: `M.iter().filter_map(|(A, B)| F).collect::<BTreeMap<_, _>>()` ->
    `{ let mut out_ = BTreeMap::new(); <key loop> { match F { Some((k_, v_)) => { out_.insert(k_, v_); } None => {} } } out_ }`"""
    n = 0
    rx = re.compile(r'(?<![A-Za-z0-9_.])(%s)\s*\.\s*iter\s*\(\s*\)\s*\.\s*filter_map\s*\(' % PLACE)
    while True:
        mask = code_mask(body)
        m = _first(rx, body, mask)
        if not m:
            break
        mp = _norm(m.group(1))
        a, b, expr, pc = _closure2(body, m.end(), mask, 'L_FMAP')
        _no_return(expr, 'L_FMAP')
        mc = re.match(r'\s*\.\s*collect\s*::\s*<\s*BTreeMap\s*<\s*_\s*,\s*_\s*>\s*>\s*\(\s*\)', body[pc + 1:])
        if not mc:
            raise LostAnchor('L_FMAP: filter_map not followed by .collect::<BTreeMap<_, _>>()')
        new = ('{\n        let mut out_: BTreeMap<_, _> = BTreeMap::new();\n        ' + _keys_loop(mp, a, b, 'i_')
               + '            match %s { Some((k_, v_)) => { out_.insert(k_, v_); } None => {} }\n        }\n        out_ }' % expr)
        body = body[:m.start()] + new + body[pc + 1 + mc.end():]
        n += 1
    return body, n


def L_MAPC(body, ctx):
    """R11: `M.iter().map(|(A, B)| (E1, E2)).collect()` (into a BTreeMap, by type inference) ->
    `{ let mut out_ = BTreeMap::new(); <key loop> { let (k_, v_) = (E1, E2); out_.insert(k_, v_); } out_ }`"""
    n = 0
    rx = re.compile(r'(?<![A-Za-z0-9_.])(%s)\s*\.\s*iter\s*\(\s*\)\s*\.\s*map\s*\(' % PLACE)
    while True:
        mask = code_mask(body)
        m = _first(rx, body, mask)
        if not m:
            break
        mp = _norm(m.group(1))
        a, b, expr, pc = _closure2(body, m.end(), mask, 'L_MAPC')
        _no_return(expr, 'L_MAPC')
        mc = re.match(r'\s*\.\s*collect\s*\(\s*\)', body[pc + 1:])
        if not mc:
            raise LostAnchor('L_MAPC: map not followed by .collect()')
        new = ('{\n        let mut out_ = BTreeMap::new();\n        ' + _keys_loop(mp, a, b, 'i_')
               + '            let (k_, v_) = %s;\n            out_.insert(k_, v_);\n        }\n        out_ }' % expr)
        body = body[:m.start()] + new + body[pc + 1 + mc.end():]
        n += 1
    return body, n


def L_ENUM(body, ctx):
    """R11: `X.into_iter().enumerate().collect()` -> `deque_enumerate(X)` (X a VecDeque expression; the
    prelude function fixes both collection types, so any other use is a type error, not a wrong proof)."""
    n = 0
    rx = re.compile(r'\s*\.\s*into_iter\s*\(\s*\)\s*\.\s*enumerate\s*\(\s*\)\s*\.\s*collect\s*\(\s*\)')
    while True:
        mask = code_mask(body)
        m = _first(rx, body, mask)
        if not m:
            break
        # the receiver: a postfix chain `ident(.ident | .ident(args))*` ending at m.start()
        k = m.start()
        while True:
            j = k
            while j > 0 and body[j - 1] in WS:
                j -= 1
            if j > 0 and body[j - 1] == ')':
                depth, q = 0, j - 1
                while q >= 0:
                    if mask[q] and body[q] in ')]}':
                        depth += 1
                    elif mask[q] and body[q] in '([{':
                        depth -= 1
                        if depth == 0:
                            break
                    q -= 1
                j = q
            mi = re.search(r'(%s)\s*$' % IDENT, body[:j])
            if not mi:
                raise LostAnchor('L_ENUM: receiver of into_iter() is not a postfix chain')
            k = mi.start()
            p = k
            while p > 0 and body[p - 1] in WS:
                p -= 1
            if p > 0 and body[p - 1] == '.':
                k = p - 1
                continue
            break
        recv = body[k:m.start()].strip()
        body = body[:k] + 'deque_enumerate(%s)' % recv + body[m.end():]
        n += 1
    return body, n


def L_COW(body, ctx):
    """R14: `let mut C = [std::borrow::]Cow::Borrowed(X);` -> `let mut C = X.clone();` and, within the rest of the
    enclosing text, `C.to_mut()` in receiver position (`C.to_mut().m(..)`) -> `C` (the method call takes the
    `&mut` itself), `C.to_mut()` anywhere else (bound by a `let`, passed as an argument) -> `(&mut C)`:
    `Cow::to_mut` "Acquires a mutable reference to the owned form of the data", and C now IS the owned form."""
    n = 0
    rx = re.compile(r'let\s+mut\s+(%s)\s*=\s*(?:%s)?Cow\s*::\s*Borrowed\s*\(\s*(%s)\s*\)\s*;' % (IDENT, PATHPFX, PLACE))
    while True:
        mask = code_mask(body)
        m = _first(rx, body, mask)
        if not m:
            break
        c, x = m.group(1), _norm(m.group(2))
        rest = body[m.end():]
        rest = re.sub(r'(?<![A-Za-z0-9_.])%s\s*\.\s*to_mut\s*\(\s*\)(?=\s*\.(?!\.))' % re.escape(c), c, rest)
        rest = re.sub(r'(?<![A-Za-z0-9_.])%s\s*\.\s*to_mut\s*\(\s*\)' % re.escape(c), '(&mut %s)' % c, rest)
        body = body[:m.start()] + 'let mut %s = %s.clone();' % (c, x) + rest
        n += 1
    return body, n


# ------------------------------------------------------------------------------------------------
# Normalisations (`norm:` in a /*@fn directive): an equivalent spelling of an idiom is rewritten into the
# spelling the rules / contracts were written against. They may fire zero times.

def _block_split(expr):
    """`{ S1; ..; Sn; T }` -> ('S1; ..; Sn;', 'T'); any other expression E -> ('', E)."""
    e = expr.strip()
    mask = code_mask(e)
    if not e.startswith('{') or match_close(e, 0, mask) != len(e) - 1:
        return '', e
    inner = e[1:-1]
    imask = code_mask(inner)
    last, depth = -1, 0
    for k, c in enumerate(inner):
        if not imask[k]:
            continue
        if c in '([{':
            depth += 1
        elif c in ')]}':
            depth -= 1
        elif c == ';' and depth == 0:
            last = k
    return inner[:last + 1].strip(), inner[last + 1:].strip()


def N_OKORELSE(body, ctx):
    """`let P = X.ok_or_else(|| E)?;` -> `let P = match X { Some(v_) => v_, None => { return Err(E); } };`
    and with a block closure `|| { S..; T }` -> `None => { S..; return Err(T); }`.
    std: `Option::ok_or_else` "Transforms the `Option<T>` into a `Result<T, E>`, mapping `Some(v)` to `Ok(v)` and
    `None` to `Err(err())`" (err is called only for `None`); `?` on a `Result`: "`Ok(v)` evaluates to `v`;
    `Err(e)` returns `Err(From::from(e))` from the enclosing function", and `From<T> for T` is the identity, so
    the rewrite is exact when the closure yields the function's own error type (rustc rejects the generated file
    otherwise: undecided). X, P, S.., T / E are re-emitted unchanged. Occurrences that are not the whole
    initialiser of a `let` are left as they are (Verus then accepts or rejects them itself)."""
    n = 0
    start = 0
    rx = re.compile(r'\.\s*ok_or_else\s*\(')
    while True:
        mask = code_mask(body)
        m = _first(rx, body, mask, start)
        if not m:
            break
        start = m.end()
        po = m.end() - 1
        pc = match_close(body, po, mask)
        j = _skip_ws(body, pc + 1)
        if j >= len(body) or body[j] != '?':
            continue
        j2 = _skip_ws(body, j + 1)
        if j2 >= len(body) or body[j2] != ';':
            continue
        mc = re.match(r'\s*(?:move\s+)?\|\s*\|', body[po + 1:pc])
        if not mc:
            continue
        expr = body[po + 1 + mc.end():pc].strip()
        # the enclosing `let`: the last `let` before the call with balanced brackets and no `;` in between
        let = None
        for lm in re.finditer(r'(?<![A-Za-z0-9_])let\s', body[:m.start()]):
            if not mask[lm.start()]:
                continue
            depth, ok = 0, True
            for k in range(lm.end(), m.start()):
                if not mask[k]:
                    continue
                c = body[k]
                if c in '([{':
                    depth += 1
                elif c in ')]}':
                    depth -= 1
                    if depth < 0:
                        ok = False
                        break
                elif c == ';' and depth == 0:
                    ok = False
                    break
            if ok and depth == 0:
                let = lm
        if let is None:
            continue
        eq = find_top(body, r'=(?![=>])', let.end(), mask, m.start())
        if not eq:
            continue
        recv = body[eq.end():m.start()].strip()
        if not recv:
            continue
        if _ident_uses(expr, 'return') or '?' in ''.join(c for c, k in zip(expr, code_mask(expr)) if k):
            raise LostAnchor('N_OKORELSE: closure body contains return / `?`')
        stmts, tail = _block_split(expr)
        if not tail:
            raise LostAnchor('N_OKORELSE: closure block without a tail expression')
        new = ('%s match %s { Some(v_) => v_, None => { %s return Err(%s); } };'
               % (body[let.start():eq.end()], recv, stmts, tail))
        body = body[:let.start()] + new + body[j2 + 1:]
        start = let.start() + len(new)
        n += 1
    return body, n
