"""Desugaring rules of the actor-model unit (AM: /repo/src/actor/model.rs; DESIGN.md 3.2).

Same conventions as rules.py: every rule is a generic syntactic idiom with captures, captured
sub-expressions are re-emitted unchanged, `RULE(body, ctx) -> (new_body, fired_count)`, and a rule
raises LostAnchor rather than guess.  The prelude items the rules refer to are in vx/prelude/am.rs.

  R6F       `(P.FIELD)(args)`  (call of a fn-pointer stored in a struct field)  ->  `P.FIELD.call(args)`
"""
import re

from extract import LostAnchor, code_mask, find_top, match_close

IDENT = r'[A-Za-z_][A-Za-z0-9_]*'
PATH = r'%s(?:\s*\.\s*%s)+' % (IDENT, IDENT)


def _first_code_match(rx, body, mask, start=0):
    for m in rx.finditer(body, start):
        if mask[m.start()]:
            return m
    return None


def R6F(body, ctx):
    """`(P.FIELD)(ARGS)` -> `P.FIELD.call(ARGS)`: P.FIELD is a place path with at least one field access,
    parenthesised because it is a fn-pointer *field* (Rust's syntax for calling one).  The field's type is
    mapped (`map:` of the `/*@item` directive) to an opaque prelude type whose `call` method has the
    fn pointer's parameters and returns an uninterpreted pure function of them (A-PURE).  ARGS unchanged."""
    rx = re.compile(r'\(\s*(%s)\s*\)\s*\(' % PATH)
    n, start = 0, 0
    while True:
        mask = code_mask(body)
        m = _first_code_match(rx, body, mask, start)
        if not m:
            break
        # the parenthesised path must start an expression: what precedes it is an operator / opening bracket /
        # keyword, never a value (then `X (P.F)(..)` would be a call of X)
        k = m.start()
        while k > 0 and body[k - 1] in ' \t\n':
            k -= 1
        prev = body[k - 1] if k > 0 else ''
        if prev.isalnum() or prev in '_)]?':
            w = re.search(r'(%s)$' % IDENT, body[:k])
            if not (w and w.group(1) in _EXPR_KEYWORDS):
                start = m.start() + 1
                continue
        path = re.sub(r'\s+', '', m.group(1))
        body = body[:m.start()] + path + '.call(' + body[m.end():]
        n += 1
        start = 0
    return body, n


_EXPR_KEYWORDS = ('if', 'match', 'return', 'while', 'in', 'else', 'break', 'let', 'mut')
