"""Desugaring rules of the actor-model unit (AM: /repo/src/actor/model.rs; DESIGN.md 3.2).

Same conventions as rules.py: every rule is a generic syntactic idiom with captures, captured
sub-expressions are re-emitted unchanged, `RULE(body, ctx) -> (new_body, fired_count)`, and a rule
raises LostAnchor rather than guess.  The prelude items the rules refer to are in vx/prelude/am.rs.

  R6F       `(P.FIELD)(args)`  (call of a fn-pointer stored in a struct field)  ->  `P.FIELD.call(args)`
  FOR_NEXT  `for P in E { .. continue .. }` over an iterator value            ->  `loop` over `E.next()`
  COUNT_FILTER              `X.iter().filter(|P| F).count()`                  ->  counting `while` loop
  ENUM_FILTER_MAP_FOR_EACH  `X.iter().enumerate().filter_map(|P1| E1).for_each(|P2| E2);` -> index `while` loop
  AUTOREF_INTO_ITER         `for PAT in X.F.into_iter() {` (X a shared reference) ->  `for PAT in X.F.iter() {`
"""
import re

from extract import LostAnchor, code_mask, find_top, match_close

IDENT = r'[A-Za-z_][A-Za-z0-9_]*'
PATH = r'%s(?:\s*\.\s*%s)+' % (IDENT, IDENT)


def _first_code_match(rx, body, mask, start=0):
    for m in rx.finditer(body, start):
        if mask[m.start()]:
            return m
    return None


def R6F(body, ctx):
    """`(P.FIELD)(ARGS)` -> `P.FIELD.call(ARGS)`: P.FIELD is a place path with at least one field access,
    parenthesised because it is a fn-pointer *field* (Rust's syntax for calling one).  The field's type is
    mapped (`map:` of the `/*@item` directive) to an opaque prelude type whose `call` method has the
    fn pointer's parameters and returns an uninterpreted pure function of them (A-PURE).  ARGS unchanged."""
    rx = re.compile(r'\(\s*(%s)\s*\)\s*\(' % PATH)
    n, start = 0, 0
    while True:
        mask = code_mask(body)
        m = _first_code_match(rx, body, mask, start)
        if not m:
            break
        # the parenthesised path must start an expression: what precedes it is an operator / opening bracket /
        # keyword, never a value (then `X (P.F)(..)` would be a call of X)
        k = m.start()
        while k > 0 and body[k - 1] in ' \t\n':
            k -= 1
        prev = body[k - 1] if k > 0 else ''
        if prev and (prev.isalnum() or prev in '_)]?'):    # (`'' in s` is True: a call that starts the body has no predecessor)
            w = re.search(r'(%s)$' % IDENT, body[:k])
            if not (w and w.group(1) in _EXPR_KEYWORDS):
                start = m.start() + 1
                continue
        path = re.sub(r'\s+', '', m.group(1))
        body = body[:m.start()] + path + '.call(' + body[m.end():]
        n += 1
        start = 0
    return body, n


_EXPR_KEYWORDS = ('if', 'match', 'return', 'while', 'in', 'else', 'break', 'let', 'mut')


def _closure_args(body, start, mask):
    """body[start] == '|': parse `|PARAMS| EXPR` where the closure is the single argument of a call whose `(` precedes
    `start` (modulo spaces).  Returns (params_text, expr_text, index_of_the_call's_closing_paren)."""
    k = start - 1
    while k >= 0 and body[k] in ' \t\n':
        k -= 1
    if k < 0 or body[k] != '(':
        raise LostAnchor('closure is not a call argument')
    pc = match_close(body, k, mask)
    # the parameter list ends at the next top-level `|`
    depth, j = 0, start + 1
    while j < pc:
        c = body[j]
        if c in '([{':
            depth += 1
        elif c in ')]}':
            depth -= 1
        elif c == '|' and depth == 0:
            break
        j += 1
    if j >= pc:
        raise LostAnchor('closure without parameter list')
    return body[start + 1:j].strip(), body[j + 1:pc].strip(), pc


def _receiver_start(body, end, mask):
    """start index of the postfix expression (identifiers, `.`, calls, indexes) that ends at `end`."""
    k = end
    while k > 0 and body[k - 1] in ' \t\n':
        k -= 1
    while k > 0:
        c = body[k - 1]
        if c.isalnum() or c in '_.':
            k -= 1
        elif c in ' \t\n':
            # whitespace inside a method chain (`state\n .crashed`): continue only if a `.` follows / precedes
            j = k - 1
            while j > 0 and body[j - 1] in ' \t\n':
                j -= 1
            if body[k:k + 1] == '.' or (j > 0 and body[j - 1] == '.'):
                k = j
            else:
                break
        elif c in ')]':
            depth, j = 0, k - 1
            while j >= 0:
                if mask[j] and body[j] in ')]':
                    depth += 1
                elif mask[j] and body[j] in '([':
                    depth -= 1
                    if depth == 0:
                        break
                j -= 1
            k = j
        else:
            break
    return k


def _let(pat, expr):
    """`let PAT = EXPR;` with reference patterns eliminated (Verus has no `&x` patterns): a leading `&` of the pattern
    cancels a leading `&` of the expression (`let &x = &E;` is `let x = E;`, which needs `E: Copy` exactly as the
    original does); a 2-tuple pattern against a 2-tuple expression is split componentwise."""
    pat, expr = pat.strip(), expr.strip()
    if pat.startswith('(') and pat.endswith(')') and expr.startswith('(') and expr.endswith(')'):
        ps, es = _split2(pat[1:-1]), _split2(expr[1:-1])
        if ps and es:
            return ' '.join(_let(a, b) for a, b in zip(ps, es))
    while pat.startswith('&') and expr.startswith('&'):
        pat, expr = pat[1:].strip(), expr[1:].strip()
    if not re.match(r'(mut\s+)?%s$' % IDENT, pat) and pat != '_':
        raise LostAnchor('closure parameter pattern `%s` is not supported' % pat)
    return 'let %s = %s;' % (pat, expr)


def _split2(s):
    depth = 0
    for k, c in enumerate(s):
        if c in '([{':
            depth += 1
        elif c in ')]}':
            depth -= 1
        elif c == ',' and depth == 0:
            a, b = s[:k].strip(), s[k + 1:].strip().rstrip(',').strip()
            if a and b and ',' not in b:
                return [a, b]
            return None
    return None


def FOR_NEXT(body, ctx):
    """`for P in E { B }` where B contains `continue` (which Verus rejects inside `for`) and E is an iterator value
    (a method call returning an `Iterator`, for which `IntoIterator::into_iter` is the identity)
    -> `{ let mut nxK_ = E; loop { let P = match nxK_.next() { Some(x_) => x_, None => { break; } }; B } }`:
    the language's own desugaring of `for`.  P, E and B are re-emitted unchanged; K is the ordinal of the `for`."""
    n, k_ord = 0, 0
    rx = re.compile(r'(?<![A-Za-z0-9_.])for\b')
    pos = 0
    while True:
        mask = code_mask(body)
        m = _first_code_match(rx, body, mask, pos)
        if not m:
            break
        k_ord += 1
        mi = find_top(body, r'\bin\b', m.end(), mask)
        mo = find_top(body, r'\{', m.end(), mask)
        if not mi or not mo or mi.start() > mo.start():
            raise LostAnchor('FOR_NEXT: `for` without `in`')
        ob = mo.start()
        cb = match_close(body, ob, mask)
        inner = body[ob + 1:cb]
        pat = body[m.end():mi.start()].strip()
        expr = body[mi.end():ob].strip()
        if not re.search(r'(?<![A-Za-z0-9_])continue\b', inner) or not re.search(r'\)\s*$', expr) or '..' in expr:
            pos = m.end()
            continue
        it = 'nx%d_' % k_ord
        new = ('{ let mut %s = %s;\n        loop {\n            let %s = match %s.next() { Some(x_) => x_, None => { break; } };'
               % (it, expr, pat, it)) + inner + '} }'
        body = body[:m.start()] + new + body[cb + 1:]
        pos = m.start() + len('{ let mut ')
        n += 1
    return body, n


def COUNT_FILTER(body, ctx):
    """`X.iter().filter(|P| F).count()`  ->  an explicit counting loop over `X` (a Vec / slice; std: `filter` "creates
    an iterator which uses a closure to determine if an element should be yielded", `count` "consumes the iterator,
    counting the number of iterations"):
    { let mut c_: usize = 0; let mut j_: usize = 0; while j_ < X.len() { let P = &&X[j_]; j_ += 1; if F { c_ += 1; } } c_ }
    (the closure of `filter` receives `&Self::Item`, i.e. `&&T`).  X, P and F are re-emitted unchanged."""
    n = 0
    rx = re.compile(r'\.\s*iter\(\)\s*\.\s*filter\(\s*')
    while True:
        mask = code_mask(body)
        hit = None
        for m in rx.finditer(body):
            if not mask[m.start()]:
                continue
            params, f, pc = _closure_args(body, m.end(), mask)
            m2 = re.match(r'\s*\.\s*count\(\s*\)', body[pc + 1:])
            if not m2:
                continue
            k = _receiver_start(body, m.start(), mask)
            recv = re.sub(r'\s+', '', body[k:m.start()])
            if not recv:
                continue
            hit = (k, pc + 1 + m2.end(), recv, params, f)
            break
        if not hit:
            break
        k, end, recv, params, f = hit
        loop = ('{ let mut c_: usize = 0; let mut j_: usize = 0;\n            while j_ < %s.len() { %s j_ += 1; if %s { c_ += 1; } }\n            c_ }'
                % (recv, _let(params, '&&%s[j_]' % recv), f))
        body = body[:k] + loop + body[end:]
        n += 1
    return body, n


def ENUM_FILTER_MAP_FOR_EACH(body, ctx):
    """`X.iter().enumerate().filter_map(|P1| E1).for_each(|P2| E2);`  (X a Vec / slice)
    -> `{ let mut j_: usize = 0; while j_ < X.len() { let P1 = (j_, &X[j_]); j_ += 1;
          match (E1) { Some(x_) => { let P2 = x_; E2; } None => {} } } }`
    std: `enumerate` yields `(index, &element)` from index 0 upwards, `filter_map` "yields only the values for which
    the supplied closure returns Some(value)", `for_each` "calls a closure on each element", all in iteration
    order.  X, P1, E1, P2 and E2 are re-emitted unchanged."""
    n = 0
    rx = re.compile(r'\.\s*iter\(\)\s*\.\s*enumerate\(\)\s*\.\s*filter_map\(\s*')
    while True:
        mask = code_mask(body)
        hit = None
        for m in rx.finditer(body):
            if not mask[m.start()]:
                continue
            p1, e1, pc = _closure_args(body, m.end(), mask)
            m2 = re.match(r'\s*\.\s*for_each\(\s*', body[pc + 1:])
            if not m2:
                continue
            p2, e2, pc2 = _closure_args(body, pc + 1 + m2.end(), mask)
            m3 = re.match(r'\s*;', body[pc2 + 1:])
            if not m3:
                raise LostAnchor('ENUM_FILTER_MAP_FOR_EACH: `.for_each(..)` is not a statement')
            k = _receiver_start(body, m.start(), mask)
            recv = re.sub(r'\s+', '', body[k:m.start()])
            if not recv:
                continue
            hit = (k, pc2 + 1 + m3.end(), recv, p1, e1, p2, e2)
            break
        if not hit:
            break
        k, end, recv, p1, e1, p2, e2 = hit
        loop = ('{ let mut j_: usize = 0;\n            while j_ < %s.len() { %s j_ += 1;\n'
                '                match (%s) { Some(x_) => { %s %s; } None => {} } } }'
                % (recv, _let(p1, '(j_, &%s[j_])' % recv), e1, _let(p2, 'x_'), e2))
        body = body[:k] + loop + body[end:]
        n += 1
    return body, n


def AUTOREF_INTO_ITER(body, ctx):
    """`for PAT in X.F.into_iter() {` where X is bound as a *shared reference* by an enclosing
    `for (I, X) in V.iter().enumerate()` (or its R3 form `let X = &V[I];`): the field place `X.F` cannot be moved out
    of, so method resolution auto-refs and calls `<&T as IntoIterator>::into_iter`, which for the std maps/sets and
    /repo's Hashable* wrappers is `iter()` -> `for PAT in X.F.iter() {`."""
    rx = re.compile(r'(?<![A-Za-z0-9_.])for\b(\s*[^{};]*?\s)in\s+(%s)((?:\s*\.\s*%s)+)\s*\.\s*into_iter\(\)\s*\{' % (IDENT, IDENT))
    mask = code_mask(body)
    out, pos, n = [], 0, 0
    for m in rx.finditer(body):
        if not mask[m.start()] or m.start() < pos:
            continue
        root = m.group(2)
        before = body[:m.start()]
        is_ref = (re.search(r'for\s*\(\s*%s\s*,\s*%s\s*\)\s*in\s+[^{;]*\.iter\(\)\.enumerate\(\)' % (IDENT, re.escape(root)), before)
                  or re.search(r'let\s+%s\s*=\s*&' % re.escape(root), before))
        if not is_ref:
            raise LostAnchor('AUTOREF_INTO_ITER: `%s` is not known to be a shared reference' % root)
        out.append(body[pos:m.start()])
        out.append('for%sin %s%s.iter() {' % (m.group(1), root, re.sub(r'\s+', '', m.group(3))))
        pos = m.end()
        n += 1
    out.append(body[pos:])
    return ''.join(out), n
