"""Desugaring rules for closures handed to std adapters (units VC `hash`, RW). Conventions: vx/rules.py.

Verus 0.2026.09.13 does not take `Iterator::rposition`, `Option::map`, `Iterator::map(..).collect()`
with closures that have no specification. Each rule below replaces ONE adapter call whose closure is
written in place by the control flow that the std documentation of the adapter describes. The
receiver, the closure pattern and the closure body are captured and re-emitted unchanged, so an
edit inside any of them still reaches the verifier; when the idiom is absent the rule fires 0
times (lost anchor = undecided), and when it is present in a shape the rule does not understand
it raises LostAnchor.

  C_RPOSITION            X.iter().rposition(|P| COND)
  C_OPTION_MAP           OPT.map(|I| EXPR)                       (OPT an Option, not an iterator)
  C_HASH_UNSIZED_PLACE   E[A..B].hash(S)  ->  (&E[A..B]).hash(S)  (then rule R5)
  C_MAP_COLLECT_VEC / _VECDEQUE / _BTREESET      X.iter().map(|P| E).collect()
  C_MAP_COLLECT_BTREEMAP                         X.iter().map(|(K, V)| (EK, EV)).collect()

A closure body that contains `return`, `?`, `break` or `continue` would change meaning when moved
out of the closure: every rule refuses such a body (LostAnchor).
"""
import re

from extract import LostAnchor, code_mask, find_top, match_close
from rules import IDENT

WS = ' \t\r\n'
KEYWORDS = {'return', 'let', 'in', 'if', 'else', 'match', 'while', 'for', 'loop', 'mut', 'ref', 'move', 'as', 'break', 'continue'}


# --------------------------------------------------------------------------------------------
# helpers
# --------------------------------------------------------------------------------------------

def _back_ws(text, k):
    """largest j <= k such that text[j-1] is not white space"""
    while k > 0 and text[k - 1] in WS:
        k -= 1
    return k


def _open_of(text, k, mask):
    """text[k] is a closing bracket in code: index of its opening bracket."""
    want = {')': '(', ']': '[', '}': '{'}
    depth = 0
    j = k
    while j >= 0:
        if mask[j]:
            if text[j] in ')]}':
                depth += 1
            elif text[j] in '([{':
                depth -= 1
                if depth == 0:
                    if text[j] != want[text[k]]:
                        raise LostAnchor('unbalanced bracket before a method chain')
                    return j
        j -= 1
    raise LostAnchor('unbalanced bracket before a method chain')


def _receiver_start(text, end, mask, what):
    """`end` is the index of the `.` of a method call. Return the start of the postfix expression that
    is its receiver: `seg (. seg)*` where seg is an identifier / tuple index optionally followed by
    call or index groups, a path `a::b`, a parenthesised expression, or (only as the head) a block."""
    k = _back_ws(text, end)
    while True:
        seg_end = k
        # trailing `?` and bracket groups of this segment
        while k > 0 and mask[k - 1] and text[k - 1] in ')]?':
            k = k - 1 if text[k - 1] == '?' else _open_of(text, k - 1, mask)
        if k > 0 and mask[k - 1] and text[k - 1] == '>' and k != seg_end:
            # turbofish of a call: `name::<T, ..>(args)`
            depth, j = 0, k - 1
            while j >= 0:
                if text[j] == '>' and text[j - 1] != '-':
                    depth += 1
                elif text[j] == '<':
                    depth -= 1
                    if depth == 0:
                        break
                j -= 1
            q = _back_ws(text, max(j, 0))
            if j < 0 or q < 2 or text[q - 2:q] != '::':
                raise LostAnchor('%s: receiver has a `>` that is not a turbofish' % what)
            k = _back_ws(text, q - 2)
        if k > 0 and mask[k - 1] and text[k - 1] == '}' and k == seg_end:
            # a block / match / struct literal as the head of the chain
            k = _open_of(text, k - 1, mask)
            j = _back_ws(text, k)
            if j > 0 and (text[j - 1].isalnum() or text[j - 1] in '_>)'):
                raise LostAnchor('%s: receiver ends in a braced construct that is not a plain block' % what)
            return k
        # identifier / path (possibly with turbofish-free `::`)
        j = k
        while j > 0 and (text[j - 1].isalnum() or text[j - 1] == '_'):
            j -= 1
        ident = text[j:k]
        if ident in KEYWORDS:
            j = k  # the keyword is not part of the receiver
        if j == k and k == seg_end:
            raise LostAnchor('%s: no receiver expression' % what)
        k = j
        p = _back_ws(text, k)
        if p >= 2 and text[p - 2:p] == '::' and j != seg_end:
            k = _back_ws(text, p - 2)
            continue
        if p >= 1 and text[p - 1] == '.' and not (p >= 2 and text[p - 2] == '.'):
            k = _back_ws(text, p - 1)
            continue
        return k


def _closure_arg(text, bar, mask, what):
    """text[bar] == '|' is the first character of the only argument of a call: parse `|PAT| EXPR`.
    Returns (pat, expr, index of the `)` closing the call)."""
    k = _back_ws(text, bar)
    if k == 0 or text[k - 1] != '(':
        raise LostAnchor('%s: closure is not the only call argument' % what)
    pc = match_close(text, k - 1, mask)
    m = find_top(text, r'\|', bar + 1, mask, pc)
    if not m:
        raise LostAnchor('%s: closure parameter list not closed' % what)
    pat = text[bar + 1:m.start()].strip()
    if not pat or ':' in pat or find_top(pat, r','):
        raise LostAnchor('%s: closure must take exactly one un-annotated parameter' % what)
    expr = text[m.end():pc].strip()
    if expr.endswith(','):
        expr = expr[:-1].rstrip()
    if not expr or expr.startswith('->'):
        raise LostAnchor('%s: closure with a declared return type' % what)
    emask = code_mask(expr)
    for mm in re.finditer(r'(?<![A-Za-z0-9_])(return|break|continue)(?![A-Za-z0-9_])|\?', expr):
        if emask[mm.start()]:
            raise LostAnchor('%s: closure body contains `%s` (control flow would change meaning outside the closure)' % (what, mm.group(0)))
    return pat, expr, pc


def _first(rx, text, mask, start=0):
    for m in rx.finditer(text, start):
        if mask[m.start()]:
            return m
    return None


def _is_place(x):
    """`a.b.0` - an expression that can be evaluated several times without effect"""
    return re.fullmatch(r'%s(?:\s*\.\s*(?:%s|[0-9]+))*' % (IDENT, IDENT), x) is not None


# --------------------------------------------------------------------------------------------
# Iterator::rposition
# --------------------------------------------------------------------------------------------

def C_RPOSITION(body, ctx):
    """`X.iter().rposition(|P| COND)` ->
    `{ let mut j_: usize = X.len(); let mut r_: Option<usize> = None;
       while j_ > 0 { j_ -= 1; let P = &X[j_]; if COND { r_ = Some(j_); break; } } r_ }`

    std, Iterator::rposition: "Searches for an element in an iterator from the right, returning its
    index. [..] applies this closure to each element of the iterator, starting from the end, and if
    one of them returns true, then rposition() returns Some(index). If all of them return false, it
    returns None. rposition() is short-circuiting"; slice::iter yields `&X[0]`, .., `&X[len-1]`, so
    the closure parameter is bound to `&X[j_]` and the index is the slice index.
    X must be a place expression (`a.b.0`: it is evaluated more than once); X, P and COND are
    re-emitted unchanged."""
    n = 0
    rx = re.compile(r'\.\s*iter\s*\(\s*\)\s*\.\s*rposition\s*\(\s*(?=\|)')
    while True:
        mask = code_mask(body)
        m = _first(rx, body, mask)
        if not m:
            break
        s = _receiver_start(body, m.start(), mask, 'C_RPOSITION')
        x = body[s:m.start()].strip()
        x = re.sub(r'\s+', '', x)
        if not _is_place(x):
            raise LostAnchor('C_RPOSITION: receiver `%s` is not a place expression' % x)
        pat, cond, pc = _closure_arg(body, m.end(), mask, 'C_RPOSITION')
        new = ('{ let mut j_: usize = %s.len(); let mut r_: Option<usize> = None;\n'
               '            while j_ > 0 { j_ -= 1; let %s = &%s[j_]; if %s { r_ = Some(j_); break; } }\n'
               '            r_ }' % (x, pat, x, cond))
        body = body[:s] + new + body[pc + 1:]
        n += 1
    return body, n


# --------------------------------------------------------------------------------------------
# Option::map
# --------------------------------------------------------------------------------------------

ITER_TAILS = re.compile(r'\.\s*(iter|iter_mut|into_iter|keys|values|values_mut|drain|chars|bytes|lines|enumerate|rev|zip|skip|take|'
                        r'filter|filter_map|map|flat_map|chain|cloned|copied|peekable|windows|chunks|split)\s*(::\s*<[^()]*>\s*)?\([^()]*\)\s*$')


def C_OPTION_MAP(body, ctx):
    """`OPT.map(|I| EXPR)` -> `(match OPT { Some(I) => Some(EXPR), None => None })`

    std, Option::map: "Maps an Option<T> to Option<U> by applying a function to a contained value
    (if Some) or returns None (if None)". The rule is for receivers that are Options; it refuses a
    receiver that visibly is an iterator (ends in `.iter()`, `.filter(..)`, ..): there `map` is
    Iterator::map. If OPT is anything else than an Option the emitted `match` does not type-check
    (undecided), it cannot prove something wrong. OPT, I and EXPR are re-emitted unchanged; OPT is
    evaluated once, before EXPR, as in the call."""
    n = 0
    rx = re.compile(r'\.\s*map\s*\(\s*(?=\|)')
    start = 0
    while True:
        mask = code_mask(body)
        m = _first(rx, body, mask, start)
        if not m:
            break
        s = _receiver_start(body, m.start(), mask, 'C_OPTION_MAP')
        opt = body[s:m.start()].strip()
        if ITER_TAILS.search(opt):
            start = m.end()     # Iterator::map - not this rule's idiom
            continue
        pat, expr, pc = _closure_arg(body, m.end(), mask, 'C_OPTION_MAP')
        new = '(match %s { Some(%s) => Some(%s), None => None })' % (opt, pat, expr)
        body = body[:s] + new + body[pc + 1:]
        start = s
        n += 1
    return body, n


# --------------------------------------------------------------------------------------------
# `place[range].hash(state)`: make the auto-reference explicit so that R5 applies
# --------------------------------------------------------------------------------------------

def C_HASH_UNSIZED_PLACE(body, ctx):
    """`E[A..B].hash(S)` -> `(&E[A..B]).hash(S)` (A, B optional).

    `E[A..B]` is an unsized place of type `[T]`; the method call passes `&E[A..B]` to
    `<[T] as Hash>::hash`, and std `impl<T: ?Sized + Hash> Hash for &T` forwards to `T`: hashing the
    reference `&E[A..B]` (a sized value of type `&[T]`, which rule R5's `feed` can take) writes the
    same thing. E, A, B, S are re-emitted unchanged; run before R5."""
    n = 0
    rx = re.compile(r'\]\s*\.\s*hash\s*\(')
    start = 0
    while True:
        mask = code_mask(body)
        m = _first(rx, body, mask, start)
        if not m:
            break
        ob = _open_of(body, m.start(), mask)
        idx = body[ob + 1:m.start()]
        if not find_top(idx, r'\.\.'):
            start = m.end()     # `E[i].hash(S)`: a sized element, plain R5
            continue
        dot = body.index('.', m.start())
        s = _receiver_start(body, dot, mask, 'C_HASH_UNSIZED_PLACE')
        body = body[:s] + '(&' + body[s:m.start() + 1] + ')' + body[m.start() + 1:]
        start = m.end() + 3
        n += 1
    return body, n


# --------------------------------------------------------------------------------------------
# Iterator::map(closure).collect()
# --------------------------------------------------------------------------------------------

def _map_collect(body, what, source, new_out, add):
    """`X.iter().map(|P| E).collect()` ->
    `{ let it_ = SOURCE(&*X); let mut out_ = NEW; let mut i_: usize = 0;
       while i_ < it_.len() { let P = it_[i_]; i_ += 1; let e_ = E; ADD; }
       out_ }`
    X, P and E are re-emitted unchanged. `&*X`: X is a reference to the collection (`self` in a
    `&self` method); anything else does not type-check (undecided)."""
    n = 0
    rx = re.compile(r'\.\s*iter\s*\(\s*\)\s*\.\s*map\s*\(\s*(?=\|)')
    start = 0
    while True:
        mask = code_mask(body)
        m = _first(rx, body, mask, start)
        if not m:
            break
        pat, expr, pc = _closure_arg(body, m.end(), mask, what)
        mc = re.match(r'\s*\.\s*collect\s*\(\s*\)', body[pc + 1:])
        if not mc:
            start = m.end()     # `.map(..)` feeding another adapter: not this rule's idiom
            continue
        s = _receiver_start(body, m.start(), mask, what)
        x = body[s:m.start()].strip()
        new = ('{ let it_ = %s(&*%s); let mut out_ = %s; let mut i_: usize = 0;\n'
               '            while i_ < it_.len() { let %s = it_[i_]; i_ += 1;\n'
               '                let e_ = %s;\n'
               '                %s; }\n'
               '            out_ }' % (source, x, new_out, pat, expr, add))
        body = body[:s] + new + body[pc + 1 + mc.end():]
        start = s
        n += 1
    return body, n


def C_MAP_COLLECT_VEC(body, ctx):
    """`X.iter().map(|P| E).collect()` collected into a `Vec` -> index loop over `iter_seq(&*X)` (prelude
    iterseq.rs: the elements of X in iteration order) that does `out_.push(E)`.
    std: Iterator::map "Takes a closure and creates an iterator which calls that closure on each
    element"; Iterator::collect "Transforms an iterator into a collection"; `Vec: FromIterator` keeps
    the order of the iterator. `collect()` is type-directed: the rule name says which `FromIterator`
    impl is meant; if the function's result is another collection the output does not type-check."""
    return _map_collect(body, 'C_MAP_COLLECT_VEC', 'iter_seq', 'Vec::new()', 'out_.push(e_)')


def C_MAP_COLLECT_VECDEQUE(body, ctx):
    """As C_MAP_COLLECT_VEC, collected into a `VecDeque`: `out_.push_back(E)` per element, front to back
    (`VecDeque: FromIterator` keeps the order of the iterator)."""
    return _map_collect(body, 'C_MAP_COLLECT_VECDEQUE', 'iter_seq', 'VecDeque::new()', 'out_.push_back(e_)')


def C_MAP_COLLECT_BTREESET(body, ctx):
    """As C_MAP_COLLECT_VEC, collected into a `BTreeSet`: `out_.insert(E)` per element (`BTreeSet:
    FromIterator`: the set of the yielded values; `insert` of a value already present leaves the set
    unchanged - equal values are indistinguishable under the `key_obeys_cmp_spec` precondition)."""
    return _map_collect(body, 'C_MAP_COLLECT_BTREESET', 'iter_seq', 'BTreeSet::new()', 'out_.insert(e_)')


def C_MAP_COLLECT_BTREEMAP(body, ctx):
    """`X.iter().map(|(K, V)| (EK, EV)).collect()` with X a map, collected into a `BTreeMap` -> index loop
    over `iter_pairs(&*X)` (prelude iterseq.rs: the entries of X in iteration order) that does
    `let e_ = (EK, EV); out_.insert(e_.0, e_.1)`.
    std, `impl FromIterator<(K, V)> for BTreeMap`: "If the iterator produces any pairs with equal
    keys, all but one of the corresponding values will be dropped" - WHICH one is not documented.
    The loop keeps the last; a contract must therefore not depend on the choice (unit RW requires
    the produced keys to be pairwise different, so no pair is dropped at all)."""
    return _map_collect(body, 'C_MAP_COLLECT_BTREEMAP', 'iter_pairs', 'BTreeMap::new()', 'out_.insert(e_.0, e_.1)')


def C_MAP_COLLECT_FROM_ITER(body, ctx):
    """`X.iter().map(|P| E).collect()` collected into a type whose `FromIterator` impl is crate code ->
    `{ let it_ = iter_seq(&*X); let mut out_ = Vec::new(); <loop of C_MAP_COLLECT_VEC>; FromIterator::from_iter(out_) }`
    std, Iterator::collect: "Transforms an iterator into a collection" by `FromIterator::from_iter`
    ("FromIterator::from_iter() is rarely called explicitly, and is instead used through
    Iterator::collect()"). `from_iter` only sees the items, so it is handed the `Vec` of the mapped
    values in iteration order instead of the lazy `Map` adapter; the directive's `callmap` points
    `FromIterator::from_iter(out_)` at the extracted copy of the crate's `from_iter`."""
    new, n = _map_collect(body, 'C_MAP_COLLECT_FROM_ITER', 'iter_seq', 'Vec::new()', 'out_.push(e_)')
    return new.replace('\n            out_ }', '\n            FromIterator::from_iter(out_) }'), n


def C_MAPENTRIES_COLLECT_FROM_ITER(body, ctx):
    """As C_MAP_COLLECT_FROM_ITER for `X.iter().map(|(K, V)| E).collect()` with X a map: the loop runs
    over `iter_pairs(&*X)` (the entries in iteration order)."""
    new, n = _map_collect(body, 'C_MAPENTRIES_COLLECT_FROM_ITER', 'iter_pairs', 'Vec::new()', 'out_.push(e_)')
    return new.replace('\n            out_ }', '\n            FromIterator::from_iter(out_) }'), n


def C_STD_FROM_ITER(body, ctx):
    """`HashSet::from_iter(I)` -> `hashset_from_vec(I)`, `HashMap::from_iter(I)` -> `hashmap_from_vec(I)`
    (prelude iterseq.rs: the std `FromIterator` impls of the hash collections, for an `I` that is a
    `Vec`). I is re-emitted unchanged."""
    n = 0
    rx = re.compile(r'(?<![A-Za-z0-9_])(HashSet|HashMap)\s*::\s*from_iter\s*\(')
    while True:
        mask = code_mask(body)
        m = _first(rx, body, mask)
        if not m:
            break
        pc = match_close(body, m.end() - 1, mask)
        fn = 'hashset_from_vec' if m.group(1) == 'HashSet' else 'hashmap_from_vec'
        body = body[:m.start()] + '%s(%s)' % (fn, body[m.end():pc].strip()) + body[pc + 1:]
        n += 1
    return body, n


# --------------------------------------------------------------------------------------------
# Vec::into_iter() [.zip(Vec)] .filter_map(closure).collect::<Vec>()
# --------------------------------------------------------------------------------------------

def _into_iter_filter_map(body, what, zipped):
    n = 0
    rx = re.compile(r'\.\s*into_iter\s*\(\s*\)\s*' + (r'\.\s*zip\s*\(' if zipped else r'\.\s*filter_map\s*\(\s*(?=\|)'))
    start = 0
    while True:
        mask = code_mask(body)
        m = _first(rx, body, mask, start)
        if not m:
            break
        if zipped:
            zc = match_close(body, m.end() - 1, mask)
            b = body[m.end():zc].strip()
            mf = re.match(r'\s*\.\s*filter_map\s*\(\s*(?=\|)', body[zc + 1:])
            if not mf:
                start = m.end()     # `zip(..)` feeding another adapter: not this rule's idiom
                continue
            if not b or find_top(b, r','):
                raise LostAnchor('%s: `zip` must have exactly one argument' % what)
            bar = zc + 1 + mf.end()
        else:
            b = None
            bar = m.end()
        pat, expr, pc = _closure_arg(body, bar, mask, what)
        mc = re.match(r'\s*\.\s*collect\s*\(\s*\)', body[pc + 1:])
        if not mc:
            start = m.end()
            continue
        s = _receiver_start(body, m.start(), mask, what)
        a = body[s:m.start()].strip()
        if zipped:
            new = ('{ let mut a_ = %s; let mut b_ = %s; let mut out_ = Vec::new();\n'
                   '            while a_.len() > 0 && b_.len() > 0 { let %s = (a_.remove(0), b_.remove(0));\n'
                   '                let o_ = %s;\n'
                   '                match o_ { Some(e_) => { out_.push(e_); } None => {} } }\n'
                   '            out_ }' % (a, b, pat, expr))
        else:
            new = ('{ let mut a_ = %s; let mut out_ = Vec::new();\n'
                   '            while a_.len() > 0 { let %s = a_.remove(0);\n'
                   '                let o_ = %s;\n'
                   '                match o_ { Some(e_) => { out_.push(e_); } None => {} } }\n'
                   '            out_ }' % (a, pat, expr))
        body = body[:s] + new + body[pc + 1 + mc.end():]
        start = s
        n += 1
    return body, n


def C_INTO_ITER_FILTER_MAP_COLLECT_VEC(body, ctx):
    """`A.into_iter().filter_map(|PAT| BODY).collect()` with A a `Vec`, collected into a `Vec` ->
    `{ let mut a_ = A; let mut out_ = Vec::new();
       while a_.len() > 0 { let PAT = a_.remove(0); let o_ = BODY; match o_ { Some(e_) => { out_.push(e_); } None => {} } }
       out_ }`
    std: `Vec::into_iter` "Creates a consuming iterator, that is, one that moves each value out of the
    vector (from start to end)"; Iterator::filter_map "Creates an iterator that both filters and maps.
    The returned iterator yields only the values for which the supplied closure returns Some(value)";
    `Vec: FromIterator` keeps the order. `a_.remove(0)` ("Removes and returns the element at position
    index within the vector, shifting all elements after it to the left") is the front-to-back move;
    the closure is called once per element, in order, as in the lazy adapter chain driven by
    `collect`. A, PAT and BODY are re-emitted unchanged; A is moved, as `into_iter` does. If A is not a
    `Vec` or the result is another collection the output does not type-check (undecided)."""
    return _into_iter_filter_map(body, 'C_INTO_ITER_FILTER_MAP_COLLECT_VEC', False)


def C_INTO_ITER_ZIP_FILTER_MAP_COLLECT_VEC(body, ctx):
    """`A.into_iter().zip(B).filter_map(|PAT| BODY).collect()` with A, B `Vec`s, collected into a `Vec` ->
    `{ let mut a_ = A; let mut b_ = B; let mut out_ = Vec::new();
       while a_.len() > 0 && b_.len() > 0 { let PAT = (a_.remove(0), b_.remove(0)); let o_ = BODY;
           match o_ { Some(e_) => { out_.push(e_); } None => {} } }
       out_ }`
    std, Iterator::zip: "'Zips up' two iterators into a single iterator of pairs ... returns a new
    iterator that will iterate over two other iterators, returning a tuple where the first element
    comes from the first iterator, and the second element comes from the second iterator. If either
    iterator returns None, next from the zipped iterator will return None" (the argument is any
    IntoIterator: a `Vec` is consumed from start to end). The pair is built BEFORE the closure runs,
    so the i-th element of A always meets the i-th element of B, whatever the closure returns for
    earlier pairs. Remaining elements of the longer vector are dropped unobserved. Otherwise as
    C_INTO_ITER_FILTER_MAP_COLLECT_VEC. A, B, PAT and BODY are re-emitted unchanged."""
    return _into_iter_filter_map(body, 'C_INTO_ITER_ZIP_FILTER_MAP_COLLECT_VEC', True)
