"""Desugaring rules of the NET unit family (DESIGN.md 3.2, rules R10 / R11 / R14 for maps and iterators).

Same discipline as rules.py: every rule is a generic syntactic idiom with captures; captured
sub-expressions (receiver M, key K, default D, operands, method names and argument lists, whole arm
bodies) are re-emitted unchanged, so an edit inside them still reaches the verifier. A rule returns
(new_body, times_fired); a rule that meets its idiom in a shape it does not cover raises LostAnchor
(undecided), never guesses.

What is trusted per rule (assumptions A-R10 / A-R11) is the std documentation of the `Entry` API:
  * `M.entry(K)` is `Occupied` iff `M.contains_key(&K)`;
  * `OccupiedEntry::get()` / `get_mut()` / `into_mut()` refer to the value stored under K, `remove()` removes
    the entry; `or_insert(D)` / `or_insert_with(F)` insert D / F() if the entry is vacant and return a
    reference to the value in the entry;
  * removing a value and re-inserting the modified value under an equal key leaves the same abstract
    map as modifying it in place (only the allocation moment differs), cf. R14.
The temporaries introduced by the rules end in `_` (`k_`, `v_`, `x_`, `r1_`); contracts and hints never mention
them, with one documented exception: the accumulator `sum_` and the ghost iterator `it_` of the loops that R11S
generates are the names the loop invariants of the unit must use.
"""
import re

from extract import LostAnchor, code_mask, find_top, match_close
from rules import IDENT

CHAIN = r'%s(?:\s*\.\s*%s)*' % (IDENT, IDENT)          # receiver: a place expression `a.b.c`
PATHPFX = r'(?:%s\s*::\s*)*' % IDENT                    # `hash_map::Entry::` / `Entry::` / ``


def _skip_ws(text, k):
    while k < len(text) and text[k] in ' \t\r\n':
        k += 1
    return k


def _code_matches(rx, text, mask=None):
    mask = mask or code_mask(text)
    return [m for m in re.finditer(rx, text) if mask[m.start()]]


def _ident_uses(text, name):
    mask = code_mask(text)
    return [m for m in re.finditer(r'(?<![A-Za-z0-9_])' + re.escape(name) + r'(?![A-Za-z0-9_])', text) if mask[m.start()]]


def _call_args(text, open_paren, mask=None):
    """text[open_paren] == '(' -> (inner text, index after the closing paren)"""
    pc = match_close(text, open_paren, mask)
    return text[open_paren + 1:pc], pc + 1


def _match_open(text, k, mask):
    """text[k] is a closing bracket; index of its opening partner (scanning backwards)."""
    pairs = {')': '(', ']': '[', '}': '{'}
    depth = 0
    for j in range(k, -1, -1):
        if not mask[j]:
            continue
        c = text[j]
        if c in pairs:
            depth += 1
        elif c in pairs.values():
            depth -= 1
            if depth == 0:
                return j
    raise LostAnchor('unbalanced bracket (backwards)')


def _postfix_start(text, end, mask):
    """Start index of the postfix expression (idents, `.`, `::`, call / index brackets) that ends at `end`
    (exclusive). Prefix operators (`&`, `*`, `!`, `-`) are not part of it."""
    k = end
    while True:
        j = k
        while j > 0 and text[j - 1] in ' \t\r\n':
            j -= 1
        if j == 0:
            return k
        c = text[j - 1]
        if c in ')]' and mask[j - 1]:
            k = _match_open(text, j - 1, mask)
            # a call / index needs a callee in front of it, a parenthesised expression does not
            jj = k
            while jj > 0 and text[jj - 1] in ' \t\r\n':
                jj -= 1
            if jj > 0 and (text[jj - 1].isalnum() or text[jj - 1] in '_)]'):
                continue
            return k
        if c.isalnum() or c == '_':
            while j > 0 and (text[j - 1].isalnum() or text[j - 1] == '_'):
                j -= 1
            k = j
            jj = k
            while jj > 0 and text[jj - 1] in ' \t\r\n':
                jj -= 1
            if jj > 0 and text[jj - 1] == '.' and not (jj > 1 and text[jj - 2] == '.'):
                k = jj - 1
                continue
            if jj > 1 and text[jj - 2:jj] == '::':
                k = jj - 2
                continue
            return k
        return k


def _parse_arms(text):
    """text = inside of `match .. { <here> }` -> [(pattern, body, body_is_block)]"""
    mask = code_mask(text)
    arms, k = [], 0
    while True:
        k = _skip_ws(text, k)
        if k >= len(text):
            break
        ma = find_top(text, r'=>', k, mask)
        if not ma:
            raise LostAnchor('match arm without `=>`')
        pat = text[k:ma.start()].strip()
        b = _skip_ws(text, ma.end())
        if b < len(text) and text[b] == '{':
            cb = match_close(text, b, mask)
            body, is_block = text[b + 1:cb], True
            k = _skip_ws(text, cb + 1)
            if k < len(text) and text[k] == ',':
                k += 1
        else:
            mc = find_top(text, r',', b, mask)
            e = mc.start() if mc else len(text)
            body, is_block = text[b:e].strip(), False
            k = e + 1
        arms.append((pat, body, is_block))
    return arms


def _entry_arms(arms, what):
    """-> (occupied binder or None, occupied body, occ_is_block, vacant body, vac_is_block)"""
    occ = vac = None
    for pat, body, blk in arms:
        mo = re.match(r'^%sOccupied\s*\(\s*(?:mut\s+)?(%s)\s*\)$' % (PATHPFX, IDENT), pat)
        mv = re.match(r'^%sVacant\s*\(\s*_\s*\)$' % PATHPFX, pat)
        if mo and occ is None:
            occ = (mo.group(1), body, blk)
        elif mv and vac is None:
            vac = (body, blk)
        else:
            raise LostAnchor('%s: arm pattern `%s` is not Occupied(x) / Vacant(_)' % (what, pat))
    if occ is None or vac is None:
        raise LostAnchor('%s: needs exactly one Occupied and one Vacant arm' % what)
    return occ[0], occ[1], occ[2], vac[0], vac[1]


def R10A(body, ctx):
    """`*M.entry(K).or_insert(D) OP= N;`  (OP in + -)
    -> `{ let k_ = K; let v_ = match M.get(&k_) { Some(x_) => *x_, None => D }; M.insert(k_, v_ OP N); }`"""
    n = 0
    while True:
        mask = code_mask(body)
        ms = _code_matches(r'\*\s*(%s)\s*\.\s*entry\s*\(' % CHAIN, body, mask)
        hit = None
        for m in ms:
            key, k = _call_args(body, m.end() - 1, mask)
            mo = re.compile(r'\s*\.\s*or_insert\s*\(').match(body, k)
            if not mo:
                continue
            dflt, k = _call_args(body, mo.end() - 1, mask)
            mop = re.compile(r'\s*([+\-])=(?!=)').match(body, k)
            if not mop:
                continue
            semi = find_top(body, r';', mop.end(), mask)
            if not semi:
                raise LostAnchor('R10A: compound assignment without `;`')
            hit = (m.start(), semi.end(), m.group(1), key, dflt, mop.group(1), body[mop.end():semi.start()].strip())
            break
        if not hit:
            break
        a, b, recv, key, dflt, op, rhs = hit
        new = ('{ let k_ = %s; let v_ = match %s.get(&k_) { Some(x_) => *x_, None => %s }; %s.insert(k_, v_ %s %s); }'
               % (key, recv, dflt, recv, op, rhs))
        body = body[:a] + new + body[b:]
        n += 1
    return body, n


def R10B(body, ctx):
    """`M.entry(K).or_insert_with(|| F).METHOD(ARGS);`
    -> `{ let k_ = K; let mut v_ = match M.remove(&k_) { Some(x_) => x_, None => F }; v_.METHOD(ARGS); M.insert(k_, v_); }`"""
    n = 0
    while True:
        mask = code_mask(body)
        hit = None
        for m in _code_matches(r'(?<![A-Za-z0-9_.])(%s)\s*\.\s*entry\s*\(' % CHAIN, body, mask):
            key, k = _call_args(body, m.end() - 1, mask)
            mo = re.compile(r'\s*\.\s*or_insert_with\s*\(').match(body, k)
            if not mo:
                continue
            clo, k = _call_args(body, mo.end() - 1, mask)
            mc = re.match(r'\s*\|\s*\|\s*(.*)$', clo, re.S)
            if not mc:
                raise LostAnchor('R10B: or_insert_with argument is not a `|| F` closure')
            mm = re.compile(r'\s*\.\s*(%s)\s*\(' % IDENT).match(body, k)
            if not mm:
                raise LostAnchor('R10B: or_insert_with(..) not followed by a method call')
            args, k = _call_args(body, mm.end() - 1, mask)
            k2 = _skip_ws(body, k)
            if k2 >= len(body) or body[k2] != ';':
                raise LostAnchor('R10B: value of the method call on the entry is used')
            hit = (m.start(), k2 + 1, m.group(1), key, mc.group(1).strip(), mm.group(1), args)
            break
        if not hit:
            break
        a, b, recv, key, mk, meth, args = hit
        new = ('{ let k_ = %s; let mut v_ = match %s.remove(&k_) { Some(x_) => x_, None => %s }; v_.%s(%s); %s.insert(k_, v_); }'
               % (key, recv, mk, meth, args, recv))
        body = body[:a] + new + body[b:]
        n += 1
    return body, n


def _rewrite_occupied_uses(text, e, recv, kvar, what, allow_into_mut):
    """Rewrite every use of the occupied-entry binder `e` inside `text`; all uses must be one of the
    covered forms (std, OccupiedEntry: `get` "Gets a reference to the value in the entry", `get_mut` "Gets a mutable
    reference to the value in the entry", `into_mut` "Converts the OccupiedEntry into a mutable reference to the value
    in the entry", `insert` "Sets the value of the entry, and returns the entry's old value", `remove` "Takes the
    value out of the entry, and returns it"):
    e.get()  |  e.remove();  |  *e.get_mut() OP= X;  |  *e.get_mut() = X;  |  e.insert(X);  |
    e.into_mut().METHOD(ARGS);  |  e.get_mut().METHOD(ARGS);"""
    uses = len(_ident_uses(text, e))
    done = 0
    E = re.escape(e)
    # *e.get_mut() OP= X;   and the plain assignment   *e.get_mut() = X;
    while True:
        mask = code_mask(text)
        ms = _code_matches(r'\*\s*(?<![A-Za-z0-9_])%s\s*\.\s*get_mut\s*\(\s*\)\s*([+\-]?)=(?!=)' % E, text, mask)
        if not ms:
            break
        m = ms[0]
        semi = find_top(text, r';', m.end(), mask)
        if not semi:
            raise LostAnchor('%s: `*%s.get_mut() OP= ..` without `;`' % (what, e))
        rhs = text[m.end():semi.start()].strip()
        if m.group(1):
            new = '{ let v_ = *%s.get(&%s).unwrap(); %s.insert(%s, v_ %s %s); }' % (recv, kvar, recv, kvar, m.group(1), rhs)
        else:
            new = '{ let v_ = %s; %s.insert(%s, v_); }' % (rhs, recv, kvar)
        text = text[:m.start()] + new + text[semi.end():]
        done += 1
    # e.insert(X);   (the old value it returns is dropped)
    while True:
        mask = code_mask(text)
        ms = _code_matches(r'(?<![A-Za-z0-9_.])%s\s*\.\s*insert\s*\(' % E, text, mask)
        if not ms:
            break
        m = ms[0]
        args, k = _call_args(text, m.end() - 1, mask)
        k2 = _skip_ws(text, k)
        if k2 >= len(text) or text[k2] != ';':
            raise LostAnchor('%s: value of `%s.insert(..)` is used' % (what, e))
        new = '{ let v_ = %s; %s.insert(%s, v_); }' % (args, recv, kvar)
        text = text[:m.start()] + new + text[k2 + 1:]
        done += 1
    # e.into_mut().METHOD(ARGS);   e.get_mut().METHOD(ARGS);
    while True:
        mask = code_mask(text)
        ms = _code_matches(r'(?<![A-Za-z0-9_.])%s\s*\.\s*(into_mut|get_mut)\s*\(\s*\)\s*\.\s*(%s)\s*\(' % (E, IDENT), text, mask)
        if not ms:
            break
        m = ms[0]
        if m.group(1) == 'into_mut' and not allow_into_mut:
            raise LostAnchor('%s: `%s.into_mut()` where the entry is still needed' % (what, e))
        args, k = _call_args(text, m.end() - 1, mask)
        k2 = _skip_ws(text, k)
        if k2 >= len(text) or text[k2] != ';':
            raise LostAnchor('%s: value of `%s.%s().%s(..)` is used' % (what, e, m.group(1), m.group(2)))
        new = ('{ let mut v_ = %s.remove(&%s).unwrap(); v_.%s(%s); %s.insert(%s, v_); }'
               % (recv, kvar, m.group(2), args, recv, kvar))
        text = text[:m.start()] + new + text[k2 + 1:]
        done += 1
    # e.remove();
    while True:
        mask = code_mask(text)
        ms = _code_matches(r'(?<![A-Za-z0-9_.])%s\s*\.\s*remove\s*\(\s*\)\s*;' % E, text, mask)
        if not ms:
            break
        m = ms[0]
        text = text[:m.start()] + '%s.remove(&%s);' % (recv, kvar) + text[m.end():]
        done += 1
    # e.get()
    while True:
        mask = code_mask(text)
        ms = _code_matches(r'(?<![A-Za-z0-9_.])%s\s*\.\s*get\s*\(\s*\)' % E, text, mask)
        if not ms:
            break
        m = ms[0]
        text = text[:m.start()] + '%s.get(&%s).unwrap()' % (recv, kvar) + text[m.end():]
        done += 1
    if done != uses or _ident_uses(text, e):
        raise LostAnchor('%s: entry binder `%s` used outside the covered forms (get / get_mut OP= / into_mut().m(..); / remove();)' % (what, e))
    return text


def R10C(body, ctx):
    """`match M.entry(K) { P::Occupied(mut e) => { B1 } P::Vacant(_) => { B2 } }` (arms in either order)
    -> `{ let k_ = K; if M.contains_key(&k_) { B1' } else { B2 } }` where B1' is B1 with
       `e.get()` -> `M.get(&k_).unwrap()`,  `e.remove();` -> `M.remove(&k_);`,
       `*e.get_mut() OP= X;` -> `{ let v_ = *M.get(&k_).unwrap(); M.insert(k_, v_ OP X); }`.
    Only a `match` in statement / arm position (not the initialiser of a `let`, see R10D)."""
    n = 0
    start = 0
    while True:
        mask = code_mask(body)
        hit = None
        for m in _code_matches(r'(?<![A-Za-z0-9_])match\s+(%s)\s*\.\s*entry\s*\(' % CHAIN, body, mask):
            if m.start() < start:
                continue
            # skip `let X = match ..` (R10D)
            pre = body[:m.start()].rstrip()
            if pre.endswith('='):
                continue
            key, k = _call_args(body, m.end() - 1, mask)
            ob = _skip_ws(body, k)
            if ob >= len(body) or body[ob] != '{':
                continue
            cb = match_close(body, ob, mask)
            hit = (m.start(), cb + 1, m.group(1), key, body[ob + 1:cb])
            break
        if not hit:
            break
        a, b, recv, key, inner = hit
        e, b1, _, b2, vblk = _entry_arms(_parse_arms(inner), 'R10C')
        b1 = _rewrite_occupied_uses(b1, e, recv, 'k_', 'R10C', allow_into_mut=True)
        if not vblk:
            b2 = b2 + ';'
        new = '{ let k_ = %s; if %s.contains_key(&k_) {%s} else {%s} }' % (key, recv, b1, b2)
        body = body[:a] + new + body[b:]
        start = a + len(new)
        n += 1
    return body, n


def R10D(body, ctx):
    """`let [mut] X = match M.entry(K) { P::Vacant(_) => DIVERGE, P::Occupied(y) => y, };  REST-OF-BLOCK`
    (DIVERGE is `panic!(..)` / `unreachable!(..)`) ->
    `let k_X = K; if !M.contains_key(&k_X) { DIVERGE; }  REST'` where REST' is REST with
       `X.get()` -> `M.get(&k_X).unwrap()`,  `X.remove();` -> `M.remove(&k_X);`,
       `X.into_mut().METHOD(ARGS);` / `X.get_mut().METHOD(ARGS);` -> `{ let mut v_ = M.remove(&k_X).unwrap(); v_.METHOD(ARGS); M.insert(k_X, v_); }`
    (and the other forms of `_rewrite_occupied_uses`)."""
    n = 0
    while True:
        mask = code_mask(body)
        hit = None
        for m in _code_matches(r'(?<![A-Za-z0-9_])let\s+(?:mut\s+)?(%s)\s*=\s*match\s+(%s)\s*\.\s*entry\s*\(' % (IDENT, CHAIN), body, mask):
            key, k = _call_args(body, m.end() - 1, mask)
            ob = _skip_ws(body, k)
            if ob >= len(body) or body[ob] != '{':
                continue
            cb = match_close(body, ob, mask)
            semi = _skip_ws(body, cb + 1)
            if semi >= len(body) or body[semi] != ';':
                raise LostAnchor('R10D: `let X = match M.entry(K) {..}` without `;`')
            hit = (m.start(), semi + 1, m.group(1), m.group(2), key, body[ob + 1:cb])
            break
        if not hit:
            break
        a, b, x, recv, key, inner = hit
        y, b1, oblk, b2, vblk = _entry_arms(_parse_arms(inner), 'R10D')
        if oblk or b1.strip() != y:
            raise LostAnchor('R10D: the Occupied arm must return its binder unchanged')
        if vblk or not re.match(r'^(panic|unreachable)!\s*\(', b2.strip()):
            raise LostAnchor('R10D: the Vacant arm must be panic!(..) / unreachable!(..)')
        # the rest of the enclosing block
        depth, end = 0, None
        for j in range(b, len(body)):
            if not mask[j]:
                continue
            c = body[j]
            if c in '([{':
                depth += 1
            elif c in ')]}':
                if depth == 0:
                    end = j
                    break
                depth -= 1
        if end is None:
            end = len(body)
        kvar = 'k_' + x
        rest = _rewrite_occupied_uses(body[b:end], x, recv, kvar, 'R10D', allow_into_mut=True)
        new = 'let %s = %s; if !%s.contains_key(&%s) { %s; }' % (kvar, key, recv, kvar, b2.strip())
        body = body[:a] + new + rest + body[end:]
        n += 1
    return body, n


def R11P(body, ctx):
    """`Q.iter().position(|x| x == &E)` / `Q.iter().position(|x| *x == E)` (Q an expression of type `&VecDeque<T>`) -> `deque_position_eq(Q, &E)`
    (prelude/net.rs: the index of the first element equal to E, transcribed from Iterator::position)."""
    n = 0
    while True:
        mask = code_mask(body)
        ms = _code_matches(r'\.\s*iter\s*\(\s*\)\s*\.\s*position\s*\(', body, mask)
        if not ms:
            break
        m = ms[0]
        clo, k = _call_args(body, m.end() - 1, mask)
        # `|x| x == &E`, or the same comparison spelled `|x| *x == E` (both are `PartialEq::eq(x, &E)`: std `impl PartialEq<&B>
        # for &A` "forwards to" the comparison of the referents)
        mc = (re.match(r'^\s*\|\s*(%s)\s*\|\s*(%s)\s*==\s*&\s*(.+?)\s*$' % (IDENT, IDENT), clo, re.S)
              or re.match(r'^\s*\|\s*(%s)\s*\|\s*\*\s*(%s)\s*==\s*(?!&)(.+?)\s*$' % (IDENT, IDENT), clo, re.S))
        if not mc or mc.group(1) != mc.group(2):
            raise LostAnchor('R11P: position closure is not `|x| x == &E` / `|x| *x == E`')
        needle = mc.group(3)
        if _ident_uses(needle, mc.group(1)) or find_top(needle, r'==|&&|\|\|'):
            raise LostAnchor('R11P: position closure is not `|x| x == &E`')
        s = _postfix_start(body, m.start(), mask)
        recv = body[s:m.start()].strip()
        if not recv:
            raise LostAnchor('R11P: no receiver in front of `.iter().position(..)`')
        body = body[:s] + 'deque_position_eq(%s, &%s)' % (recv, needle) + body[k:]
        n += 1
    return body, n


INT_TYPES = ('usize', 'u8', 'u16', 'u32', 'u64', 'u128', 'isize', 'i8', 'i16', 'i32', 'i64', 'i128')


def R11S(body, ctx):
    """`M.values().sum()`         -> `{ let mut sum_: T = 0; for kv_ in it_: M.iter() { sum_ += *kv_.1; } sum_ }`
    `M.values().map(F).sum()`  -> `{ let mut sum_: T = 0; for kv_ in it_: M.iter() { sum_ += F(kv_.1); } sum_ }`
    (F a path to a function, e.g. `VecDeque::len`; T the integer return type of the enclosing function, of
    which the `sum()` must be the value). Trusted (A-R11): `values()` yields exactly the value components of
    the pairs `iter()` yields ("an iterator visiting all values / all key-value pairs", same order), and
    `Iterator::sum` adds the items up starting from zero with overflow-checked `+`. The loop exposes the
    Verus ghost iterator as `it_`; loop invariants of the unit refer to `sum_` and `it_` (documented names)."""
    t = (ctx.get('ret') or '').strip()
    n = 0
    while True:
        mask = code_mask(body)
        ms = _code_matches(r'\.\s*values\s*\(\s*\)\s*(?:\.\s*map\s*\(\s*((?:%s\s*::\s*)*%s)\s*\)\s*)?\.\s*sum\s*\(\s*\)' % (IDENT, IDENT), body, mask)
        if not ms:
            break
        m = ms[0]
        if t not in INT_TYPES:
            raise LostAnchor('R11S: `.sum()` in a function whose return type `%s` is not a primitive integer' % t)
        s = _postfix_start(body, m.start(), mask)
        recv = body[s:m.start()].strip()
        if not re.match(r'^%s$' % CHAIN, recv):
            raise LostAnchor('R11S: receiver of `.values()` is not a place expression')
        # the sum must be the value of an arm / the function: followed by `,` or `}` or end of body
        k = _skip_ws(body, m.end())
        if k < len(body) and body[k] not in ',}':
            raise LostAnchor('R11S: the value of `.sum()` is used in a larger expression')
        item = '%s(kv_.1)' % m.group(1) if m.group(1) else '*kv_.1'
        new = '{ let mut sum_: %s = 0; for kv_ in it_: %s.iter() { sum_ += %s; } sum_ }' % (t, recv, item)
        body = body[:s] + new + body[m.end():]
        n += 1
    return body, n


def R11M(body, ctx):
    """`I.next().map(|PAT| BODY)` -> `match I.next() { Some(PAT') => Some(BODY'), None => None }`
    (`Option::map`: "Maps an Option<T> to an Option<U> by applying a function to a contained value (if Some)
    or returns None (if None)"). Verus has no closures with pattern parameters or with captured `&mut`
    state; the match is the inlined closure. A reference sub-pattern `&(a, b)` inside PAT (unsupported by
    Verus) becomes a fresh binder `r_` with `let (a, b) = *r_;` in front of BODY (the tuple is `Copy`, else
    rustc rejects the result and the unit is undecided)."""
    n = 0
    while True:
        mask = code_mask(body)
        ms = _code_matches(r'\.\s*next\s*\(\s*\)\s*\.\s*map\s*\(', body, mask)
        if not ms:
            break
        m = ms[0]
        clo, k = _call_args(body, m.end() - 1, mask)
        cm = code_mask(clo)
        a = _skip_ws(clo, 0)
        if a >= len(clo) or clo[a] != '|':
            raise LostAnchor('R11M: argument of map is not a closure')
        mb = find_top(clo, r'\|', a + 1, cm)
        if not mb:
            raise LostAnchor('R11M: closure parameter list not closed')
        pat = clo[a + 1:mb.start()].strip()
        cbody = clo[mb.end():].strip()
        if not pat or not cbody or find_top(pat, r',') or ':' in pat:
            raise LostAnchor('R11M: closure must have exactly one untyped parameter')
        lets = ''
        cnt = 0
        while True:
            mr = re.search(r'&\s*\(\s*(%s(?:\s*,\s*%s)*)\s*\)' % (IDENT, IDENT), pat)
            if not mr:
                break
            cnt += 1
            name = 'r%d_' % cnt
            lets += 'let (%s) = *%s; ' % (mr.group(1), name)
            pat = pat[:mr.start()] + name + pat[mr.end():]
        if '&' in pat:
            raise LostAnchor('R11M: reference pattern of an unsupported shape in `%s`' % pat)
        if lets:
            if cbody.startswith('{') and match_close(cbody, 0) == len(cbody) - 1:
                cbody = '{ ' + lets + cbody[1:]
            else:
                cbody = '{ ' + lets + cbody + ' }'
        s = _postfix_start(body, m.start(), mask)
        recv = body[s:m.start()].strip()
        if not recv:
            raise LostAnchor('R11M: no receiver in front of `.next().map(..)`')
        new = 'match %s.next() { Some(%s) => Some(%s), None => None }' % (recv, pat, cbody)
        body = body[:s] + new + body[k:]
        n += 1
    return body, n


def P_FOR_OWNED(body, ctx):
    """A parameter `P: impl IntoIterator<Item = T>` (T an owned type) whose only use is `for X in P { B }` (or `for X in P.into_iter() { B }`)
    -> `P: Vec<T>` and `for X in it_: P { B }`.
    The function consumes the iterable once, front to back; a Vec is the finite sequence of items any such
    iterable yields (iterables that never end or have side effects are outside the contract; cf. P_FOR_REFS of
    rules_path.py for `Item = &T`). X and B are re-emitted unchanged; the loop keeps being a `for` loop over the
    items in order, `it_` only names Verus' ghost iterator for the loop invariants of the unit."""
    n = 0
    rxp = re.compile(r'(?<![A-Za-z0-9_])(%s)\s*:\s*impl\s+IntoIterator\s*<\s*Item\s*=\s*' % IDENT)
    while True:
        m = rxp.search(ctx['params'])
        if not m:
            break
        p = m.group(1)
        # the item type runs to the matching `>` of `IntoIterator<`
        depth, k = 1, m.end()
        params = ctx['params']
        while k < len(params) and depth:
            c = params[k]
            if c == '<':
                depth += 1
            elif c == '>' and params[k - 1] != '-':
                depth -= 1
            k += 1
        if depth:
            raise LostAnchor('P_FOR_OWNED: unbalanced `<` in the parameter list')
        item = params[m.end():k - 1].strip()
        if item.startswith('&'):
            raise LostAnchor('P_FOR_OWNED: item type `%s` is a reference (use P_FOR_REFS)' % item)
        mask = code_mask(body)
        uses = _ident_uses(body, p)
        mf = None
        # `for X in P {` or, spelled out, `for X in P.into_iter() {` (what the `for` loop calls on P anyway)
        for f in re.finditer(r'(?<![A-Za-z0-9_.])for\s+(.+?)\s+in\s+' + re.escape(p) + r'(?:\s*\.\s*into_iter\s*\(\s*\))?\s*\{', body):
            if mask[f.start()]:
                mf = f
                break
        if not mf or len(uses) != 1:
            raise LostAnchor('P_FOR_OWNED: parameter `%s` is not consumed by exactly one `for X in %s`' % (p, p))
        body = body[:mf.start()] + 'for %s in it_: %s {' % (mf.group(1), p) + body[mf.end():]
        ctx['params'] = params[:m.start()] + '%s: Vec<%s>' % (p, item) + params[k:]
        n += 1
    return body, n


def R_WRAP(body, ctx):
    """Type names `HashableHashSet` / `HashableHashMap` in a body -> `HashSet` / `HashMap` (assumption A-NET-WRAP of
    prelude/net.rs: the wrappers are newtypes that deref to the std collections; the `/*@item` directives map the
    field types the same way). Arguments of the calls are kept (`with_hasher(crate::stable::build_hasher())`)."""
    from rules import _ident_replace
    body, a = _ident_replace(body, 'HashableHashSet', 'HashSet')
    body, b = _ident_replace(body, 'HashableHashMap', 'HashMap')
    return body, a + b
