"""Desugaring rules of the LOOP unit (/repo/src/actor/spawn.rs, the per-actor thread body of `spawn`: start prologue
and one iteration of the event loop; property C17; DESIGN.md 3.2).

Same conventions as rules.py: every rule is a generic syntactic idiom with captures, captured sub-expressions are
re-emitted unchanged (an edit inside them still reaches the verifier), `RULE(body, ctx) -> (new_body, fired_count)`,
and a rule that meets its idiom in a shape it does not cover raises LostAnchor (undecided) rather than guess.
The prelude items the rules refer to are in vx/prelude/loop.rs (and vx/prelude/spawn.rs for `Socket`, `FnRef1`).

  SOCK_VALUE         a socket OWNED by the text under contract: parameter `P: UdpSocket` or local
                     `let P = UdpSocket::bind(ARGS)..;`  -> `Socket` (A-SOCK), made `mut`; every `&P` -> `&mut P`
  FNPTR_VALUES       parameters `P: fn(&T) -> R` -> `FnRef1<T, R>`, `P: fn(&[T]) -> R` -> `FnSlice1<T, R>`;
                     calls `P(ARGS)` -> `P.call(ARGS)`; `P` handed on as a bare call argument stays          (A-PURE)
  MIN_BY_VALUE       `M.iter().min_by_key(|(_, V)| *V)`         -> `min_by_value(&M)`
  OPT_UNWRAP_OR_ELSE `OPT.unwrap_or_else(|| E)`                  -> `(match OPT { Some(v_) => v_, None => E })`
  LOG_ONLY_IF        `if COND { }` (block empty once logging is dropped, no else; COND = comparisons of zero-argument
                     method calls / paths)                        -> dropped
  CONTINUE_RETURNS   (a loop BODY wrapped as a function) `continue` -> `return RETURNS`
"""
import re

from extract import LostAnchor, code_mask, find_top, match_close
from rules_closure import _receiver_start, _first
from rules_spawn import _split_top_commas, _ident_uses, _skip_ws, _closure

IDENT = r'[A-Za-z_][A-Za-z0-9_]*'
CHAIN = r'%s(?:\s*\.\s*%s)*' % (IDENT, IDENT)


def _prev_code_char(text, k):
    k -= 1
    while k >= 0 and text[k] in ' \t\r\n':
        k -= 1
    return k


def SOCK_VALUE(body, ctx):
    """Assumption A-SOCK for a socket the text under contract OWNS (rules_spawn.SOCK_PARAM is the borrowed case).
    (a) a by-value parameter `P: UdpSocket` becomes `P: Socket` and the body starts with `let mut P = P;`;
    (b) a local `let P = [std::net::]UdpSocket::bind(ARGS) REST;` becomes `let mut P = Socket::bind(ARGS) REST;`
        (ARGS and REST - e.g. `.unwrap()` - unchanged; `Socket::bind` of prelude/loop.rs carries the std contract);
    in both cases every shared borrow `&P` becomes `&mut P` (the callee's model of the socket carries the ghost
    datagram log, see SOCK_PARAM), and `UdpSocket` in the return type becomes `Socket`.  `P.method(..)` is left alone
    (auto-reborrow).  P may also be moved out as a whole in the wrapper's `returns:` tuple / a `return` of it.
    Any other use of P (a copy of the handle escaping: `let q = P`, `f(P)`) is a lost anchor."""
    n = 0
    names = []
    params = _split_top_commas(ctx['params'])
    out = []
    for p in params:
        m = re.match(r'^\s*(mut\s+)?(%s)\s*:\s*((?:%s\s*::\s*)*UdpSocket)\s*$' % (IDENT, IDENT), p, re.S)
        if not m:
            out.append(p.strip())
            continue
        names.append(m.group(2))
        out.append('%s: Socket' % m.group(2))
        body = '\n        let mut %s = %s;' % (m.group(2), m.group(2)) + body
        n += 1
    if n:
        ctx['params'] = ', '.join(out)
    rx = re.compile(r'(?<![A-Za-z0-9_])let\s+(mut\s+)?(%s)\s*=\s*((?:%s\s*::\s*)*UdpSocket)\s*::\s*bind\s*\(' % (IDENT, IDENT))
    while True:
        mask = code_mask(body)
        m = _first(rx, body, mask)
        if not m:
            break
        names.append(m.group(2))
        body = body[:m.start()] + 'let mut %s = Socket::bind(' % m.group(2) + body[m.end():]
        n += 1
    if not names:
        return body, 0
    if ctx.get('ret') and re.search(r'(?<![A-Za-z0-9_])UdpSocket\b', ctx['ret']):
        ctx['ret'] = re.sub(r'(?<![A-Za-z0-9_])(?:%s\s*::\s*)*UdpSocket\b' % IDENT, 'Socket', ctx['ret'])
    for name in names:
        pieces, pos = [], 0
        for u in _ident_uses(body, name):
            after = body[u.end():]
            before = body[:u.start()]
            if re.match(r'\s*\.\s*%s\s*\(' % IDENT, after):
                continue                                              # P.method(..)
            if re.search(r'let\s+mut\s+$', before) or re.search(r'let\s+mut\s+%s\s*=\s*$' % re.escape(name), before):
                continue                                              # the binding this rule wrote
            mb = re.search(r'&\s*(mut\s+)?$', before)
            if mb:
                if not mb.group(1):
                    pieces.append(body[pos:mb.start()])
                    pieces.append('&mut ')
                    pos = u.start()
                    n += 1
                continue
            # moved out as a component of a returned tuple (`returns:` tail or `return ( .. )`)
            pc = _prev_code_char(body, u.start())
            k = _skip_ws(body, u.end())
            if pc >= 0 and body[pc] in '(,' and k < len(body) and body[k] in ',)' and _in_return_tuple(body, u.start()):
                continue
            raise LostAnchor('SOCK_VALUE: socket `%s` used other than as `%s.method(..)`, `&%s` or a returned component' % (name, name, name))
        pieces.append(body[pos:])
        body = ''.join(pieces)
    return body, n


def _in_return_tuple(body, k):
    """is position k inside the parenthesised expression of a `return ( .. )` or of the tail expression of the body?"""
    mask = code_mask(body)
    depth = 0
    j = k
    while j >= 0:
        if mask[j]:
            if body[j] in ')]}':
                depth += 1
            elif body[j] in '([{':
                if depth == 0:
                    break
                depth -= 1
        j -= 1
    if j < 0 or body[j] != '(':
        return False
    pre = body[:j].rstrip()
    if re.search(r'(?<![A-Za-z0-9_])return$', pre):
        return True
    pc = match_close(body, j, mask)
    return body[pc + 1:].strip() == '' and (pre == '' or pre[-1] in ';}')


def FNPTR_VALUES(body, ctx):
    """Assumption A-PURE (as rules_spawn.FNPTR_PARAM, which covers a fn pointer that is only called).
    A parameter `P: fn(&T) -> R` becomes `P: FnRef1<T, R>` (prelude/spawn.rs); a parameter `P: fn(&[T]) -> R`, whose
    argument is an unsized slice, becomes `P: FnSlice1<T, R>` (prelude/loop.rs: `call(&[T]) -> R` returns the pure
    function `apply(P, slice@)`).  Every call `P(ARGS)` becomes `P.call(ARGS)`; an occurrence of P as a whole call
    argument (`g(.., P, ..)`: the pointer is handed on, fn pointers are `Copy`) is left unchanged.
    T, R and ARGS are re-emitted unchanged.  Any other use of P is a lost anchor."""
    params = _split_top_commas(ctx['params'])
    out, names = [], []
    for p in params:
        m = re.match(r'^\s*(%s)\s*:\s*fn\s*\(' % IDENT, p, re.S)
        if not m:
            out.append(p.strip())
            continue
        name = m.group(1)
        po = m.end() - 1
        pc = match_close(p, po)
        args = _split_top_commas(p[po + 1:pc])
        mr = re.match(r'^\s*->\s*(.+?)\s*$', p[pc + 1:], re.S)
        if len(args) != 1 or not mr:
            raise LostAnchor('FNPTR_VALUES: fn-pointer parameter `%s` is not of the shape fn(&T) -> R' % name)
        ma = re.match(r'^\s*(?:%s\s*:\s*)?&\s*(?!mut\b)(.+?)\s*$' % IDENT, args[0], re.S)
        if not ma:
            raise LostAnchor('FNPTR_VALUES: argument of fn-pointer parameter `%s` is not a shared reference' % name)
        ms = re.match(r'^\[\s*(.+?)\s*\]$', ma.group(1), re.S)
        if ms and ';' not in ms.group(1):
            out.append('%s: FnSlice1<%s, %s>' % (name, ms.group(1), mr.group(1)))
        else:
            out.append('%s: FnRef1<%s, %s>' % (name, ma.group(1), mr.group(1)))
        names.append(name)
    if not names:
        return body, 0
    ctx['params'] = ', '.join(out)
    n = len(names)
    for name in names:
        pieces, pos = [], 0
        for u in _ident_uses(body, name):
            k = _skip_ws(body, u.end())
            pc = _prev_code_char(body, u.start())
            prev = body[pc] if pc >= 0 else ''
            if k < len(body) and body[k] == '(' and prev != '.' and body[max(pc - 1, 0):pc + 1] != '::':
                pieces.append(body[pos:u.end()])
                pieces.append('.call')
                pos = u.end()
                n += 1
            elif prev in '(,' and k < len(body) and body[k] in ',)':
                continue                                              # handed on as an argument
            else:
                raise LostAnchor('FNPTR_VALUES: fn-pointer parameter `%s` used other than as a call `%s(..)` or a call argument' % (name, name))
        pieces.append(body[pos:])
        body = ''.join(pieces)
    return body, n


def MIN_BY_VALUE(body, ctx):
    """`M.iter().min_by_key(|(_, V)| *V)`, M a place expression (a map), -> `min_by_value(&M)` (prelude/loop.rs: the
    documented meaning of `HashMap::iter` + `Iterator::min_by_key` with the key function "the value of the entry":
    `None` iff the map is empty, otherwise an entry `(&k, &v)` of the map whose value is minimal).  M is re-emitted
    unchanged.  A key closure of any other shape (`|(k, _)| ..`, `Reverse(..)`, ..) is a lost anchor: it is exactly
    the part that says WHICH entry is picked."""
    n = 0
    rx = re.compile(r'(?<![A-Za-z0-9_.])(%s)\s*\.\s*iter\s*\(\s*\)\s*\.\s*min_by_key\s*\(' % CHAIN)
    while True:
        mask = code_mask(body)
        m = _first(rx, body, mask)
        if not m:
            break
        pc = match_close(body, m.end() - 1, mask)
        clo = _closure(body[m.end():pc], 'MIN_BY_VALUE')
        if not clo:
            raise LostAnchor('MIN_BY_VALUE: min_by_key argument is not a closure written in place')
        mp = re.match(r'^\(\s*_\s*,\s*(%s)\s*\)$' % IDENT, clo[0])
        if not mp or not re.match(r'^\*\s*%s\s*$' % re.escape(mp.group(1)), clo[1]):
            raise LostAnchor('MIN_BY_VALUE: key closure is not `|(_, V)| *V`')
        body = body[:m.start()] + 'min_by_value(&%s)' % re.sub(r'\s+', '', m.group(1)) + body[pc + 1:]
        n += 1
    if n == 0 and re.search(r'\.\s*min_by_key\s*\(', body):
        raise LostAnchor('MIN_BY_VALUE: a min_by_key whose receiver is not `M.iter()`')
    return body, n


def OPT_UNWRAP_OR_ELSE(body, ctx):
    """`OPT.unwrap_or_else(|| E)` -> `(match OPT { Some(v_) => v_, None => E })`.
    std, Option::unwrap_or_else: "Returns the contained Some value or computes it from a closure."  The closure runs
    only for `None`, at most once; OPT is evaluated first, once.  OPT and E are re-emitted unchanged.  A closure that
    takes parameters (`Result::unwrap_or_else(|e| ..)`) or contains `return` / `?` / `break` / `continue` is a lost
    anchor.  If OPT is not an Option the emitted match does not type-check (undecided)."""
    n = 0
    rx = re.compile(r'\.\s*unwrap_or_else\s*\(')
    start = 0
    while True:
        mask = code_mask(body)
        m = _first(rx, body, mask, start)
        if not m:
            break
        pc = match_close(body, m.end() - 1, mask)
        clo = _closure(body[m.end():pc], 'OPT_UNWRAP_OR_ELSE')
        if not clo or clo[0] != '':
            raise LostAnchor('OPT_UNWRAP_OR_ELSE: argument is not a closure `|| E`')
        e = clo[1]
        emask = code_mask(e)
        for mm in re.finditer(r'(?<![A-Za-z0-9_])(return|break|continue)(?![A-Za-z0-9_])|\?', e):
            if emask[mm.start()]:
                raise LostAnchor('OPT_UNWRAP_OR_ELSE: closure body contains `%s`' % mm.group(0))
        s = _receiver_start(body, m.start(), mask, 'OPT_UNWRAP_OR_ELSE')
        opt = body[s:m.start()].strip()
        new = '(match %s { Some(v_) => v_, None => %s })' % (opt, e)
        body = body[:s] + new + body[pc + 1:]
        start = s
        n += 1
    return body, n


_PURE_ATOM = r'(?:&\s*)?%s(?:\s*::\s*%s)*(?:\s*\.\s*%s\s*\(\s*\))*' % (IDENT, IDENT, IDENT)
_PURE_COND = re.compile(r'^\s*!?\s*%s(?:\s*(?:==|!=|<=|>=|<|>|&&|\|\|)\s*!?\s*%s)*\s*$' % (_PURE_ATOM, _PURE_ATOM))


def LOG_ONLY_IF(body, ctx):
    """`if COND { }` with an EMPTY block and no `else` - what is left of `if COND { log::warn!(..); }` once the always-on
    logging drop has run - is dropped together with its condition.  COND must be a comparison / boolean combination of
    paths and ZERO-ARGUMENT method calls on them (`e.kind() != std::io::ErrorKind::WouldBlock`): evaluated for the
    logging decision only, no argument that could be moved or mutated.  Any other condition in front of an empty
    block is left alone (it stays in the text and is verified)."""
    n = 0
    rx = re.compile(r'(?<![A-Za-z0-9_])if\b')
    start = 0
    while True:
        mask = code_mask(body)
        m = _first(rx, body, mask, start)
        if not m:
            break
        start = m.end()
        pre = body[:m.start()].rstrip()
        if re.search(r'(?<![A-Za-z0-9_])else$', pre):
            continue
        mo = find_top(body, r'\{', m.end(), mask)
        if not mo:
            continue
        cb = match_close(body, mo.start(), mask)
        if body[mo.start() + 1:cb].strip() != '':
            continue
        if re.match(r'\s*else\b', body[cb + 1:]):
            continue
        cond = body[m.end():mo.start()]
        if re.match(r'\s*let\b', cond) or not _PURE_COND.match(cond):
            continue
        body = body[:m.start()] + body[cb + 1:]
        start = m.start()
        n += 1
    return body, n


def CONTINUE_RETURNS(body, ctx):
    """The text under contract is the BODY of a `loop { .. }` wrapped as a function whose tail expression (`returns:`)
    hands the loop-carried variables back.  `continue` ends the iteration: `continue` -> `return RETURNS` (RETURNS =
    the `returns:` expression of the directive, re-evaluated at that point).  Only an unlabelled `continue` that is
    not inside a nested loop of the range belongs to the wrapped loop; a labelled one, a `continue` inside a nested
    `for` / `while` / `loop`, or any `break` outside a nested loop (it would leave the event loop: a different exit)
    is a lost anchor."""
    from extract import loop_heads
    ret = ctx.get('returns')
    if not ret:
        raise LostAnchor('CONTINUE_RETURNS: only for /*@fnrange with `returns:`')
    inner = [(ob, cb) for _, ob, cb in loop_heads(body)]
    mask = code_mask(body)
    out, pos, n = [], 0, 0
    for m in re.finditer(r'(?<![A-Za-z0-9_])(continue|break)(?![A-Za-z0-9_])', body):
        if not mask[m.start()]:
            continue
        nested = any(ob < m.start() < cb for ob, cb in inner)
        if m.group(1) == 'break':
            if not nested:
                raise LostAnchor('CONTINUE_RETURNS: `break` out of the wrapped loop')
            continue
        if nested:
            raise LostAnchor('CONTINUE_RETURNS: `continue` inside a nested loop')
        if re.match(r"\s*'", body[m.end():]):
            raise LostAnchor('CONTINUE_RETURNS: labelled `continue`')
        out.append(body[pos:m.start()])
        out.append('return %s' % ret)
        pos = m.end()
        n += 1
    out.append(body[pos:])
    return ''.join(out), n


def EXPECT_EXIT(body, ctx):
    """`RECV.expect("literal")` where RECV is a method call `X.m(ARGS)` -> `expect_or_exit(X.m(ARGS))` (prelude/loop.rs).
    std: `Result::expect` "Returns the contained Ok value, consuming the self value. Panics if the value is an Err, with a
    panic message including the passed message". PARTIAL-CORRECTNESS reading: the call returns only for `Ok(v)`; on `Err`
    the thread panics and makes no further call, so every clause about the calls that DO happen is unaffected. Absence of
    that panic is not claimed (it is not part of C17): with Verus' own spec of `expect` (requires `is_Ok`) the real loop
    does not verify - `set_read_timeout(Some(0 ns))` is an `Err` by std's documentation and the loop passes a zero wait
    when the clock reading equals the earliest deadline (DESIGN 9.3, observation O-C17-1).
    The message literal is dropped (it is only evaluated on the panic path). Must fire at least once."""
    mask = code_mask(body)
    out, pos, n = [], 0, 0
    for m in re.finditer(r'\.expect\(\s*"(?:[^"\\]|\\.)*"\s*\)', body):
        if not mask[m.start()]:
            continue
        # walk back over one balanced `(...)` argument list and the `X.m` path before it
        k = m.start() - 1
        if k < 0 or body[k] != ')':
            raise LostAnchor('EXPECT_EXIT: receiver of .expect(..) is not a method call')
        depth = 0
        while k >= 0:
            if body[k] == ')':
                depth += 1
            elif body[k] == '(':
                depth -= 1
                if depth == 0:
                    break
            k -= 1
        j = k - 1
        while j >= 0 and (body[j].isalnum() or body[j] in '_.:'):
            j -= 1
        start = j + 1
        if start < pos or start >= k:
            raise LostAnchor('EXPECT_EXIT: cannot delimit the receiver of .expect(..)')
        out.append(body[pos:start])
        out.append('expect_or_exit(' + body[start:m.start()] + ')')
        pos = m.end()
        n += 1
    if n == 0:
        raise LostAnchor('EXPECT_EXIT: no `.expect("..")` call')
    out.append(body[pos:])
    return ''.join(out), n
