"""Desugaring rules of unit WL: ONE ITERATION of the worker loop in `spawn` of bfs.rs / dfs.rs / on_demand.rs
(the body of the `loop` inside the closure handed to `std::thread::Builder::spawn`), wrapped in a free function by
`/*@fnrange .. in: .. in: ..`.

Same conventions as rules.py: every rule is a generic syntactic idiom with captures, captured sub-expressions are
re-emitted unchanged, a rule returns (new_body, times_fired) and raises LostAnchor rather than guess.

  W_FLOW       the range is the whole body of a `loop`: `return;` -> `return Flow::Stop;`, a `continue;` of THAT loop ->
               `return Flow::Continue;`, a `break;` of THAT loop -> `return Flow::Stop;` (only if nothing follows the loop)
  W_REF_PARAMS values the closure captured / locals that live across iterations are by-reference parameters of the
               wrapper: `&P` / `&mut P` as a call argument -> `P`, `P = E;` -> `*P = E;`, scalar reads -> `(*P)`
  W_BROKER     `B.pop()` / `B.split_and_push(A)` on the `&mut JobMarket` parameter -> `pop(B)` / `split_and_push(B, A)`
               (R8: a broker method is one critical section on the market)
  W_KEYS       `D.iter().map(|R| *R.key()).collect()` -> `key_set(&*D)`
  W_POSITION   `V.iter().position(|PAT| COND)` -> first-match index loop over `V.get(i)`
  W_LOG        calls of the WL_LOGGED functions receive the erased call log `log_`
"""
import re

from extract import LostAnchor, code_mask, find_top, loop_heads, match_close
from rules import IDENT
from rules_cb import _first_code_match, _split_top_commas

# callees whose calls are recorded in the ghost call log of the unit (rule W_LOG), as they are spelled after W_BROKER
WL_LOGGED = ('Self::check_block', 'pop', 'split_and_push')
# scalar types: a `&mut` parameter of such a type is read through an explicit dereference
_SCALARS = ('bool', 'usize', 'u64', 'u32', 'u8', 'isize', 'i64', 'i32')


def _params(ctx):
    """[(name, is_ref, is_mut, type_text)] of the wrapper signature."""
    out = []
    for p in _split_top_commas(ctx['params']):
        m = re.match(r'\s*(?:mut\s+)?(%s)\s*:\s*(&\s*(mut\s+)?)?(.*)$' % IDENT, p, re.S)
        if m:
            out.append((m.group(1), bool(m.group(2)), bool(m.group(3)), m.group(4).strip()))
    return out


def _closure_blocks(body, mask):
    """(open, close) of every block-bodied closure `|..| {` / `move |..| {` in code."""
    out = []
    for m in re.finditer(r'\|[^|;{}]*\|\s*\{', body):
        if mask[m.start()]:
            ob = m.end() - 1
            out.append((ob, match_close(body, ob, mask)))
    return out


def W_FLOW(body, ctx):
    """The range is the complete body of a `loop { .. }` whose enclosing function (a closure) returns `()`; the wrapper
    returns `Flow` and its tail expression (`returns:`) is `Flow::Continue` = the end of the body was reached.
      `return;`                                   -> `return Flow::Stop;`      (the worker thread ends)
      `continue;` not inside a nested loop        -> `return Flow::Continue;`  (next iteration)
      `break;`    not inside a nested loop        -> `return Flow::Stop;`      only if the `in:` descent recorded that nothing
                                                     follows the loop in its block (the closure then returns at once);
                                                     otherwise LostAnchor (the code after the loop is not in the range)
    `break` / `continue` inside a nested loop of the body belong to that loop and are left alone.  LostAnchor: a
    labelled `break` / `continue`, `break EXPR`, `return EXPR`, or one of the three keywords inside a nested closure."""
    rng = ctx.get('range') or {}
    levels = rng.get('in') or []
    if not levels or not re.sub(r'\s+', '', levels[-1]['anchor']).endswith('loop{'):
        raise LostAnchor('W_FLOW: the innermost `in:` descent is not a `loop {`')
    if rng.get('statements_before') or rng.get('statements_after'):
        raise LostAnchor('W_FLOW: the range is not the whole loop body')
    mask = code_mask(body)
    nested = [(ob, cb) for _, ob, cb in loop_heads(body)]
    closures = _closure_blocks(body, mask)
    out, pos, n = [], 0, 0
    for m in re.finditer(r'(?<![A-Za-z0-9_.])(return|break|continue)\b', body):
        k = m.start()
        if not mask[k]:
            continue
        kw = m.group(1)
        if any(a < k < b for a, b in closures):
            raise LostAnchor('W_FLOW: `%s` inside a nested closure' % kw)
        rest = body[m.end():]
        semi = re.match(r'\s*;', rest)
        if kw in ('break', 'continue') and any(a < k < b for a, b in nested):
            if re.match(r"\s*'", rest):
                raise LostAnchor('W_FLOW: labelled `%s`' % kw)
            continue
        if not semi:
            # `return` / `break` as the tail of a block or of a match arm: `=> return,` / `{ return }`
            tail = re.match(r'\s*(?=[,}])', rest)
            if not tail:
                raise LostAnchor('W_FLOW: `%s` with an operand or a label' % kw)
        if kw == 'break' and (levels[-1]['statements_after'] or levels[-1]['stmt_tail'].strip('} \t\n')):
            raise LostAnchor('W_FLOW: the loop is left by `break` and statements follow the loop (they are not in the range)')
        out.append(body[pos:k])
        out.append('return Flow::Continue' if kw == 'continue' else 'return Flow::Stop')
        pos = m.end()
        n += 1
    out.append(body[pos:])
    return ''.join(out), n


def W_REF_PARAMS(body, ctx):
    """In /repo the loop body reads `Arc` clones the closure captured and locals declared before the `loop`; the wrapper
    takes each of them by reference (`P: &T` / `P: &mut T` in the `as:` signature).  For every such parameter P:
      a call argument `&P` / `&mut P`  -> `P`          (`&Arc<T>` derefs to `&T`; `&mut local` is the parameter itself)
      a statement `P = E;`             -> `*P = E;`    (assignment to the local)
      P of scalar type (`&mut bool`, ..): every other occurrence -> `(*P)`
    Method calls `P.f(..)` need nothing (auto-deref)."""
    n = 0
    for name, is_ref, is_mut, ty in _params(ctx):
        if not is_ref:
            continue
        mask = code_mask(body)
        # call arguments
        rx = re.compile(r'([(,]\s*)&\s*(mut\s+)?' + re.escape(name) + r'(?=\s*[,)])')
        out, pos = [], 0
        for m in rx.finditer(body):
            if not mask[m.start()]:
                continue
            out.append(body[pos:m.start()])
            out.append(m.group(1) + name)
            pos = m.end()
            n += 1
        out.append(body[pos:])
        body = ''.join(out)
        if not is_mut:
            continue
        mask = code_mask(body)
        # assignments `P = E` at the start of a statement
        rx = re.compile(r'(?<![A-Za-z0-9_.*])' + re.escape(name) + r'(?=\s*=(?!=))')
        out, pos = [], 0
        for m in rx.finditer(body):
            if not mask[m.start()]:
                continue
            k = m.start() - 1
            while k >= 0 and body[k] in ' \t\r\n':
                k -= 1
            if k >= 0 and body[k] not in ';{}':
                continue
            out.append(body[pos:m.start()])
            out.append('*' + name)
            pos = m.end()
            n += 1
        out.append(body[pos:])
        body = ''.join(out)
        if ty in _SCALARS:
            mask = code_mask(body)
            rx = re.compile(r'(?<![A-Za-z0-9_.*])' + re.escape(name) + r'(?![A-Za-z0-9_])')
            out, pos = [], 0
            for m in rx.finditer(body):
                if not mask[m.start()]:
                    continue
                out.append(body[pos:m.start()])
                out.append('(*%s)' % name)
                pos = m.end()
                n += 1
            out.append(body[pos:])
            body = ''.join(out)
    return body, n


def W_BROKER(body, ctx):
    """R8 reads every `JobBroker` method as one critical section on the market and verifies it as a free function whose
    first parameter is the `&mut JobMarket`.  A parameter `B: &mut JobMarket<..>` of the wrapper is the worker's broker:
      `B.pop()` -> `pop(B)`,  `B.split_and_push(ARGS)` -> `split_and_push(B, ARGS)`,  likewise `push`, `is_closed`.
    Any other use of B is a LostAnchor."""
    n = 0
    for name, is_ref, is_mut, ty in _params(ctx):
        if not (is_ref and is_mut and re.match(r'JobMarket\s*<', ty)):
            continue
        mask = code_mask(body)
        rx = re.compile(r'(?<![A-Za-z0-9_.])' + re.escape(name) + r'\s*\.\s*(pop|split_and_push|push|is_closed)\s*\(\s*')
        out, pos = [], 0
        for m in rx.finditer(body):
            if not mask[m.start()]:
                continue
            out.append(body[pos:m.start()])
            empty = body[m.end():m.end() + 1] == ')'
            out.append('%s(%s%s' % (m.group(1), name, '' if empty else ', '))
            pos = m.end()
            n += 1
        out.append(body[pos:])
        body = ''.join(out)
        left = len(re.findall(r'(?<![A-Za-z0-9_])' + re.escape(name) + r'(?![A-Za-z0-9_])', body))
        if left != n:
            raise LostAnchor('W_BROKER: `%s` used other than as the receiver of a broker method' % name)
    return body, n


def W_KEYS(body, ctx):
    """`D.iter().map(|R| *R.key()).collect()` (D a DashMap: "iter: Creates an iterator over a DashMap yielding immutable
    references"; `key()` of each entry, collected into the set the callee's parameter type asks for)
    -> `key_set(&*D)` (prelude: the set of the keys of D)."""
    mask = code_mask(body)
    rx = re.compile(r'(?<![A-Za-z0-9_.])(%s)\s*\.\s*iter\(\)\s*\.\s*map\(\s*\|\s*(%s)\s*\|\s*\*\s*(%s)\s*\.\s*key\(\)\s*\)\s*\.\s*collect\(\)' % (IDENT, IDENT, IDENT))
    n = 0
    while True:
        m = _first_code_match(rx, body, mask)
        if not m:
            break
        if m.group(2) != m.group(3):
            raise LostAnchor('W_KEYS: the closure does not return the key of its own argument')
        body = body[:m.start()] + 'key_set(&*%s)' % m.group(1) + body[m.end():]
        mask = code_mask(body)
        n += 1
    return body, n


def W_POSITION(body, ctx):
    """`V.iter().position(|PAT| COND)` (std: "Searches for an element in an iterator, returning its index ..
    short-circuiting; .. returns Some(index) of the first true") on a VecDeque / Vec V
    -> `{ let mut i_: usize = 0; let mut r_: Option<usize> = None;
          while i_ < V.len() { let PAT = V.get(i_).unwrap(); if COND { r_ = Some(i_); break; } i_ += 1; } r_ }`
    PAT and COND are re-emitted unchanged."""
    mask = code_mask(body)
    rx = re.compile(r'(?<![A-Za-z0-9_.])(%s)\s*\.\s*iter\(\)\s*\.\s*position\(\s*\|' % IDENT)
    n = 0
    while True:
        m = _first_code_match(rx, body, mask)
        if not m:
            break
        v = m.group(1)
        po = body.index('(', body.index('position', m.start()))
        pc = match_close(body, po, mask)
        bar = body.find('|', m.end())
        # the closing `|` of the parameter list: the first `|` at bracket depth 0 after the opening one
        mo = find_top(body, r'\|', m.end(), mask, pc)
        if not mo:
            raise LostAnchor('W_POSITION: closure parameter list not closed')
        pat = body[m.end():mo.start()].strip()
        cond = body[mo.end():pc].strip()
        if not pat or not cond or cond.startswith('{'):
            raise LostAnchor('W_POSITION: unexpected closure shape')
        new = ('{ let mut i_: usize = 0; let mut r_: Option<usize> = None;\n'
               '            while i_ < %s.len() { let %s = %s.get(i_).unwrap(); if %s { r_ = Some(i_); break; } i_ += 1; }\n'
               '            r_ }' % (v, pat, v, cond))
        body = body[:m.start()] + new + body[pc + 1:]
        mask = code_mask(body)
        n += 1
    return body, n


def W_LOG(body, ctx):
    """Every call of a WL_LOGGED function (`Self::check_block`, and `pop` / `split_and_push` as W_BROKER spells them)
    receives one extra, erased argument `log_` - the ghost call log of the unit (a parameter of the wrapper): the
    contract says how often and with which arguments these callees are called."""
    if not re.search(r'(?<![A-Za-z0-9_])log_\s*:', ctx['params']):
        raise LostAnchor('W_LOG: the wrapper has no `log_` parameter')
    mask = code_mask(body)
    n = 0
    for f in WL_LOGGED:
        rx = re.compile(r'(?<![A-Za-z0-9_.:])' + re.escape(f) + r'\s*\(')
        pos = 0
        while True:
            m = _first_code_match(rx, body, mask, pos)
            if not m:
                break
            po = m.end() - 1
            pc = match_close(body, po, mask)
            args = body[po + 1:pc].rstrip()
            if args.endswith(','):
                args = args[:-1]
            body = body[:po + 1] + args + (', ' if args.strip() else '') + 'log_' + body[pc:]
            mask = code_mask(body)
            pos = po + 1
            n += 1
    return body, n
