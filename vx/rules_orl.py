"""Desugaring rules of the actor-wrapper unit family (ORL; DESIGN.md 3.2).

Same conventions as rules.py: every rule is a generic syntactic idiom with captures, captured
sub-expressions are re-emitted unchanged, `RULE(body, ctx) -> (new_body, fired_count)`, and a rule
raises LostAnchor rather than guess.
"""
import re

from extract import LostAnchor, code_mask, find_top, match_close

IDENT = r'[A-Za-z_][A-Za-z0-9_]*'
PATH = r'%s(?:\s*\.\s*%s)*' % (IDENT, IDENT)


def _sub_code(body, rx, repl):
    """Apply `repl(match) -> text` to every match of `rx` that starts in code (not comment/string)."""
    mask = code_mask(body)
    out, pos, n = [], 0, 0
    for m in rx.finditer(body):
        if not mask[m.start()] or m.start() < pos:
            continue
        out.append(body[pos:m.start()])
        out.append(repl(m))
        pos = m.end()
        n += 1
    out.append(body[pos:])
    return ''.join(out), n


def REF_ITER(body, ctx):
    """`for PAT in &P {` (P a place path whose type is a std map/set or a Deref wrapper of one)
    -> `for PAT in P.iter() {`.  std: `impl IntoIterator for &HashMap` "creates an iterator ... same
    as `iter()`"; /repo's `impl IntoIterator for &HashableHashMap` is literally `self.0.iter()`.
    PAT and the loop body are re-emitted unchanged."""
    rx = re.compile(r'(?<![A-Za-z0-9_.])for\b(\s*[^{};]*?\s)in\s*&\s*(%s)\s*\{' % PATH)

    def repl(m):
        return 'for%sin %s.iter() {' % (m.group(1), re.sub(r'\s+', '', m.group(2)))

    return _sub_code(body, rx, repl)


def NAME_ITER(body, ctx):
    """`for PAT in E {` -> `for PAT in it<k>_: E {` for the k-th `for` of the body (Verus syntax that
    names the ghost iterator so that loop invariants can mention it; erased at run time)."""
    mask = code_mask(body)
    rx = re.compile(r'(?<![A-Za-z0-9_.])for\b')
    out, pos, n = [], 0, 0
    for m in rx.finditer(body):
        if not mask[m.start()] or m.start() < pos:
            continue
        mi = find_top(body, r'\bin\b', m.end(), mask)
        mo = find_top(body, r'\{', m.end(), mask)
        if not mi or not mo or mi.start() > mo.start():
            raise LostAnchor('NAME_ITER: `for` without `in`')
        after = body[mi.end():mo.start()]
        if re.match(r'\s*%s\s*:(?!:)' % IDENT, after):
            continue  # already named
        n += 1
        out.append(body[pos:mi.end()])
        out.append(' it%d_:' % n)
        pos = mi.end()
    out.append(body[pos:])
    return ''.join(out), n
