"""Desugaring rules of unit PLAN (`RewritePlan`, /repo/src/checker/rewrite_plan.rs, and the `DenseNatMap`
iterators it consumes). Conventions: vx/rules.py and vx/rules_closure.py (whose helpers are reused).

Every rule is a generic syntactic idiom; the receiver, closure patterns and closure bodies are captured and
re-emitted unchanged, so an edit inside any of them reaches the verifier. A rule named in `rules:` that fires
0 times is a lost anchor (undecided); an idiom present in a shape the rule does not understand raises
LostAnchor. Names ending in `_` are the rule's own locals; where a rule fires several times in one function
and later proof text must talk about an earlier result, the names carry the firing number (`perm1_`, ..).

  PL_PARAM_ITEMS_VEC                 `P: impl IntoIterator<Item = T>` consumed by one `P.into_iter()` -> `P: Vec<T>`
  PL_INTO_ITER_ENUMERATE_COLLECT_VEC `A.into_iter().enumerate().collect::<Vec<_>>()`
  PL_ITER_ENUMERATE_COLLECT_VEC      `X.iter().enumerate().collect()`
  PL_SORT_BY_KEY                     `X.sort_by_key(|P| K);` / `X.sort_unstable_by_key(|P| K);`
  PL_MAP_COLLECT_VEC                 `X.iter().map(|P| E).collect::<Vec<T>>()`        (X a std sequence)
  PL_ITEMS_MAP_COLLECT_VEC           `Y.iter().map(|P| E).collect::<Vec<T>>()`        (`Y.iter()` crate code: owned items)
  PL_MAP_COLLECT_INTO                `X.iter().map(|P| E).collect::<C>()`             (C not Vec: `C::from_iter`)
  PL_INTO_TYPED_LET                  `let N: T = E.into();` -> `let N: T = <T>::from(E);`
  PL_INDEX_PARAM                     `P[E]` (P a parameter of type `&G`, G a generic) -> `(*P.index(E))`
  PL_FNPTR_CLOSURE                   struct-literal field `F: (|P1, .., Pn| BODY)` -> `F: fnptr_F_from_closure(..)`
  PL_ITEMS_OF_ITER                   fn body `X.iter()` returning `impl Iterator<Item = &T>` -> `Vec<&T>`
  PL_ITEMS_OF_ITER_ENUMERATE_MAP     fn body `X.iter().enumerate().map(|P| E)` returning `impl Iterator<Item = T>` -> `Vec<T>`

Reference sub-patterns `&x` in closure parameters (Verus: "ref patterns" unsupported) are bound as
`x` and followed by `let x = *x;` (Rust reference, reference patterns: "Reference patterns dereference the
pointers that are being matched"; binding by value needs `Copy`, which the real code has or it would not compile).
"""
import re

from extract import LostAnchor, code_mask, find_top, match_close
from rules import IDENT
from rules_closure import _closure_arg, _first, _receiver_start, _is_place, _back_ws

PLACE = r'%s(?:\s*\.\s*(?:%s|[0-9]+))*' % (IDENT, IDENT)


# --------------------------------------------------------------------------------------------
# helpers
# --------------------------------------------------------------------------------------------

def _bind(pat, expr, what):
    """`let PAT = EXPR;` with every reference sub-pattern `&x` of PAT replaced by `x` + `let x = *x;`."""
    mask = code_mask(pat)
    derefs = []

    def sub(m):
        if not mask[m.start()]:
            return m.group(0)
        derefs.append(m.group(1))
        return m.group(1)

    if re.search(r'&\s*(?:mut\b|\(|\[|_|&)', pat):
        raise LostAnchor('%s: reference sub-pattern other than `&ident` in `%s`' % (what, pat))
    new = re.sub(r'&\s*(%s)' % IDENT, sub, pat)
    out = 'let %s = %s;' % (new, expr)
    for x in derefs:
        out += ' let %s = *%s;' % (x, x)
    return out


def _place(body, s, e, what):
    x = re.sub(r'\s+', '', body[s:e].strip())
    if not _is_place(x):
        raise LostAnchor('%s: receiver `%s` is not a place expression (it is borrowed as `&%s`)' % (what, x[:60], x[:60]))
    return x


def _turbofish_after(body, pos):
    """`.collect::<T>()` or `.collect()` at body[pos:]: returns (T or None, end index) or None."""
    m = re.match(r'\s*\.\s*collect\s*', body[pos:])
    if not m:
        return None
    k = pos + m.end()
    ty = None
    mt = re.match(r'::\s*<', body[k:])
    if mt:
        depth, j = 1, k + mt.end()
        while j < len(body) and depth:
            if body[j] == '<':
                depth += 1
            elif body[j] == '>' and body[j - 1] != '-':
                depth -= 1
            j += 1
        if depth:
            raise LostAnchor('unbalanced turbofish after `collect`')
        ty = body[k + mt.end():j - 1].strip()
        k = j
    mp = re.match(r'\s*\(\s*\)', body[k:])
    if not mp:
        return None
    return ty, k + mp.end()


# --------------------------------------------------------------------------------------------
# `impl IntoIterator` parameter consumed by one `.into_iter()`
# --------------------------------------------------------------------------------------------

def PL_PARAM_ITEMS_VEC(body, ctx):
    """A parameter `P: impl IntoIterator<Item = T>` whose ONLY use in the body is one `P.into_iter()` -> `P: Vec<T>`.

    As P_FOR_OWNED (rules_net.py) / B_FOR_OWNED (rules_amb.py), for a parameter consumed by an adapter chain
    instead of a `for` loop, and also for reference items (`Item = &'a V`): the function consumes the iterable
    once, front to back, so all it can observe is the finite sequence of items it yields; a `Vec<T>` is that
    sequence and `Vec::into_iter` yields it "from start to end". Iterables that never end or whose `next` has
    side effects are outside the contract. The body is unchanged."""
    n = 0
    rxp = re.compile(r'(?<![A-Za-z0-9_])(%s)\s*:\s*impl\s+IntoIterator\s*<\s*Item\s*=\s*' % IDENT)
    while True:
        params = ctx['params']
        m = rxp.search(params)
        if not m:
            break
        p = m.group(1)
        depth, k = 1, m.end()
        while k < len(params) and depth:
            c = params[k]
            if c == '<':
                depth += 1
            elif c == '>' and params[k - 1] != '-':
                depth -= 1
            k += 1
        if depth:
            raise LostAnchor('PL_PARAM_ITEMS_VEC: unbalanced `<` in the parameter list')
        item = params[m.end():k - 1].strip()
        mask = code_mask(body)
        uses = [u for u in re.finditer(r'(?<![A-Za-z0-9_.])%s(?![A-Za-z0-9_])' % re.escape(p), body) if mask[u.start()]]
        if len(uses) != 1 or not re.match(r'\s*\.\s*into_iter\s*\(\s*\)', body[uses[0].end():]):
            raise LostAnchor('PL_PARAM_ITEMS_VEC: parameter `%s` is not consumed by exactly one `%s.into_iter()`' % (p, p))
        ctx['params'] = params[:m.start()] + '%s: Vec<%s>' % (p, item) + params[k:]
        n += 1
    return body, n


# --------------------------------------------------------------------------------------------
# enumerate().collect()
# --------------------------------------------------------------------------------------------

def PL_INTO_ITER_ENUMERATE_COLLECT_VEC(body, ctx):
    """`A.into_iter().enumerate().collect::<Vec<_>>()` (A a `Vec`) ->
    `{ let mut a_ = A; let n_: usize = a_.len(); let mut out_ = Vec::new(); let mut i_: usize = 0;
       while a_.len() > 0 { let x_ = a_.remove(0); out_.push((i_, x_)); i_ += 1; }
       out_ }`

    std: `Vec::into_iter` "Creates a consuming iterator, that is, one that moves each value out of the vector
    (from start to end)"; Iterator::enumerate "Creates an iterator which gives the current iteration count as
    well as the next value. The iterator returned yields pairs (i, val), where i is the current index of
    iteration and val is the value returned by the iterator" (count from 0, a usize); `Vec: FromIterator` keeps
    the order. `a_.remove(0)` is the front-to-back move (as in C_INTO_ITER_FILTER_MAP_COLLECT_VEC); `n_` only
    names the number of items. A is re-emitted unchanged (and moved, as `into_iter` does). The turbofish must
    name `Vec`; if A is not a `Vec` the output does not type-check (undecided)."""
    n = 0
    rx = re.compile(r'\.\s*into_iter\s*\(\s*\)\s*\.\s*enumerate\s*\(\s*\)')
    start = 0
    while True:
        mask = code_mask(body)
        m = _first(rx, body, mask, start)
        if not m:
            break
        tf = _turbofish_after(body, m.end())
        if not tf:
            start = m.end()
            continue
        ty, end = tf
        if ty is None or not re.match(r'Vec\s*<', ty):
            raise LostAnchor('PL_INTO_ITER_ENUMERATE_COLLECT_VEC: `collect` without a `Vec<..>` turbofish')
        s = _receiver_start(body, m.start(), mask, 'PL_INTO_ITER_ENUMERATE_COLLECT_VEC')
        a = body[s:m.start()].strip()
        new = ('{ let mut a_ = %s; let n_: usize = a_.len(); let mut out_ = Vec::new(); let mut i_: usize = 0;\n'
               '            while a_.len() > 0 { let x_ = a_.remove(0); out_.push((i_, x_)); i_ += 1; }\n'
               '            out_ }' % a)
        body = body[:s] + new + body[end:]
        start = s
        n += 1
    return body, n


def PL_ITER_ENUMERATE_COLLECT_VEC(body, ctx):
    """`X.iter().enumerate().collect()` (X a `Vec` place, collected into a `Vec`; a `::<Vec<..>>` turbofish is accepted) ->
    `{ let it_ = iter_seq(&X); let mut out_ = Vec::new(); let mut i_: usize = 0;
       while i_ < it_.len() { let x_ = it_[i_]; out_.push((i_, x_)); i_ += 1; }
       out_ }`

    std: slice::iter "Returns an iterator over the slice. The iterator yields all items from start to end"
    (items are `&X[i]`: `iter_seq`, prelude/iterseq.rs); Iterator::enumerate as in
    PL_INTO_ITER_ENUMERATE_COLLECT_VEC; `Vec: FromIterator` keeps the order. `collect()` is type-directed: the
    rule name says `Vec`; another target does not type-check (undecided). X is re-emitted unchanged."""
    n = 0
    rx = re.compile(r'\.\s*iter\s*\(\s*\)\s*\.\s*enumerate\s*\(\s*\)')
    start = 0
    while True:
        mask = code_mask(body)
        m = _first(rx, body, mask, start)
        if not m:
            break
        tf = _turbofish_after(body, m.end())
        if not tf:
            start = m.end()
            continue
        ty, end = tf
        if ty is not None and not re.match(r'Vec\s*<', ty):
            raise LostAnchor('PL_ITER_ENUMERATE_COLLECT_VEC: collected into `%s`, not a Vec' % ty)
        s = _receiver_start(body, m.start(), mask, 'PL_ITER_ENUMERATE_COLLECT_VEC')
        x = _place(body, s, m.start(), 'PL_ITER_ENUMERATE_COLLECT_VEC')
        new = ('{ let it_ = iter_seq(&%s); let mut out_ = Vec::new(); let mut i_: usize = 0;\n'
               '            while i_ < it_.len() { let x_ = it_[i_]; out_.push((i_, x_)); i_ += 1; }\n'
               '            out_ }' % x)
        body = body[:s] + new + body[end:]
        start = s
        n += 1
    return body, n


# --------------------------------------------------------------------------------------------
# slice::sort_by_key / sort_unstable_by_key
# --------------------------------------------------------------------------------------------

def PL_SORT_BY_KEY(body, ctx):
    """The statement `X.sort_by_key(|P| K);` (N-th firing in the function, X a `Vec` place) ->
    `let ghost preN_ = X@;
     let keysN_ = { let src_ = &X; let mut keys_ = Vec::new(); let mut k_: usize = 0;
         while k_ < src_.len() { let P = &src_[k_]; k_ += 1; let key_ = K; keys_.push(key_); }
         keys_ };
     let ghost ksN_ = keysN_@;
     let permN_ = stable_sort_by_keys(&mut X, keysN_);
     let ghost postN_ = X@;`
    and the same with `unstable_sort_by_keys` for `X.sort_unstable_by_key(|P| K);`.

    std, slice::sort_by_key: "Sorts the slice in ascending order with a key extraction function, preserving
    initial order of equal elements"; `F: FnMut(&T) -> K, K: Ord`: the key function is applied to a reference
    to each element (`&src_[k_]`, `src_` an alias of X). The sort calls it an unspecified number of times in
    an unspecified order; evaluating it once per element, in index order, before the sort is the same for a
    key closure without side effects (closures that mutate captured state are outside the contract). What the
    sort then does with the elements and their keys is the TRUSTED contract of `stable_sort_by_keys` /
    `unstable_sort_by_keys` (prelude/plan.rs; the unstable one says nothing about equal keys). The ghost
    names let later proof text talk about the vector before / after the N-th sort, its keys and the
    permutation, without naming the source's local. X, P and K are re-emitted unchanged."""
    n = 0
    rx = re.compile(r'\.\s*(sort_by_key|sort_unstable_by_key)\s*\(\s*(?=\|)')
    start = 0
    while True:
        mask = code_mask(body)
        m = _first(rx, body, mask, start)
        if not m:
            break
        what = 'PL_SORT_BY_KEY'
        pat, key, pc = _closure_arg(body, m.end(), mask, what)
        s = _receiver_start(body, m.start(), mask, what)
        x = _place(body, s, m.start(), what)
        # a whole statement: preceded by `;` / `{` / `}` / start, followed by `;`
        k = _back_ws(body, s)
        if k > 0 and body[k - 1] not in ';{}':
            raise LostAnchor('%s: `%s.%s(..)` is not a statement' % (what, x, m.group(1)))
        me = re.match(r'\s*;', body[pc + 1:])
        if not me:
            raise LostAnchor('%s: `%s.%s(..)` is not followed by `;`' % (what, x, m.group(1)))
        n += 1
        fn = 'stable_sort_by_keys' if m.group(1) == 'sort_by_key' else 'unstable_sort_by_keys'
        new = ('let ghost pre%d_ = %s@;\n'
               '        let keys%d_ = { let src_ = &%s; let mut keys_ = Vec::new(); let mut k_: usize = 0;\n'
               '            while k_ < src_.len() { %s k_ += 1; let key_ = %s; keys_.push(key_); }\n'
               '            keys_ };\n'
               '        let ghost ks%d_ = keys%d_@;\n'
               '        let perm%d_ = %s(&mut %s, keys%d_);\n'
               '        let ghost post%d_ = %s@;' % (n, x, n, x, _bind(pat, '&src_[k_]', what), key, n, n, n, fn, x, n, n, x))
        body = body[:s] + new + body[pc + 1 + me.end():]
        start = s + len(new)
    return body, n


# --------------------------------------------------------------------------------------------
# iter().map(closure).collect::<T>()
# --------------------------------------------------------------------------------------------

def _map_collect_tf(body, what, want_vec, owned):
    n = 0
    rx = re.compile(r'\.\s*iter\s*\(\s*\)\s*\.\s*map\s*\(\s*(?=\|)')
    start = 0
    while True:
        mask = code_mask(body)
        m = _first(rx, body, mask, start)
        if not m:
            break
        pat, expr, pc = _closure_arg(body, m.end(), mask, what)
        tf = _turbofish_after(body, pc + 1)
        if not tf or tf[0] is None:
            start = m.end()     # no `.collect::<T>()` right after the map: not this rule's idiom
            continue
        ty, end = tf
        is_vec = re.match(r'Vec\s*<', ty) is not None
        if is_vec != want_vec:
            start = m.end()
            continue
        s = _receiver_start(body, m.start(), mask, what)
        if owned:
            y = body[s:m.start()].strip()
            head = '{ let mut a_ = %s.iter(); let n_: usize = a_.len(); let mut out_: %s = Vec::new();\n' % (y, ty)
            loop = ('            while a_.len() > 0 { %s\n'
                    '                let e_ = %s;\n'
                    '                out_.push(e_); }\n' % (_bind(pat, 'a_.remove(0)', what), expr))
            tail = '            out_ }'
        else:
            x = _place(body, s, m.start(), what)
            if want_vec:
                head = '{ let it_ = iter_seq(&%s); let mut out_: %s = Vec::new(); let mut i_: usize = 0;\n' % (x, ty)
                tail = '            out_ }'
            else:
                head = '{ let it_ = iter_seq(&%s); let mut out_ = Vec::new(); let mut i_: usize = 0;\n' % x
                tail = '            <%s as FromIterator<_>>::from_iter(out_) }' % ty
            loop = ('            while i_ < it_.len() { %s i_ += 1;\n'
                    '                let e_ = %s;\n'
                    '                out_.push(e_); }\n' % (_bind(pat, 'it_[i_]', what), expr))
        body = body[:s] + head + loop + tail + body[end:]
        start = s
        n += 1
    return body, n


def PL_MAP_COLLECT_VEC(body, ctx):
    """`X.iter().map(|P| E).collect::<Vec<T>>()` (X a `Vec` place) ->
    `{ let it_ = iter_seq(&X); let mut out_: Vec<T> = Vec::new(); let mut i_: usize = 0;
       while i_ < it_.len() { let P = it_[i_]; i_ += 1; let e_ = E; out_.push(e_); }
       out_ }`
    C_MAP_COLLECT_VEC (rules_closure.py: Iterator::map "calls that closure on each element", `Vec:
    FromIterator` keeps the order, items `&X[i]` from start to end) for a receiver that is a place of
    collection type (borrowed as `&X`) and a `collect` with a `Vec<T>` turbofish, which types `out_`.
    X, P, E and T are re-emitted unchanged."""
    return _map_collect_tf(body, 'PL_MAP_COLLECT_VEC', True, False)


def PL_ITEMS_MAP_COLLECT_VEC(body, ctx):
    """`Y.iter().map(|P| E).collect::<Vec<T>>()` where `Y.iter()` is CRATE code returning `impl Iterator<Item = I>`
    that the unit models as the `Vec<I>` of the items it yields (rules PL_ITEMS_OF_ITER*) ->
    `{ let mut a_ = Y.iter(); let n_: usize = a_.len(); let mut out_: Vec<T> = Vec::new();
       while a_.len() > 0 { let P = a_.remove(0); let e_ = E; out_.push(e_); }
       out_ }`
    The items are owned values: they are moved out front to back (`remove(0)`, as `Iterator::next` hands
    them out), the closure is called once per item, in order (Iterator::map), `Vec: FromIterator` keeps the
    order. Y, P, E and T are re-emitted unchanged (`out_` is typed by the turbofish)."""
    return _map_collect_tf(body, 'PL_ITEMS_MAP_COLLECT_VEC', True, True)


def PL_MAP_COLLECT_INTO(body, ctx):
    """`X.iter().map(|P| E).collect::<C>()` (X a `Vec` place, C not a `Vec`) ->
    `{ let it_ = iter_seq(&X); let mut out_ = Vec::new(); let mut i_: usize = 0;
       while i_ < it_.len() { let P = it_[i_]; i_ += 1; let e_ = E; out_.push(e_); }
       <C as FromIterator<_>>::from_iter(out_) }`
    C_MAP_COLLECT_FROM_ITER (rules_closure.py) with the target named by the turbofish. std, Iterator::collect:
    "Transforms an iterator into a collection" by `FromIterator::from_iter`, which only sees the items: it is
    handed the `Vec` of the mapped values in iteration order. The directive's `callmap` points the call at
    the contract the unit has for `C::from_iter`. X, P, E and C are re-emitted unchanged."""
    return _map_collect_tf(body, 'PL_MAP_COLLECT_INTO', False, False)


# --------------------------------------------------------------------------------------------
# `let N: T = E.into();`
# --------------------------------------------------------------------------------------------

def PL_INTO_TYPED_LET(body, ctx):
    """`let N: T = E.into();` -> `let N: T = <T>::from(E);`

    std, `impl<T, U> Into<U> for T where U: From<T>`: "Calls U::from(self). That is, this conversion is
    whatever the implementation of From<T> for U chooses to do." The target type is the one the `let`
    declares. The directive's `callmap` then points `<T>::from(` at the extracted copy of that `From` impl
    (trait impls are verified as inherent methods). N, T and E are re-emitted unchanged."""
    n = 0
    rx = re.compile(r'(?<![A-Za-z0-9_])let\s+(mut\s+)?(%s)\s*:\s*' % IDENT)
    start = 0
    while True:
        mask = code_mask(body)
        m = _first(rx, body, mask, start)
        if not m:
            break
        meq = find_top(body, r'=(?!=)', m.end(), mask)
        msc = find_top(body, r';', m.end(), mask)
        if not meq or not msc or meq.start() > msc.start():
            start = m.end()
            continue
        ty = body[m.end():meq.start()].strip()
        init = body[meq.end():msc.start()]
        mi = re.search(r'\.\s*into\s*\(\s*\)\s*$', init)
        if not mi or re.search(r'(?<![A-Za-z0-9_])_(?![A-Za-z0-9_])', ty):
            start = msc.end()
            continue
        e = init[:mi.start()].strip()
        new = ' <%s>::from(%s)' % (ty, e)
        body = body[:meq.end()] + new + body[msc.start():]
        start = meq.end() + len(new)
        n += 1
    return body, n


# --------------------------------------------------------------------------------------------
# `param[E]` on a generic collection
# --------------------------------------------------------------------------------------------

def PL_INDEX_PARAM(body, ctx):
    """`P[E]` where P is a parameter of type `&G` and G is a generic type parameter of the function ->
    `(*P.index(E))`.

    std, trait Index: "container[index] is actually syntactic sugar for *container.index(index), but only
    when used as an immutable value". For a generic `G` the unit gives `index` the contract of the trait it
    bounds `G` by (prelude `IndexedCollection`). Only parameters of a bare generic type are touched (indexing
    of `Vec`s is left to Verus). P and E are re-emitted unchanged."""
    generics = set()
    mg = re.search(r'<(.*)>\s*$', ctx['head'])
    if mg:
        for part in re.split(r',', mg.group(1)):
            mi = re.match(r'\s*(%s)' % IDENT, part)
            if mi and not part.strip().startswith("'"):
                generics.add(mi.group(1))
    names = []
    for mp in re.finditer(r'(?<![A-Za-z0-9_])(%s)\s*:\s*&\s*(%s)\s*(?:,|$)' % (IDENT, IDENT), ctx['params']):
        if mp.group(2) in generics:
            names.append(mp.group(1))
    n = 0
    for p in names:
        rx = re.compile(r'(?<![A-Za-z0-9_.])%s\s*\[' % re.escape(p))
        start = 0
        while True:
            mask = code_mask(body)
            m = _first(rx, body, mask, start)
            if not m:
                break
            ob = m.end() - 1
            cb = match_close(body, ob, mask)
            e = body[ob + 1:cb].strip()
            if find_top(e, r'\.\.'):
                raise LostAnchor('PL_INDEX_PARAM: range index on `%s`' % p)
            new = '(*%s.index(%s))' % (p, e)
            body = body[:m.start()] + new + body[cb + 1:]
            start = m.start() + len(new)
            n += 1
    return body, n


# --------------------------------------------------------------------------------------------
# closure as the value of a fn-pointer field
# --------------------------------------------------------------------------------------------

def PL_FNPTR_CLOSURE(body, ctx):
    """Struct-literal field `F: (|P1, .., Pn| BODY)` (parentheses optional) ->
    `F: fnptr_F_from_closure(|a0_, .., a{n-1}_| -> (r_: _) requires fnptr_F_pre(a0_, ..) ensures fnptr_F_post(a0_, .., r_)
        { let P1 = a0_; ..; let Pn = a{n-1}_; let res_ = BODY; proof { assert(fnptr_F_post(a0_, .., res_)); } res_ })`
    (the assertion restates the closure's postcondition so that a body that violates it is reported as an
    ordinary failed assertion of the enclosing function).

    In /repo the closure is coerced to the fn pointer the field holds (it captures nothing, or the coercion
    would not compile); the unit maps the field type to an opaque prelude type and `fnptr_F_from_closure`
    (prelude; its `Fn(..)` bound carries the parameter types of the pointer, so the un-annotated closure
    parameters are inferred as in /repo) says that the pointer behaves as the closure. A Verus closure carries its own contract: the
    unit states it as the spec functions `fnptr_F_pre` / `fnptr_F_post` (F the field name) over the
    closure's parameters and result, and the REAL body is verified against them. The parameter patterns are
    bound by `let` (reference sub-patterns as described in the module docstring); P1..Pn and BODY are
    re-emitted unchanged. A closure with annotated parameters, a declared return type or `move` is refused."""
    n = 0
    rx = re.compile(r'(?<![A-Za-z0-9_.:])(%s)\s*:\s*(\(\s*)?(?=\|)' % IDENT)
    start = 0
    while True:
        mask = code_mask(body)
        m = _first(rx, body, mask, start)
        if not m:
            break
        what = 'PL_FNPTR_CLOSURE'
        bar = m.end()
        if body[bar:bar + 2] == '||':
            raise LostAnchor('%s: closure without parameters' % what)
        if m.group(2):
            po = body.index('(', m.start(2))
            pc = match_close(body, po, mask)
            end_closure, after = pc, pc + 1
        else:
            me = find_top(body, r'[,}]', bar + 1, mask)
            if not me:
                raise LostAnchor('%s: closure of field `%s` is not followed by `,` or `}`' % (what, m.group(1)))
            end_closure, after = me.start(), me.start()
        mb = find_top(body, r'\|', bar + 1, mask, end_closure)
        if not mb:
            raise LostAnchor('%s: closure parameter list not closed' % what)
        plist = body[bar + 1:mb.start()]
        pats, pos = [], 0
        while True:
            mc = find_top(plist, r',', pos)
            pats.append(plist[pos:mc.start() if mc else len(plist)].strip())
            if not mc:
                break
            pos = mc.end()
        pats = [p for p in pats if p]
        if not pats or any(find_top(p, r':') for p in pats):
            raise LostAnchor('%s: closure parameters must be un-annotated patterns' % what)
        expr = body[mb.end():end_closure].strip()
        if not expr or expr.startswith('->'):
            raise LostAnchor('%s: closure with a declared return type' % what)
        emask = code_mask(expr)
        for mm in re.finditer(r'(?<![A-Za-z0-9_])(return|break|continue)(?![A-Za-z0-9_])|\?', expr):
            if emask[mm.start()]:
                raise LostAnchor('%s: closure body contains `%s`' % (what, mm.group(0)))
        f = m.group(1)
        args = ['a%d_' % i for i in range(len(pats))]
        binds = ' '.join(_bind(p, a, what) for p, a in zip(pats, args))
        new = ('%s: fnptr_%s_from_closure(|%s| -> (r_: _)\n'
               '                requires fnptr_%s_pre(%s)\n'
               '                ensures fnptr_%s_post(%s, r_)\n'
               '            { %s\n'
               '              let res_ = %s;\n'
               '              proof { assert(fnptr_%s_post(%s, res_)); }\n'
               '              res_ })' % (f, f, ', '.join(args), f, ', '.join(args), f, ', '.join(args), binds, expr, f, ', '.join(args)))
        body = body[:m.start()] + new + body[after:]
        start = m.start() + len(new)
        n += 1
    return body, n


# --------------------------------------------------------------------------------------------
# crate functions that return `impl Iterator`: the result is modelled as the Vec of the items
# --------------------------------------------------------------------------------------------

def _ret_items(ctx, what, need_ref):
    ret = ctx['ret'] or ''
    m = re.match(r'impl\s+Iterator\s*<\s*Item\s*=\s*(.*)>\s*$', ret, re.S)
    if not m:
        raise LostAnchor('%s: the function does not return `impl Iterator<Item = ..>`' % what)
    item = m.group(1).strip()
    if need_ref and not item.startswith('&'):
        raise LostAnchor('%s: item type `%s` is not a reference' % (what, item))
    ctx['ret'] = 'Vec<%s>' % item


def PL_ITEMS_OF_ITER(body, ctx):
    """A function whose whole body is `X.iter()` (X a `Vec` place) and that returns `impl Iterator<Item = &T>`
    -> returns `Vec<&T>`, body `iter_seq(&X)`.

    A caller can only consume the returned iterator; what it observes is the finite sequence of items. The
    function is verified as returning that sequence (the same modelling as PL_PARAM_ITEMS_VEC on the consuming
    side; callers are desugared by PL_ITEMS_MAP_COLLECT_VEC / consume the Vec with `into_iter`). std,
    slice::iter: "The iterator yields all items from start to end" - `iter_seq` (prelude/iterseq.rs) is that
    sequence of references. X is re-emitted unchanged."""
    mask = code_mask(body)
    m = re.fullmatch(r'\s*(%s)\s*\.\s*iter\s*\(\s*\)\s*' % PLACE, body)
    if not m:
        return body, 0
    _ret_items(ctx, 'PL_ITEMS_OF_ITER', True)
    return '\n        iter_seq(&%s)\n    ' % re.sub(r'\s+', '', m.group(1)), 1


def PL_ITEMS_OF_ITER_ENUMERATE_MAP(body, ctx):
    """A function whose whole body is `X.iter().enumerate().map(|P| E)` (X a `Vec` place) and that returns
    `impl Iterator<Item = T>` -> returns `Vec<T>`, body
    `{ let it_ = iter_seq(&X); let mut out_ = Vec::new(); let mut i_: usize = 0;
       while i_ < it_.len() { let P = (i_, it_[i_]); i_ += 1; let e_ = E; out_.push(e_); }
       out_ }`
    The result is modelled as the Vec of the items the iterator yields (see PL_ITEMS_OF_ITER). std:
    slice::iter (start to end), Iterator::enumerate "yields pairs (i, val), where i is the current index of
    iteration and val is the value returned by the iterator", Iterator::map "calls that closure on each
    element": the lazy adapters call the closure once per item, in order, when the consumer drives them; for a
    closure without side effects that is the eager loop. X, P and E are re-emitted unchanged."""
    mask = code_mask(body)
    what = 'PL_ITEMS_OF_ITER_ENUMERATE_MAP'
    m = re.match(r'\s*(%s)\s*\.\s*iter\s*\(\s*\)\s*\.\s*enumerate\s*\(\s*\)\s*\.\s*map\s*\(\s*(?=\|)' % PLACE, body)
    if not m:
        return body, 0
    pat, expr, pc = _closure_arg(body, m.end(), mask, what)
    if body[pc + 1:].strip():
        raise LostAnchor('%s: the adapter chain is not the whole function body' % what)
    _ret_items(ctx, what, False)
    x = re.sub(r'\s+', '', m.group(1))
    new = ('\n        { let it_ = iter_seq(&%s); let mut out_ = Vec::new(); let mut i_: usize = 0;\n'
           '            while i_ < it_.len() { %s i_ += 1;\n'
           '                let e_ = %s;\n'
           '                out_.push(e_); }\n'
           '            out_ }\n    ' % (x, _bind(pat, '(i_, it_[i_])', what), expr))
    return new, 1
