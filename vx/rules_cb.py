"""Desugaring rules for the checker units (CB: bfs / dfs / on_demand `check_block`, `reconstruct_path`).

Same conventions as rules.py: every rule is a generic syntactic idiom with captures, captured
sub-expressions are re-emitted unchanged, a rule returns (new_body, times_fired) and raises LostAnchor
rather than guess.  The prelude items the rules refer to are in vx/prelude/model.rs.

  (R2  `for P in A..B { body }` with `continue` lives in rules.py; bfs.rs does not need it)
  R3   `for (I, X) in V.iter().enumerate() { body }`  -> index `while` loop with `let X = &V[I];`
  R6   call of a fn-pointer binding `condition: F`    -> `call_cond(F, args)`
  R7   `&DashMap` / `&DashSet` / `&AtomicUsize` params -> `&mut SeqMap` / `SeqSet` / `Counter` (A-SEQ),
       `if let Entry::Vacant(E) = M.entry(K) { .. E.insert(V) .. } else { .. }` -> contains_key / insert
  R11  `let X = V.drain(..).flat_map|filter_map|map_while(|A| E); .. for P in X { body }` -> `drain_all` + explicit `loop`
  R11E `for A in V.drain(..) { body }`                  -> `drain_all` + explicit `loop`
       (both name the iterator `it_` and keep a ghost copy `cur_` of the element drawn, whatever the source calls them)
  R3V  `for X in &V { body }`                          -> index `while` loop with `let X = &V[j_];`
  R6S  `P: Option<fn(&T) -> T>` param                  -> `P: &Option<ReprFn<T>>`, calls of its bindings -> `call_repr(F, ..)`
  R11D `let X = P.drain(..[E])[.take(N)].collect::<Vec<_>>();` -> `drain_front(P, n_)` [+ `truncate(k_)`]
  R12  `&Option<Box<dyn CheckerVisitor<M> ..>>` param  -> `&Option<VisitorBox<M>>` + `vlog_: &mut VisitLog<M>`
  GH   the function gets one extra, erased parameter `gh_: &mut Gh<M>` (the unit's ghost state) and hands it
       on (`&*gh_`) to the GH_CALLEES functions;  GHR: the same, read-only (`gh_: &Gh<M>`)
"""
import re

from extract import LostAnchor, code_mask, find_top, match_close
from rules import IDENT, _ident_replace


def _split_top_commas(s):
    """split at commas that are outside (), [], {} and <> (the `>` of `->` is not a bracket)."""
    out, depth, cur = [], 0, []
    for k, c in enumerate(s):
        if c in '([{<':
            depth += 1
        elif c in ')]}':
            depth -= 1
        elif c == '>' and not (k > 0 and s[k - 1] == '-'):
            depth -= 1
        if c == ',' and depth == 0:
            out.append(''.join(cur))
            cur = []
        else:
            cur.append(c)
    if ''.join(cur).strip():
        out.append(''.join(cur))
    return out


def _angle_args(ty, name):
    """ty = 'name<...>' -> list of top-level generic arguments."""
    ty = ty.strip()
    if not (ty.startswith(name + '<') and ty.endswith('>')):
        raise LostAnchor('R7: unexpected shape of %s type: %s' % (name, ty))
    return [a.strip() for a in _split_top_commas(ty[len(name) + 1:-1])]


def _first_code_match(rx, body, mask, start=0):
    for m in rx.finditer(body, start):
        if mask[m.start()]:
            return m
    return None


def _index_while(var, lo, hi, prelude_lets, inner):
    """the R2-style index loop R3 produces; the counter is `<var>_`, incremented before the body so that a
    `continue` inside the body keeps the iteration order of the `for`."""
    return ('let mut %s_ = %s;\n        while %s_ < %s {\n            let %s = %s_;%s\n            %s_ += 1;'
            % (var, lo, var, hi, var, var, prelude_lets, var)) + inner


def R3(body, ctx):
    """`for (I, X) in V.iter().enumerate() { body }`
    -> `let mut I_ = 0; while I_ < V.len() { let I = I_; let X = &V[I]; I_ += 1; body }`
    V is a path `a.b.c`; a receiver that ends in a call (`model.properties()`) is evaluated once, as `for`
    does, into `let en_ = V;` first."""
    mask = code_mask(body)
    rx = re.compile(r'for\s*\(\s*(%s)\s*,\s*(%s)\s*\)\s*in\s+(%s(?:\.%s)*(?:\(\))?)\.iter\(\)\.enumerate\(\)\s*\{' % (IDENT, IDENT, IDENT, IDENT))
    n = 0
    while True:
        m = _first_code_match(rx, body, mask)
        if not m:
            break
        i, x, v = m.group(1), m.group(2), m.group(3)
        ob = m.end() - 1
        cb = match_close(body, ob, mask)
        inner = body[ob + 1:cb]
        pre = ''
        if v.endswith('()'):
            pre = 'let en_ = %s;\n        ' % v
            v = 'en_'
        if re.search(r'(?<![A-Za-z0-9_.])' + re.escape(v) + r'\s*(=(?!=)|\.(push|pop|clear|insert|remove|truncate)\()', inner):
            raise LostAnchor('R3: `%s` is modified inside the loop' % v)
        body = body[:m.start()] + pre + _index_while(i, '0', v + '.len()', '\n            let %s = &%s[%s];' % (x, v, i), inner) + body[cb:]
        mask = code_mask(body)
        n += 1
    return body, n


def R6(body, ctx):
    """A struct pattern binds a fn-pointer field: `Property { .., condition: F, .. } => { .. F(args) .. }`.
    Every call `F(args)` becomes `call_cond(F, args)` (prelude: a pure function of its arguments, A-PURE)."""
    mask = code_mask(body)
    names = []
    for m in re.finditer(r'(?<![A-Za-z0-9_])condition\s*:\s*(%s)\s*[,}]' % IDENT, body):
        if mask[m.start()] and m.group(1) not in names:
            names.append(m.group(1))
    n = 0
    for f in names:
        rx = re.compile(r'(?<![A-Za-z0-9_.:])' + re.escape(f) + r'\s*\(')
        out, pos = [], 0
        for m in rx.finditer(body):
            if not mask[m.start()]:
                continue
            out.append(body[pos:m.start()])
            out.append('call_cond(%s, ' % f)
            pos = m.end()
            n += 1
        out.append(body[pos:])
        body = ''.join(out)
        mask = code_mask(body)
    return body, n


_MUTATORS = r'(insert|entry|remove|clear|retain|alter|fetch_add|fetch_sub|fetch_max|fetch_min|compare_exchange|store|swap)'


def R7(body, ctx):
    """A-SEQ, the single-worker abstraction.
    Parameters: `P: &DashMap<K, V[, H]>` -> `P: &mut SeqMap<K, V>`, `P: &DashSet<K[, H]>` -> `P: &mut SeqSet<K>`,
    `P: &AtomicUsize` -> `P: &mut Counter`; `&mut` only if the body calls a mutating method on P, `&` otherwise.
    A parameter that became `&mut` and is handed on as a bare call argument is re-borrowed shared (`&*P`).
    Body: `if let Entry::Vacant(E) = M.entry(K) { B1 } else { B2 }` with E used only as `E.insert(V)` and K an
    identifier -> `if !M.contains_key(&K) { B1[E.insert(V) -> M.insert(K, V)] } else { B2 }`."""
    n = 0
    params = _split_top_commas(ctx['params'])
    new_params, became_mut = [], []
    for p in params:
        m = re.match(r'\s*(%s)\s*:\s*&\s*(DashMap|DashSet|AtomicUsize)\b(.*)$' % IDENT, p, re.S)
        if not m:
            new_params.append(p.strip())
            continue
        name, kind, rest = m.group(1), m.group(2), m.group(3).strip()
        mutated = re.search(r'(?<![A-Za-z0-9_.])' + re.escape(name) + r'\s*\.\s*' + _MUTATORS + r'\s*\(', body) is not None
        amp = '&mut ' if mutated else '&'
        if kind == 'AtomicUsize':
            if rest:
                raise LostAnchor('R7: unexpected AtomicUsize parameter type')
            ty = 'Counter'
        elif kind == 'DashMap':
            a = _angle_args('DashMap' + rest, 'DashMap')
            if len(a) not in (2, 3):
                raise LostAnchor('R7: DashMap with %d type arguments' % len(a))
            ty = 'SeqMap<%s, %s>' % (a[0], a[1])
        else:
            a = _angle_args('DashSet' + rest, 'DashSet')
            if len(a) not in (1, 2):
                raise LostAnchor('R7: DashSet with %d type arguments' % len(a))
            ty = 'SeqSet<%s>' % a[0]
        new_params.append('%s: %s%s' % (name, amp, ty))
        if mutated:
            became_mut.append(name)
        n += 1
    ctx['params'] = ', '.join(new_params)
    # a `&mut` parameter handed on as a bare call argument: shared re-borrow
    mask = code_mask(body)
    for name in became_mut:
        rx = re.compile(r'([(,]\s*)' + re.escape(name) + r'(\s*[,)])')
        out, pos = [], 0
        for m in rx.finditer(body):
            if not mask[m.start()]:
                continue
            out.append(body[pos:m.start()])
            out.append(m.group(1) + '&*' + name + m.group(2))
            pos = m.end()
            n += 1
        out.append(body[pos:])
        body = ''.join(out)
        mask = code_mask(body)
    # the entry()-with-Entry::Vacant test
    rx = re.compile(r'if\s+let\s+Entry::Vacant\(\s*(%s)\s*\)\s*=\s*(%s)\.entry\(\s*(%s)\s*\)\s*\{' % (IDENT, IDENT, IDENT))
    while True:
        m = _first_code_match(rx, body, mask)
        if not m:
            break
        e, mp, key = m.group(1), m.group(2), m.group(3)
        ob = m.end() - 1
        cb = match_close(body, ob, mask)
        b1 = body[ob + 1:cb]
        uses = len(re.findall(r'(?<![A-Za-z0-9_])' + re.escape(e) + r'(?![A-Za-z0-9_])', b1))
        b1new, cnt = re.subn(r'(?<![A-Za-z0-9_.])' + re.escape(e) + r'\s*\.\s*insert\s*\(', '%s.insert(%s, ' % (mp, key), b1)
        if cnt == 0 or cnt != uses:
            raise LostAnchor('R7: vacant entry `%s` used other than as `%s.insert(V)`' % (e, e))
        if not re.match(r'\s*else\b', body[cb + 1:]):
            raise LostAnchor('R7: Entry::Vacant test without else branch')
        body = body[:m.start()] + 'if !%s.contains_key(&%s) {' % (mp, key) + b1new + body[cb:]
        mask = code_mask(body)
        n += 1
    return body, n


_R11_ADAPTERS = {
    # std, Iterator::flat_map: "Creates an iterator that works like map, but flattens nested structure" - the closure
    # returns an `Option`, whose IntoIterator yields its value if it is `Some` and nothing otherwise
    'flat_map': 'continue',
    # std, Iterator::filter_map: "Creates an iterator that both filters and maps.  The returned iterator yields only
    # the values for which the supplied closure returns Some(value)"
    'filter_map': 'continue',
    # std, Iterator::map_while: "Creates an iterator that both yields elements based on a predicate and maps ... It
    # will call this closure on each element of the iterator, and yield elements while it returns Some(_)"; after the
    # first None nothing more is yielded.  Vec::drain: "If the iterator is dropped before being fully consumed, it
    # drops the remaining removed elements" - V is empty afterwards either way, as `drain_all` says
    'map_while': 'break',
}


def R11(body, ctx):
    """`let X = V.drain(..).ADAPTER(|A| E);` ... `for P in X { B }`   (E : Option<_>, so each A yields 0 or 1 item;
    ADAPTER one of flat_map / filter_map (a `None` is skipped) / map_while (the first `None` ends the iteration))
    -> `let mut it_ = drain_all(&mut V);` ... `loop { let A = match it_.next() { None => { break; } Some(a_) => a_ };
         let ghost cur_ = A; let P = match E { None => { continue; | break; } Some(x_) => x_ }; B }`
    The iterator is named `it_` whatever the source calls it (X occurs only in its `let` and its `for`); `cur_` is a
    ghost copy of the element drawn, for contracts that must not depend on the closure's parameter name."""
    mask = code_mask(body)
    rx = re.compile(r'let\s+(%s)\s*=\s*(%s)\s*\.\s*drain\s*\(\s*\.\.\s*\)\s*\.\s*(flat_map|filter_map|map_while)\s*(\()\s*\|\s*(%s)\s*\|' % (IDENT, IDENT, IDENT))
    n = 0
    while True:
        m = _first_code_match(rx, body, mask)
        if not m:
            break
        x, v, adapter, a = m.group(1), m.group(2), m.group(3), m.group(5)
        # closure body runs to the `)` that closes ADAPTER(
        po = m.start(4)
        pc = match_close(body, po, mask)
        expr = body[m.end():pc].strip()
        sm = re.match(r'\s*;', body[pc + 1:])
        if not sm:
            raise LostAnchor('R11: %s(..) is not the end of the let statement' % adapter)
        stmt_end = pc + 1 + sm.end()
        fx = re.compile(r'for\s+(%s)\s+in\s+%s\s*\{' % (IDENT, re.escape(x)))
        fm = _first_code_match(fx, body, mask, stmt_end)
        if not fm:
            raise LostAnchor('R11: no `for P in %s`' % x)
        uses = len(re.findall(r'(?<![A-Za-z0-9_])' + re.escape(x) + r'(?![A-Za-z0-9_])', body))
        if uses != 2:
            raise LostAnchor('R11: iterator `%s` used other than in its `for`' % x)
        p = fm.group(1)
        it = 'it_' if n == 0 else 'it%d_' % n
        cur = 'cur_' if n == 0 else 'cur%d_' % n
        head = ('loop {\n                let %s = match %s.next() { None => { break; } Some(a_) => a_ };\n'
                '                let ghost %s = %s;\n'
                '                let %s = match %s { None => { %s; } Some(x_) => x_ };' % (a, it, cur, a, p, expr, _R11_ADAPTERS[adapter]))
        body = (body[:m.start()] + 'let mut %s = drain_all(&mut %s);' % (it, v) + body[stmt_end:fm.start()]
                + head + body[fm.end():])
        mask = code_mask(body)
        n += 1
    return body, n


def R11E(body, ctx):
    """`for A in V.drain(..) { B }`  ->  `let mut it_ = drain_all(&mut V); loop { let A = match it_.next() {
    None => { break; } Some(a_) => a_ }; let ghost cur_ = A; B }`   (the R11 idiom without the adapter stage)"""
    mask = code_mask(body)
    rx = re.compile(r'(?<![A-Za-z0-9_.])for\s+(%s)\s+in\s+(%s)\s*\.\s*drain\s*\(\s*\.\.\s*\)\s*\{' % (IDENT, IDENT))
    n = 0
    while True:
        m = _first_code_match(rx, body, mask)
        if not m:
            break
        a, v = m.group(1), m.group(2)
        name = 'it_' if n == 0 else 'it%d_' % n
        cur = 'cur_' if n == 0 else 'cur%d_' % n
        body = (body[:m.start()] + 'let mut %s = drain_all(&mut %s);\n            loop {\n                let %s = match %s.next() { None => { break; } Some(a_) => a_ };\n                let ghost %s = %s;'
                % (name, v, a, name, cur, a) + body[m.end():])
        mask = code_mask(body)
        n += 1
    return body, n


def R3V(body, ctx):
    """`for X in &V { B }` (V an identifier the body does not modify)
    -> `let mut j_ = 0; while j_ < V.len() { let X = &V[j_]; j_ += 1; B }`"""
    mask = code_mask(body)
    rx = re.compile(r'(?<![A-Za-z0-9_.])for\s+(%s)\s+in\s+&(%s)\s*\{' % (IDENT, IDENT))
    n = 0
    while True:
        m = _first_code_match(rx, body, mask)
        if not m:
            break
        x, v = m.group(1), m.group(2)
        ob = m.end() - 1
        cb = match_close(body, ob, mask)
        inner = body[ob + 1:cb]
        if re.search(r'(?<![A-Za-z0-9_.])' + re.escape(v) + r'\s*(=(?!=)|\.(push|pop|clear|insert|remove|truncate)\()', inner):
            raise LostAnchor('R3V: `%s` is modified inside the loop' % v)
        j = 'j_' if n == 0 else 'j%d_' % n
        body = (body[:m.start()] + 'let mut %s = 0;\n                while %s < %s.len() {\n                    let %s = &%s[%s];\n                    %s += 1;'
                % (j, j, v, x, v, j, j) + inner + body[cb:])
        mask = code_mask(body)
        n += 1
    return body, n


def R6S(body, ctx):
    """A parameter of fn-pointer option type `P: Option<fn(&T) -> T>` becomes `P: &Option<ReprFn<T>>` (the opaque
    prelude type; by reference because the opaque type is not `Copy` - a fn pointer is, so nothing changes for
    the caller); for every binding `Some(F) = P` (`if let` / `while let` / `let .. else`) or `match P { .. Some(F) => .. }`
    each call `F(args)` becomes `call_repr(F, args)`."""
    params = _split_top_commas(ctx['params'])
    new_params, names = [], []
    for p in params:
        m = re.match(r'\s*(%s)\s*:\s*Option<\s*fn\(\s*&\s*([^)]+?)\s*\)\s*->\s*(.+?)\s*>\s*$' % IDENT, p)
        if m and m.group(2).strip() == m.group(3).strip():
            new_params.append('%s: &Option<ReprFn<%s>>' % (m.group(1), m.group(2).strip()))
            names.append(m.group(1))
        else:
            new_params.append(p.strip())
    if not names:
        return body, 0
    ctx['params'] = ', '.join(new_params)
    n = len(names)
    mask = code_mask(body)
    for pn in names:
        binds = []
        for m in re.finditer(r'Some\(\s*(%s)\s*\)\s*=\s*%s(?![A-Za-z0-9_])' % (IDENT, re.escape(pn)), body):
            if mask[m.start()] and m.group(1) not in binds:
                binds.append(m.group(1))
        # the same binding spelled as a match arm: `match P { Some(F) => .., None => .. }`
        for m in re.finditer(r'(?<![A-Za-z0-9_])match\s+%s\s*\{' % re.escape(pn), body):
            if not mask[m.start()]:
                continue
            ob = m.end() - 1
            cb = match_close(body, ob, mask)
            for am in re.finditer(r'Some\(\s*(%s)\s*\)\s*=>' % IDENT, body[ob:cb]):
                if mask[ob + am.start()] and am.group(1) not in binds:
                    binds.append(am.group(1))
        for f in binds:
            rx = re.compile(r'(?<![A-Za-z0-9_.:])' + re.escape(f) + r'\s*\(')
            out, pos = [], 0
            for m in rx.finditer(body):
                if not mask[m.start()]:
                    continue
                out.append(body[pos:m.start()])
                out.append('call_repr(%s, ' % f)
                pos = m.end()
                n += 1
            out.append(body[pos:])
            body = ''.join(out)
            mask = code_mask(body)
    return body, n


def R11D(body, ctx):
    """`let [mut] X = P.drain(RANGE)[.take(N)].collect::<Vec<_>>();` with RANGE `..E` or `..` (P a VecDeque)
    -> `let n_ = E;` (`..`: `let n_ = P.len();`)  [`let k_ = N;`]  `let mut t_ = drain_front(P, n_);`  [`t_.truncate(k_);`]
       `let [mut] X = t_;`
    prelude `drain_front`: removes the first n_ elements of P and returns them in order; std panics if n_ > len, which
    becomes the precondition.  std, VecDeque::drain: "Removes the specified range from the deque in bulk, returning all
    removed elements as an iterator.  If the iterator is dropped before being fully consumed, it drops the remaining
    removed elements" - so with `.take(N)` (Iterator::take: "Creates an iterator that yields the first n elements, or
    fewer if the underlying iterator ends sooner") the whole range still leaves P and only the first N of it are
    collected: `Vec::truncate(k_)` ("Shortens the vector, keeping the first len elements and dropping the rest.  If len
    is greater or equal to the vector's current length, this has no effect", specified by vstd).
    E is hoisted because the method call's two-phase borrow of P is not available to a plain function call; it is still
    evaluated before the drain, and N after E as in the source (N cannot mention P: P is mutably borrowed there)."""
    mask = code_mask(body)
    rx = re.compile(r'let\s+(mut\s+)?(%s)\s*=\s*(%s)\s*\.\s*drain\s*\(\s*\.\.(?!=)' % (IDENT, IDENT))
    n = 0
    while True:
        m = _first_code_match(rx, body, mask)
        if not m:
            break
        mut, x, p = m.group(1) or '', m.group(2), m.group(3)
        po = body.index('(', body.index('drain', m.start()))
        pc = match_close(body, po, mask)
        expr = body[m.end():pc].strip()
        pos = pc + 1
        take = None
        tk = re.match(r'\s*\.\s*take\s*\(', body[pos:])
        if tk:
            to = pos + tk.end() - 1
            tc = match_close(body, to, mask)
            take = body[to + 1:tc].strip()
            if not take:
                raise LostAnchor('R11D: `.take()` without an argument')
            pos = tc + 1
        tail = re.match(r'\s*\.\s*collect::<\s*Vec<\s*_\s*>\s*>\(\s*\)\s*;', body[pos:])
        if not tail:
            raise LostAnchor('R11D: `%s.drain(..)` is not followed by `[.take(N)].collect::<Vec<_>>();`' % p)
        is_ref_param = re.search(r'(?<![A-Za-z0-9_])' + re.escape(p) + r'\s*:\s*&\s*mut\b', ctx['params']) is not None
        recv = p if is_ref_param else '&mut ' + p
        new = 'let n_ = %s;\n        ' % (expr if expr else p + '.len()')
        if take is None:
            new += 'let %s%s = drain_front(%s, n_);' % (mut, x, recv)
        else:
            new += ('let k_ = %s;\n        let mut t_ = drain_front(%s, n_);\n        t_.truncate(k_);\n        let %s%s = t_;'
                    % (take, recv, mut, x))
        body = body[:m.start()] + new + body[pos + tail.end():]
        mask = code_mask(body)
        n += 1
    return body, n


def R12(body, ctx):
    """`P: &Option<Box<dyn CheckerVisitor<M> + Send + Sync>>` -> `P: &Option<VisitorBox<M>>, vlog_: &mut VisitLog<M>`;
    every `X.visit(args)` -> `X.visit(args, vlog_)` (prelude: `visit` appends its path argument to the log)."""
    params = _split_top_commas(ctx['params'])
    new_params, n = [], 0
    for p in params:
        m = re.match(r'\s*(%s)\s*:\s*&\s*Option<\s*Box<\s*dyn\s+CheckerVisitor<\s*(%s)\s*>(\s*\+\s*(Send|Sync))*\s*>\s*>\s*$' % (IDENT, IDENT), p)
        if m:
            new_params.append('%s: &Option<VisitorBox<%s>>' % (m.group(1), m.group(2)))
            new_params.append('vlog_: &mut VisitLog<%s>' % m.group(2))
            n += 1
        else:
            new_params.append(p.strip())
    if n != 1:
        return body, 0
    ctx['params'] = ', '.join(new_params)
    mask = code_mask(body)
    rx = re.compile(r'\.\s*visit\s*\(')
    calls = 0
    while True:
        m = None
        for mm in rx.finditer(body):
            if mask[mm.start()] and not body[mm.end():].lstrip().startswith('/*v*/'):
                m = mm
                break
        if not m:
            break
        po = m.end() - 1
        pc = match_close(body, po, mask)
        args = body[po + 1:pc].rstrip()
        if args.endswith(','):
            args = args[:-1]
        body = body[:po + 1] + '/*v*/' + args + ', vlog_' + body[pc:]
        mask = code_mask(body)
        calls += 1
    body = body.replace('/*v*/', '')
    if calls == 0:
        raise LostAnchor('R12: visitor parameter without a `.visit(..)` call')
    return body, n + calls


# functions of /repo that are verified in this family with a (read-only) ghost-state parameter (rule GHR)
GH_CALLEES = ('reconstruct_path',)


def _gh_calls(body):
    """a call of a GH_CALLEES function hands the ghost state on: `f(args)` -> `f(args, &*gh_)`"""
    mask = code_mask(body)
    n = 0
    for f in GH_CALLEES:
        rx = re.compile(r'(?<![A-Za-z0-9_.])' + re.escape(f) + r'\s*\(')
        pos = 0
        while True:
            m = _first_code_match(rx, body, mask, pos)
            if not m:
                break
            po = m.end() - 1
            pc = match_close(body, po, mask)
            args = body[po + 1:pc].rstrip()
            if args.endswith(','):
                args = args[:-1]
            body = body[:po + 1] + args + ', &*gh_' + body[pc:]
            mask = code_mask(body)
            pos = po + 1
            n += 1
    return body, n


def GH(body, ctx):
    """The function receives one extra parameter `gh_: &mut Gh<M>`: the ghost state of the unit (a struct
    whose fields are all `ghost`, so it is erased at run time and the body cannot compute with it).
    Calls of GH_CALLEES functions pass it on read-only."""
    ctx['params'] = ctx['params'].rstrip().rstrip(',') + ', gh_: &mut Gh<M>'
    body, n = _gh_calls(body)
    return body, 1 + n


def GHR(body, ctx):
    """As GH, for a function that only reads the ghost state: extra parameter `gh_: &Gh<M>`."""
    ctx['params'] = ctx['params'].rstrip().rstrip(',') + ', gh_: &Gh<M>'
    return body, 1
