"""Desugaring rules for the hashable-container unit (HSS). See vx/rules.py for conventions."""
import re

from extract import LostAnchor, code_mask, find_top, match_close
from rules import IDENT


def R9(body, ctx):
    """Thread-local scratch buffer (assumption A-BUF: it is only an allocation cache; the code
    clears it before use):
    `TL.with(|B| { let F = RefCell::new(Vec::new()); let mut B2 = B.try_borrow_mut().unwrap_or_else(|_| F.borrow_mut()); REST });`
    -> `{ let mut B2 = Vec::new(); REST }`. REST is re-emitted unchanged."""
    mask = code_mask(body)
    m = re.search(r'(%s)\.with\(\s*\|\s*(%s)\s*\|\s*\{' % (IDENT, IDENT), body)
    if not m or not mask[m.start()]:
        return body, 0
    b = m.group(2)
    ob = m.end() - 1
    cb = match_close(body, ob, mask)
    inner = body[ob + 1:cb]
    rx = re.compile(r'\s*let\s+(%s)\s*=\s*RefCell::new\(\s*Vec::new\(\)\s*\)\s*;\s*'
                    r'let\s+mut\s+(%s)\s*=\s*%s\s*\.try_borrow_mut\(\)\s*\.unwrap_or_else\(\s*\|_\|\s*\1\.borrow_mut\(\)\s*\)\s*;' % (IDENT, IDENT, re.escape(b)))
    mi = rx.match(inner)
    if not mi:
        raise LostAnchor('R9: thread-local buffer prologue not recognised')
    rest = inner[mi.end():]
    # closing `)` of `.with(` and the `;`
    k = cb + 1
    while body[k] in ' \t\n':
        k += 1
    if body[k] != ')':
        raise LostAnchor('R9: malformed with-call')
    k += 1
    while k < len(body) and body[k] in ' \t\n':
        k += 1
    if k < len(body) and body[k] == ';':
        k += 1
    new = '{ let mut %s = Vec::new();%s }' % (mi.group(2), rest)
    return body[:m.start()] + new + body[k:], 1


def R11_extend_map(body, ctx):
    """`X.extend(Y.iter().map(|PAT| BLOCK));` -> an index loop over the elements of Y in iteration
    order (prelude `iter_seq` / `iter_seq_pairs`), pushing each mapped value, which is what
    `Extend for Vec` + `Iterator::map` are documented to do:
    `{ let it_ = iter_seq(&Y); let mut i_: usize = 0; while i_ < it_.len() { let PAT = it_[i_]; i_ += 1; let e_ = BLOCK; X.push(e_); } }`
    X, Y, PAT and BLOCK are re-emitted unchanged."""
    n = 0
    rx = re.compile(r'(%s)\.extend\(\s*' % IDENT)
    while True:
        mask = code_mask(body)
        hit = None
        for m in rx.finditer(body):
            if not mask[m.start()]:
                continue
            po = m.end() - 1
            while body[po] != '(':
                po -= 1
            pc = match_close(body, po, mask)
            arg = body[po + 1:pc]
            ma = re.match(r'\s*(.+?)\.iter\(\)\s*\.map\(\s*\|\s*(%s|\(\s*%s\s*,\s*%s\s*\))\s*\|\s*\{' % (IDENT, IDENT, IDENT), arg, re.S)
            if not ma:
                continue
            amask = code_mask(arg)
            bo = ma.end() - 1
            bc = match_close(arg, bo, amask)
            tail = arg[bc + 1:].strip()
            if tail != ')':
                continue
            j = pc + 1
            while j < len(body) and body[j] in ' \t\n':
                j += 1
            if j >= len(body) or body[j] != ';':
                continue
            hit = (m.start(), j + 1, m.group(1), ma.group(1).strip(), ma.group(2), arg[bo:bc + 1])
            break
        if not hit:
            break
        s, e, x, y, pat, block = hit
        fn = 'iter_seq_pairs' if pat.startswith('(') else 'iter_seq'
        new = ('{ let it_ = %s(&%s); let mut i_: usize = 0;\n            while i_ < it_.len() { let %s = it_[i_]; i_ += 1;\n'
               '                let e_ = %s;\n                %s.push(e_); } }' % (fn, y, pat, block, x))
        body = body[:s] + new + body[e:]
        n += 1
    return body, n


def R11_sort_unstable(body, ctx):
    """`X.sort_unstable();` -> `sort_unstable_vec(&mut X);` (prelude: result sorted, a permutation)."""
    mask = code_mask(body)
    new, n = re.subn(r'(%s)\.sort_unstable\(\)\s*;' % IDENT, lambda m: 'sort_unstable_vec(&mut %s);' % m.group(1), body)
    return new, n


def R5_write(body, ctx):
    """`H.write_u64(E);` -> `feed_u64(E, H);`, `H.write_usize(E);` -> `feed_usize(E, H);`
    (prelude: the hasher's ghost stream grows by that one word). E and H re-emitted unchanged."""
    mask = code_mask(body)
    n = 0
    while True:
        m = None
        for mm in re.finditer(r'(%s)\.write_(u64|usize)\(' % IDENT, body):
            if mask[mm.start()]:
                m = mm
                break
        if not m:
            break
        po = m.end() - 1
        pc = match_close(body, po, mask)
        body = body[:m.start()] + 'feed_%s(%s, %s)' % (m.group(2), body[po + 1:pc].strip(), m.group(1)) + body[pc + 1:]
        mask = code_mask(body)
        n += 1
    return body, n


def R3_for_ref_slice(body, ctx):
    """`for P in &*X { B }` -> `{ let sl_ = &*X; let mut j_: usize = 0; while j_ < sl_.len() { let P = &sl_[j_]; j_ += 1; B } }`
    (slice iteration yields references to the elements from first to last)."""
    n = 0
    rx = re.compile(r'(?<![A-Za-z0-9_.])for\s+(%s)\s+in\s+&\*(%s)\s*\{' % (IDENT, IDENT))
    while True:
        mask = code_mask(body)
        m = None
        for mm in rx.finditer(body):
            if mask[mm.start()]:
                m = mm
                break
        if not m:
            break
        ob = m.end() - 1
        cb = match_close(body, ob, mask)
        new = ('{ let sl_ = &*%s; let mut j_: usize = 0;\n            while j_ < sl_.len() { let %s = &sl_[j_]; j_ += 1;' % (m.group(2), m.group(1))
               + body[ob + 1:cb] + '} }')
        body = body[:m.start()] + new + body[cb + 1:]
        n += 1
    return body, n
