"""Desugaring rules of the SPAWN unit (/repo/src/actor/spawn.rs `on_command`, property C17; DESIGN.md 3.2).

Same conventions as rules.py: every rule is a generic syntactic idiom with captures, captured
sub-expressions are re-emitted unchanged (an edit inside them still reaches the verifier),
`RULE(body, ctx) -> (new_body, fired_count)`, and a rule that meets its idiom in a shape it does not
cover raises LostAnchor (undecided) rather than guess.  The prelude items the rules refer to are in
vx/prelude/spawn.rs.

  SOCK_PARAM   parameter `P: &UdpSocket`                     -> `P: &mut Socket`             (assumption A-SOCK)
  FNPTR_PARAM  parameter `P: fn(&T) -> R` and calls `P(ARGS)` -> `P: FnRef1<T, R>`, `P.call(ARGS)`  (A-PURE)
  ENTRY_CHAIN  `M.entry(K)[.and_modify(|D| *D = E1)][.or_insert_with(|| E2 | PATH)];`
               -> `{ let k_ = K; if M.contains_key(&k_) { [M.insert(k_, E1);] } else { [M.insert(k_, E2);] } }`
  ASSOC_CONST  `Duration::ZERO` (associated constant of a std type, which Verus cannot import) -> `duration_zero()`
"""
import re

from extract import LostAnchor, code_mask, find_top, match_close

IDENT = r'[A-Za-z_][A-Za-z0-9_]*'
CHAIN = r'%s(?:\s*\.\s*%s)*' % (IDENT, IDENT)          # a place expression `a.b.c`
PATHX = r'%s(?:\s*::\s*%s)*' % (IDENT, IDENT)          # a path `a::b::c`


def _skip_ws(text, k):
    while k < len(text) and text[k] in ' \t\r\n':
        k += 1
    return k


def _split_top_commas(s):
    """split at commas outside (), [], {} and <> (the `>` of `->` is not a bracket)."""
    out, depth, cur = [], 0, []
    for k, c in enumerate(s):
        if c in '([{<':
            depth += 1
        elif c in ')]}':
            depth -= 1
        elif c == '>' and not (k > 0 and s[k - 1] == '-'):
            depth -= 1
        if c == ',' and depth == 0:
            out.append(''.join(cur))
            cur = []
        else:
            cur.append(c)
    if ''.join(cur).strip():
        out.append(''.join(cur))
    return out


def _ident_uses(text, name):
    mask = code_mask(text)
    return [m for m in re.finditer(r'(?<![A-Za-z0-9_])' + re.escape(name) + r'(?![A-Za-z0-9_])', text) if mask[m.start()]]


def SOCK_PARAM(body, ctx):
    """Assumption A-SOCK.  A parameter `P: &UdpSocket` becomes `P: &mut Socket` (prelude/spawn.rs): the real
    parameter is a shared reference whose methods have OS-level effects; the model makes the effect visible as a
    ghost log of datagrams inside the `Socket`, which therefore has to be borrowed mutably.  (Same move as R7 for
    `&DashMap` and R8 for the mutex guard.)  The body is not touched: `P.send_to(..)` auto-reborrows.
    The socket must not escape: any use of P other than `P.METHOD(` is a lost anchor."""
    params = _split_top_commas(ctx['params'])
    out, n = [], 0
    for p in params:
        m = re.match(r'^\s*(%s)\s*:\s*&\s*((?:%s\s*::\s*)*UdpSocket)\s*$' % (IDENT, IDENT), p, re.S)
        if not m:
            out.append(p.strip())
            continue
        name = m.group(1)
        uses = _ident_uses(body, name)
        calls = [u for u in uses if re.match(r'\s*\.\s*%s\s*\(' % IDENT, body[u.end():])]
        if len(calls) != len(uses):
            raise LostAnchor('SOCK_PARAM: socket parameter `%s` used other than as `%s.method(..)`' % (name, name))
        out.append('%s: &mut Socket' % name)
        n += 1
    if n:
        ctx['params'] = ', '.join(out)
    return body, n


def FNPTR_PARAM(body, ctx):
    """A parameter of fn-pointer type with one by-reference argument, `P: fn(&T) -> R`, becomes `P: FnRef1<T, R>`
    (prelude/spawn.rs: an opaque value whose `call(&T) -> R` returns the pure function `apply(P, *arg)` of its
    arguments, assumption A-PURE as for rules R6 / R6F), and every call `P(ARGS)` in the body becomes
    `P.call(ARGS)`.  T, R and ARGS are re-emitted unchanged.  Any other use of P is a lost anchor."""
    params = _split_top_commas(ctx['params'])
    out, names = [], []
    for p in params:
        m = re.match(r'^\s*(%s)\s*:\s*fn\s*\(' % IDENT, p, re.S)
        if not m:
            out.append(p.strip())
            continue
        name = m.group(1)
        po = m.end() - 1
        pc = match_close(p, po)
        args = _split_top_commas(p[po + 1:pc])
        mr = re.match(r'^\s*->\s*(.+?)\s*$', p[pc + 1:], re.S)
        if len(args) != 1 or not mr:
            raise LostAnchor('FNPTR_PARAM: fn-pointer parameter `%s` is not of the shape fn(&T) -> R' % name)
        ma = re.match(r'^\s*(?:%s\s*:\s*)?&\s*(?!mut\b)(.+?)\s*$' % IDENT, args[0], re.S)
        if not ma:
            raise LostAnchor('FNPTR_PARAM: argument of fn-pointer parameter `%s` is not a shared reference' % name)
        out.append('%s: FnRef1<%s, %s>' % (name, ma.group(1), mr.group(1)))
        names.append(name)
    if not names:
        return body, 0
    ctx['params'] = ', '.join(out)
    n = len(names)
    for name in names:
        uses = _ident_uses(body, name)
        pieces, pos, calls = [], 0, 0
        for u in uses:
            k = _skip_ws(body, u.end())
            prev = body[:u.start()].rstrip()
            if k < len(body) and body[k] == '(' and not prev.endswith('.') and not prev.endswith('::'):
                pieces.append(body[pos:u.end()])
                pieces.append('.call')
                pos = u.end()
                calls += 1
        if calls != len(uses):
            raise LostAnchor('FNPTR_PARAM: fn-pointer parameter `%s` used other than as a call `%s(..)`' % (name, name))
        pieces.append(body[pos:])
        body = ''.join(pieces)
        n += calls
    return body, n


def _closure(text, what):
    """text = `|PARAMS| EXPR` -> (params, expr)"""
    cm = code_mask(text)
    a = _skip_ws(text, 0)
    if a >= len(text) or text[a] != '|':
        return None
    if text[a:a + 2] == '||':
        return '', text[a + 2:].strip()
    mb = find_top(text, r'\|', a + 1, cm)
    if not mb:
        raise LostAnchor('%s: closure parameter list not closed' % what)
    return text[a + 1:mb.start()].strip(), text[mb.end():].strip()


def ENTRY_CHAIN(body, ctx):
    """`M.entry(K)[.and_modify(|D| *D = E1)][.or_insert_with(|| E2)];` as a statement (value unused), M a place
    expression -> `{ let k_ = K; if M.contains_key(&k_) { M.insert(k_, E1); } else { M.insert(k_, E2); } }`
    (a branch whose link is absent from the chain is empty; `or_insert_with(PATH)` calls `PATH()`).
    Reading of the std `Entry` documentation (assumptions A-R10 of rules_net.py): `M.entry(K)` is occupied iff
    `M.contains_key(&K)`; `and_modify(f)` "provides in-place mutable access to an occupied entry before any
    potential inserts into the map" - f runs exactly when the entry is occupied; `or_insert_with(f)` "ensures a
    value is in the entry by inserting the result of the default function if empty" - f runs exactly when it is
    vacant; so each of E1 / E2 is evaluated in the branch taken only, at most once.  Overwriting the value in
    place (`*D = E1`) and `insert` under the same key (std: "if the map did have this key present, the value is
    updated ... the key is not updated") leave the same abstract map.  E1 must not read the old value D."""
    n = 0
    start = 0
    rx = re.compile(r'(?<![A-Za-z0-9_.])(%s)\s*\.\s*entry\s*\(' % CHAIN)
    while True:
        mask = code_mask(body)
        hit = None
        for m in rx.finditer(body, start):
            if not mask[m.start()]:
                continue
            hit = m
            break
        if not hit:
            break
        m = hit
        recv = re.sub(r'\s+', '', m.group(1))
        pc = match_close(body, m.end() - 1, mask)
        key = body[m.end():pc].strip()
        k = pc + 1
        e1 = e2 = None
        mm = re.compile(r'\s*\.\s*and_modify\s*\(').match(body, k)
        if mm:
            pc = match_close(body, mm.end() - 1, mask)
            clo = _closure(body[mm.end():pc], 'ENTRY_CHAIN')
            if not clo or not re.match(r'^(mut\s+)?%s$' % IDENT, clo[0]):
                raise LostAnchor('ENTRY_CHAIN: and_modify argument is not a closure `|D| *D = E`')
            d = clo[0].split()[-1]
            ma = re.match(r'^\*\s*%s\s*=(?!=)\s*(.+?)\s*;?\s*$' % re.escape(d), clo[1], re.S)
            if not ma:
                mb = re.match(r'^\{\s*\*\s*%s\s*=(?!=)\s*(.+?)\s*;?\s*\}$' % re.escape(d), clo[1], re.S)
                if not mb:
                    raise LostAnchor('ENTRY_CHAIN: and_modify closure is not `|D| *D = E`')
                ma = mb
            e1 = ma.group(1)
            if _ident_uses(e1, d) or find_top(e1, r';'):
                raise LostAnchor('ENTRY_CHAIN: the new value in and_modify reads the old one (or is not one expression)')
            k = pc + 1
        mm = re.compile(r'\s*\.\s*or_insert_with\s*\(').match(body, k)
        if mm:
            pc = match_close(body, mm.end() - 1, mask)
            arg = body[mm.end():pc].strip()
            clo = _closure(arg, 'ENTRY_CHAIN')
            if clo:
                if clo[0] != '':
                    raise LostAnchor('ENTRY_CHAIN: or_insert_with closure takes parameters')
                e2 = clo[1]
            elif re.match(r'^%s$' % PATHX, arg):
                e2 = arg + '()'
            else:
                raise LostAnchor('ENTRY_CHAIN: or_insert_with argument is neither `|| E` nor a path')
            k = pc + 1
        if e1 is None and e2 is None:
            # some other entry idiom (left to the rules of rules_net.py / rules_lin.py)
            start = m.end()
            continue
        k2 = _skip_ws(body, k)
        if k2 >= len(body) or body[k2] != ';':
            raise LostAnchor('ENTRY_CHAIN: the entry chain is continued or its value is used')
        pre = body[:m.start()].rstrip()
        if pre and pre[-1] not in ';{}':
            raise LostAnchor('ENTRY_CHAIN: the entry chain is not a statement')
        occ = ' %s.insert(k_, %s); ' % (recv, e1) if e1 is not None else ' '
        vac = ' %s.insert(k_, %s); ' % (recv, e2) if e2 is not None else ' '
        new = '{ let k_ = %s; if %s.contains_key(&k_) {%s} else {%s} }' % (key, recv, occ, vac)
        body = body[:m.start()] + new + body[k2 + 1:]
        start = m.start() + len(new)
        n += 1
    return body, n


_ASSOC_CONSTS = {
    ('Duration', 'ZERO'): 'duration_zero()',     # std: "A duration of zero time."
}


def ASSOC_CONST(body, ctx):
    """`TYPE::CONST` for the associated constants of std types listed in `_ASSOC_CONSTS` (Verus: "is not
    supported"; constants cannot be given an `assume_specification`) -> call of the prelude function that
    returns the documented value."""
    n = 0
    for (ty, c), repl in _ASSOC_CONSTS.items():
        rx = re.compile(r'(?<![A-Za-z0-9_])(?:%s\s*::\s*)*%s\s*::\s*%s(?![A-Za-z0-9_(:])' % (IDENT, ty, c))
        mask = code_mask(body)
        out, pos = [], 0
        for m in rx.finditer(body):
            if not mask[m.start()]:
                continue
            out.append(body[pos:m.start()])
            out.append(repl)
            pos = m.end()
            n += 1
        out.append(body[pos:])
        body = ''.join(out)
    return body, n
