"""Desugaring rules of the builder units (AMB: the `ActorModel` builder methods; DESIGN.md 3.2).

Same conventions as rules.py: every rule is a generic syntactic idiom with captures, captured
sub-expressions are re-emitted unchanged, `RULE(body, ctx) -> (new_body, fired_count)`, and a rule
raises LostAnchor rather than guess.
"""
import re

from extract import LostAnchor, code_mask, find_top, match_close

IDENT = r'[A-Za-z_][A-Za-z0-9_]*'


def _binding_uses(text, name):
    """Occurrences of identifier `name` in code that can denote the *binding* `name`: an occurrence right after a
    `.` is a field / method name (`x.name`), never the binding."""
    mask = code_mask(text)
    out = []
    for m in re.finditer(r'(?<![A-Za-z0-9_])' + re.escape(name) + r'(?![A-Za-z0-9_])', text):
        if not mask[m.start()]:
            continue
        k = m.start() - 1
        while k >= 0 and text[k] in ' \t\r\n':
            k -= 1
        if k >= 0 and text[k] == '.' and not (k >= 1 and text[k - 1] == '.'):
            continue  # `recv.name` (but `a..name` is a range bound, i.e. the binding)
        out.append(m)
    return out


def B_FOR_OWNED(body, ctx):
    """A parameter `P: impl IntoIterator<Item = T>` (T an owned type) whose only use is `for X in P { B }`
    -> `P: Vec<T>` and `for X in it_: P { B }`.
    This is rule P_FOR_OWNED of rules_net.py (same rewriting, same justification: the function consumes the
    iterable once, front to back; a Vec is the finite sequence of items any such iterable yields; iterables that
    never end or have side effects are outside the contract) for functions in which a *field* has the name of the
    parameter (`self.actors.push(..)` next to the parameter `actors`): an identifier right after a `.` is a field
    or method name, not a use of the parameter. X and B are re-emitted unchanged; the loop stays a `for` loop
    over the items in order, `it_` only names Verus' ghost iterator for the loop invariants of the unit."""
    n = 0
    rxp = re.compile(r'(?<![A-Za-z0-9_])(%s)\s*:\s*impl\s+IntoIterator\s*<\s*Item\s*=\s*' % IDENT)
    while True:
        m = rxp.search(ctx['params'])
        if not m:
            break
        p = m.group(1)
        params = ctx['params']
        depth, k = 1, m.end()
        while k < len(params) and depth:
            c = params[k]
            if c == '<':
                depth += 1
            elif c == '>' and params[k - 1] != '-':
                depth -= 1
            k += 1
        if depth:
            raise LostAnchor('B_FOR_OWNED: unbalanced `<` in the parameter list')
        item = params[m.end():k - 1].strip()
        if item.startswith('&'):
            raise LostAnchor('B_FOR_OWNED: item type `%s` is a reference' % item)
        mask = code_mask(body)
        uses = _binding_uses(body, p)
        mf = None
        for f in re.finditer(r'(?<![A-Za-z0-9_.])for\s+(.+?)\s+in\s+' + re.escape(p) + r'\s*\{', body):
            if mask[f.start()]:
                mf = f
                break
        if not mf or len(uses) != 1 or not (mf.start() <= uses[0].start() < mf.end()):
            raise LostAnchor('B_FOR_OWNED: parameter `%s` is not consumed by exactly one `for X in %s`' % (p, p))
        if re.search(r'(?<![A-Za-z0-9_])%s(?![A-Za-z0-9_])' % re.escape(p), mf.group(1)):
            raise LostAnchor('B_FOR_OWNED: the loop pattern rebinds `%s`' % p)
        body = body[:mf.start()] + 'for %s in it_: %s {' % (mf.group(1), p) + body[mf.end():]
        ctx['params'] = params[:m.start()] + '%s: Vec<%s>' % (p, item) + params[k:]
        n += 1
    return body, n


def WILD_FNPTR(body, ctx):
    """Struct-literal field `F: |_, .., _| K` (every closure parameter is the wildcard `_`, so the result cannot
    depend on the arguments; K is a literal or a constant path such as `None`, `true`, `Foo::Bar`: no call, no
    variable, so evaluating it once or at every call is the same) -> `F: ConstFnPtr::from_const(K)`.
    In /repo such a closure is coerced to a fn pointer; the unit maps the fn-pointer field type to an opaque prelude
    type, and `ConstFnPtr::from_const` (prelude/amb.rs) says what that value is: the pointer that returns K for all
    arguments. F and K are re-emitted unchanged. Any other closure is left alone (and is then a compile error of the
    generated unit = undecided)."""
    mask = code_mask(body)
    rx = re.compile(r'(?<![A-Za-z0-9_.])(%s)(\s*:\s*)\|\s*_\s*(?:,\s*_\s*)*,?\s*\|\s*' % IDENT)
    # a literal, or a path all of whose segments start with an upper-case letter (enum variant / unit struct / const)
    konst = re.compile(r'(?:true|false|[0-9][0-9A-Za-z_]*|[A-Z][A-Za-z0-9_]*(?:\s*::\s*[A-Z][A-Za-z0-9_]*)*)$')
    out, pos, n = [], 0, 0
    for m in rx.finditer(body):
        if not mask[m.start()] or m.start() < pos:
            continue
        me = find_top(body, r'[,}]', m.end(), mask)
        if not me:
            raise LostAnchor('WILD_FNPTR: closure of field `%s` is not followed by `,` or `}`' % m.group(1))
        k = body[m.end():me.start()].strip()
        if not konst.match(k):
            raise LostAnchor('WILD_FNPTR: body `%s` of the all-wildcard closure of field `%s` is not a literal / constant path' % (k[:40], m.group(1)))
        out.append(body[pos:m.start()])
        out.append('%s%sConstFnPtr::from_const(%s)' % (m.group(1), m.group(2), k))
        pos = me.start()
        n += 1
    out.append(body[pos:])
    return ''.join(out), n
