// ---- prelude/am.rs: what unit AM (actor model, C06 / C09) takes from other units and from std ----
// Included inside `verus! { }`, after prelude/actor.rs. Everything marked TRUSTED is an assumption of AM;
// the `Network` items are the *contract* that unit NET proves about /repo/src/actor/network.rs.
// The including unit needs: #![feature(allocator_api)], use std::collections::{BTreeMap, HashMap, HashSet, VecDeque};
// use std::hash::Hash; use std::sync::Arc; use vstd::std_specs::hash::obeys_key_model;

// `Id <-> usize` (/repo/src/actor.rs), copied mechanically. `ix(id)` is the actor index an `Id` stands for. The unit fixes
// `global size_of usize == 8` (checked by Verus against the target), so `u64 <-> usize` casts are lossless.
spec fn ix(id: Id) -> usize { id.0 as usize }
spec fn id_of(u: usize) -> Id { Id(u as u64) }
// the two conversions are trait impls in /repo (`impl From<Id> for usize`, `impl From<usize> for Id`); they are
// verified as free functions, and callers reach them through `callmap:` (`usize::from(` => `usize_from_id(`).
/*@fn src/actor.rs :: impl From<Id> for usize :: from
rename: usize_from_id
sigmap: `Self` => `usize`
ensures:
    [ix] r == ix(id)
@*/
/*@fn src/actor.rs :: impl From<usize> for Id :: from
rename: id_from_usize
sigmap: `Self` => `Id`
ensures:
    [id] r == id_of(u)
@*/

/*@item src/actor/network.rs :: struct Envelope<Msg>
prefix: #[verifier::allow(autoderive_clone_without_spec)]
prefix: #[derive(Clone, Copy)]
@*/

// the envelope a hook is shown (`Envelope<&Msg>`), as a value
spec fn env_val<Msg>(e: Envelope<&Msg>) -> Envelope<Msg> { Envelope { src: e.src, dst: e.dst, msg: *e.msg } }

// `enum Network<Msg>` copied mechanically (A-NET-WRAP as in unit NET: the Hashable* wrappers are the std
// collections they deref to). AM never looks inside a variant's payload: the only thing it uses is which
// variant a network is (`matches!(self.init_network, Network::Ordered(_))`).
/*@item src/actor/network.rs :: enum Network<Msg>
map: `HashableHashSet<Envelope<Msg>>` => `HashSet<Envelope<Msg>>`
map: `HashableHashMap<Envelope<Msg>, usize>` => `HashMap<Envelope<Msg>, usize>`
@*/

// MODULAR CONTRACT of `Network` (proved by unit NET against its abstract views, DESIGN.md C07): each
// operation is *some* function of the network value and the envelope. AM's postconditions are stated with
// these functions, so nothing about their meaning is assumed here.
uninterp spec fn net_send<Msg: Eq + Hash>(n: Network<Msg>, e: Envelope<Msg>) -> Network<Msg>;
uninterp spec fn net_deliver<Msg: Eq + Hash>(n: Network<Msg>, e: Envelope<Msg>) -> Network<Msg>;
uninterp spec fn net_drop<Msg: Eq + Hash>(n: Network<Msg>, e: Envelope<Msg>) -> Network<Msg>;
// the envelopes `iter_deliverable` yields, in its order
uninterp spec fn net_deliverable<Msg: Eq + Hash>(n: Network<Msg>) -> Seq<Envelope<Msg>>;
spec fn net_is_ordered<Msg: Eq + Hash>(n: Network<Msg>) -> bool { n is Ordered }

impl<Msg: Eq + Hash> Network<Msg> {
    // TRUSTED (contract of /repo `Network::send`, unit NET `send.ensures.*`): total, a function of (self, envelope)
    #[verifier::external_body]
    fn send(&mut self, envelope: Envelope<Msg>)
        ensures *final(self) == net_send(*old(self), envelope)
    { unimplemented!() }
    // TRUSTED (contract of /repo `Network::on_deliver`, unit NET): panics ("envelope not found" / "flow not
    // found" / "message not found") unless the envelope is in the network; every call site in model.rs passes
    // an envelope that `iter_deliverable` yielded for this very network value.
    #[verifier::external_body]
    fn on_deliver(&mut self, envelope: Envelope<Msg>)
        requires net_deliverable(*old(self)).contains(envelope)
        ensures *final(self) == net_deliver(*old(self), envelope)
    { unimplemented!() }
    // TRUSTED (contract of /repo `Network::on_drop`, unit NET): as on_deliver
    #[verifier::external_body]
    fn on_drop(&mut self, envelope: Envelope<Msg>)
        requires net_deliverable(*old(self)).contains(envelope)
        ensures *final(self) == net_drop(*old(self), envelope)
    { unimplemented!() }
}
// `Network::iter_deliverable` returns /repo's `NetworkDeliverableIter` ("an iterator over all distinct deliverable
// envelopes in the network"): an opaque iterator whose remaining items are a sequence of envelopes.
#[verifier::external_body]
#[verifier::reject_recursive_types(Msg)]
struct NetworkDeliverableIter<'a, Msg> { it: std::marker::PhantomData<&'a Msg> }
impl<'a, Msg> NetworkDeliverableIter<'a, Msg> {
    // the envelopes still to be yielded, in order
    uninterp spec fn view(&self) -> Seq<Envelope<Msg>>;
    // TRUSTED (`Iterator::next`: "Advances the iterator and returns the next value. Returns None when iteration is
    // finished"): yields the first remaining envelope (by reference to its message), if any
    #[verifier::external_body]
    fn next(&mut self) -> (r: Option<Envelope<&'a Msg>>)
        ensures
            old(self)@.len() == 0 ==> r is None && final(self)@ == old(self)@,
            old(self)@.len() > 0 ==> r is Some && env_val(r->Some_0) == old(self)@[0] && final(self)@ == old(self)@.drop_first(),
    { unimplemented!() }
}
impl<Msg: Eq + Hash> Network<Msg> {
    // TRUSTED (contract of /repo `Network::iter_deliverable`, unit NET `deliverable_next.*`): the envelopes it
    // yields are `net_deliverable(self)`, a function of the network value
    #[verifier::external_body]
    fn iter_deliverable(&self) -> (r: NetworkDeliverableIter<'_, Msg>)
        ensures r@ == net_deliverable(*self)
    { unimplemented!() }
}
// `Envelope<&Msg>::to_cloned_msg` (/repo/src/actor/network.rs), copied mechanically
impl<Msg> Envelope<&Msg> {
/*@fn src/actor/network.rs :: impl<Msg> Envelope<&Msg> :: to_cloned_msg
requires:
    [clone] clone_eq::<Msg>()
ensures:
    [val] r == env_val(*self)
@*/
}
// TRUSTED (A-CLONE / A-DERIVE): `#[derive(Clone)]` on `Network` returns an equal value
impl<Msg: Eq + Hash> Clone for Network<Msg> {
    #[verifier::external_body]
    fn clone(&self) -> (r: Self) ensures r == *self { unimplemented!() }
}

// R6F: a struct field of fn-pointer type becomes an opaque type with a `call` method.
// TRUSTED (A-PURE, DESIGN.md 3.4 item 3): calling the pointer is a pure, deterministic, total function
// `*_apply(f, args)` of its arguments ("record_msg_in / record_msg_out: Returning Some(new_history)
// updates the relevant history, while None does not").
#[verifier::external_body]
#[verifier::reject_recursive_types(C)]
#[verifier::reject_recursive_types(H)]
#[verifier::reject_recursive_types(Msg)]
struct RecordFn<C, H, Msg> { f: fn(&C, &H, Envelope<&Msg>) -> Option<H> }
uninterp spec fn record_apply<C, H, Msg>(f: RecordFn<C, H, Msg>, cfg: C, history: H, e: Envelope<Msg>) -> Option<H>;
impl<C, H, Msg> RecordFn<C, H, Msg> {
    #[verifier::external_body]
    fn call(&self, cfg: &C, history: &H, envelope: Envelope<&Msg>) -> (r: Option<H>)
        ensures r == record_apply(*self, *cfg, *history, env_val(envelope))
    { (self.f)(cfg, history, envelope) }
}
// `within_boundary: fn(&C, &ActorModelState<A, H>) -> bool`: kept as a field, never called by a function under contract here
#[verifier::external_body]
#[verifier::reject_recursive_types(C)]
#[verifier::reject_recursive_types(S)]
struct BoundaryFn<C, S> { f: fn(&C, &S) -> bool }

// TRUSTED std: `Vec::resize_with`: "Resizes the Vec in-place so that len is equal to new_len. If new_len is
// greater than len, the Vec is extended by the difference, with each additional slot filled with the result
// of calling the closure f. ... If new_len is less than len, the Vec is simply truncated."
pub assume_specification<T, A: std::alloc::Allocator, F: FnMut() -> T>[Vec::<T, A>::resize_with](v: &mut Vec<T, A>, new_len: usize, f: F)
    requires forall|u: ()| f.requires(u)
    ensures
        final(v)@.len() == new_len,
        forall|i: int| 0 <= i < new_len && i < old(v)@.len() ==> final(v)@[i] == old(v)@[i],
        forall|i: int| old(v)@.len() <= i < new_len ==> f.ensures((), #[trigger] final(v)@[i]);

// TRUSTED std: `impl Clone for Arc`: "Makes a clone of the Arc pointer. This creates another pointer to the
// same allocation" (Verus identifies an `Arc<T>` with the `T` it points to).
pub assume_specification<T: ?Sized, A: std::alloc::Allocator + Clone>[<Arc<T, A> as Clone>::clone](a: &Arc<T, A>) -> (r: Arc<T, A>)
    ensures r == *a;

// TRUSTED (A-CLONE / A-DERIVE): `#[derive(Clone)]` on `Timers` and `RandomChoices` (/repo/src/actor/timers.rs,
// model_state.rs; the structs themselves are copied by the unit) returns a value with the same timers / the same
// choices. Needed by `ActorModelState::clone` (verified in the unit) and by `vec![X; n]` in `init_states`.
impl<T: Hash + Eq + Clone> Clone for Timers<T> {
    #[verifier::external_body]
    fn clone(&self) -> (r: Self) ensures r@ == self@ { unimplemented!() }
}
impl<Random: Clone> Clone for RandomChoices<Random> {
    #[verifier::external_body]
    fn clone(&self) -> (r: Self) ensures r@ == self@ { unimplemented!() }
}

// A-EQ as an explicit precondition on a generic value type (cf. prelude/lawful.rs): `==` is equality of values,
// what `#[derive(PartialEq)]` gives. Not an axiom: contracts that compare timers list `eq_lawful::<A::Timer>()`.
spec fn eq_lawful<T: PartialEq>() -> bool {
    &&& T::obeys_eq_spec()
    &&& forall|a: T, b: T| #[trigger] a.eq_spec(&b) == (a == b)
}

// `out.iter()` on an `Out<A>`: /repo's `impl Deref for Out` is `self.0.deref()` (the slice of the command vector),
// and slice::iter runs "from start to end": the iteration order of an `Out` is its command sequence
// (prelude/iterseq.rs, rule R11_iter_any_all).
impl<A: ActorSig> IterSeq for Out<A> {
    type Item = Command<A::Msg, A::Timer, A::Random>;
    open spec fn seq_view(&self) -> Seq<Command<A::Msg, A::Timer, A::Random>> { self@ }
}
#[verifier::external]
impl<A: ActorSig> IterSeqExec for Out<A> { fn iter_seq_exec(&self) -> Vec<&Command<A::Msg, A::Timer, A::Random>> { self.0.iter().collect() } }

// `is_no_op_with_timer` (/repo/src/actor.rs), copied mechanically: the handler left the state borrowed and its
// whole output is one `SetTimer(timer, _)` that renews the timer that fired.
/*@fn src/actor.rs :: - :: is_no_op_with_timer
rules: R11_iter_any_all
nloops: 1
attr: #[verifier::loop_isolation(false)]
requires:
    [eq] eq_lawful::<A::Timer>()
ensures:
    [def] r == (*state is Borrowed && out@.len() == 1 && out@[0] is SetTimer && out@[0]->SetTimer_0 == *timer)
loop 1:
    invariant [bounds] i_ <= it_@.len() && it_@.len() == out@.len()
    invariant [elems] forall|j: int| 0 <= j < it_@.len() ==> *#[trigger] it_@[j] == out@[j]
    invariant [none-yet] !r_ ==> forall|j: int| 0 <= j < i_ ==> !(out@[j] is SetTimer && out@[j]->SetTimer_0 == *timer)
    invariant [found] r_ ==> exists|j: int| 0 <= j < out@.len() && out@[j] is SetTimer && out@[j]->SetTimer_0 == *timer
    decreases it_@.len() - i_
hint loop 1 start:
    assert(*it_@[i_ as int] == out@[i_ as int]);
hint before `r_ = true; break;`:
    assert(out@[i_ - 1] is SetTimer && out@[i_ - 1]->SetTimer_0 == *timer);
@*/
