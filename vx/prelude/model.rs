// ---- prelude/model.rs: the Model vocabulary and the sequential stand-ins used by the checker units
// (CB, later DFS / OND / SIM).  Everything marked `external_body` / `uninterp` in this file is part of
// the trusted base (DESIGN.md 3.4); each item says which assumption it encodes.
//
// Needs in the including unit:  use vstd::prelude::*; use std::collections::VecDeque;
//                               use std::sync::atomic::Ordering; use std::hash::Hash;

// `type Fingerprint = std::num::NonZeroU64;`  (copied from /repo)
/*@item src/lib.rs :: type Fingerprint
@*/

// `enum Expectation { Always, Eventually, Sometimes }`  (copied from /repo; derives dropped)
/*@item src/lib.rs :: enum Expectation
@*/

// R6: a field of fn-pointer type becomes the opaque type `CondFn<M>`.  A-PURE: calling the pointer is
// a pure, deterministic function `cond_holds(f, model, state)` of its arguments and always returns.
#[verifier::external_body]
#[verifier::reject_recursive_types(M)]
struct CondFn<M: Model> { f: fn(&M, &M::State) -> bool }

uninterp spec fn cond_holds<M: Model>(f: CondFn<M>, m: M, s: M::State) -> bool;

// R6: `IDENT(model, &state)` on a fn-pointer binding `condition: IDENT` -> `call_cond(IDENT, model, &state)`.
#[verifier::external_body]
fn call_cond<M: Model>(f: &CondFn<M>, m: &M, s: &M::State) -> (b: bool)
    ensures b == cond_holds(*f, *m, *s)
{ (f.f)(m, s) }

// `struct Property<M: Model> { expectation, name, condition }`  (copied from /repo, fn pointer -> CondFn<M>)
/*@item src/lib.rs :: struct Property<M: Model>
prefix: #[verifier::reject_recursive_types(M)]
map: `fn(&M, &M::State) -> bool` => `CondFn<M>`
@*/

// the condition of a property, as a predicate on states
spec fn cond<M: Model>(p: Property<M>, m: M, s: M::State) -> bool { cond_holds(p.condition, m, s) }

// A-PURE: the callbacks of a model are pure deterministic total functions of their arguments.  The
// spec functions are the mathematical model (DESIGN.md 4); each exec method is tied to its spec
// function by `ensures`.  Only the callbacks the checkers call are listed.
trait Model: Sized {
    type State;
    type Action;
    spec fn inits(&self) -> Seq<Self::State>;
    spec fn acts(&self, s: Self::State) -> Seq<Self::Action>;
    spec fn nxt(&self, s: Self::State, a: Self::Action) -> Option<Self::State>;
    spec fn within(&self, s: Self::State) -> bool;
    spec fn props(&self) -> Seq<Property<Self>>;

    fn init_states(&self) -> (r: Vec<Self::State>)
        ensures r@ == self.inits();
    fn actions(&self, state: &Self::State, actions: &mut Vec<Self::Action>)
        ensures final(actions)@ == old(actions)@ + self.acts(*state);
    fn next_state(&self, last_state: &Self::State, action: Self::Action) -> (r: Option<Self::State>)
        ensures r == self.nxt(*last_state, action);
    fn properties(&self) -> (r: Vec<Property<Self>>)
        ensures r@ == self.props();
    fn within_boundary(&self, state: &Self::State) -> (r: bool)
        ensures r == self.within(*state);
}

// ---- derived vocabulary (DESIGN.md 4) ----
// t is an in-boundary successor of s
spec fn is_succ<M: Model>(m: M, s: M::State, t: M::State) -> bool {
    exists|a: M::Action| #[trigger] m.acts(s).contains(a) && m.nxt(s, a) == Some(t) && m.within(t)
}
// s is an in-boundary initial state
spec fn is_init<M: Model>(m: M, s: M::State) -> bool { m.inits().contains(s) && m.within(s) }
// s has no in-boundary successor at all: a path ending in s cannot be extended inside the boundary
spec fn is_dead_end<M: Model>(m: M, s: M::State) -> bool { forall|t: M::State| !is_succ(m, s, t) }
// ss is a path of the model: starts in an in-boundary initial state and follows in-boundary transitions
spec fn is_path<M: Model>(m: M, ss: Seq<M::State>) -> bool {
    &&& ss.len() > 0
    &&& is_init(m, ss[0])
    &&& forall|i: int| 0 <= i < ss.len() - 1 ==> is_succ(m, #[trigger] ss[i], ss[i + 1])
}
// reachable by n in-boundary transitions from an in-boundary initial state; reachable at all.
// (Stated through paths rather than by recursion on n: no recursive call under a quantifier.)
spec fn reach_n<M: Model>(m: M, s: M::State, n: nat) -> bool {
    exists|ss: Seq<M::State>| #[trigger] is_path(m, ss) && ss.last() == s && ss.len() == n + 1
}
spec fn reach<M: Model>(m: M, s: M::State) -> bool {
    exists|ss: Seq<M::State>| #[trigger] is_path(m, ss) && ss.last() == s
}

// A-FP: `fingerprint` is a deterministic function of the state.  Collision freedom is NOT an axiom:
// contracts that need it say `fp_injective_on(..)` explicitly.
// (named `fp_of` because /repo uses `fp` as a parameter name)
uninterp spec fn fp_of<S>(s: S) -> Fingerprint;
spec fn fp_injective_on<S>(dom: Set<S>) -> bool {
    forall|a: S, b: S| dom.contains(a) && dom.contains(b) && fp_of(a) == fp_of(b) ==> a == b
}
#[verifier::external_body]
fn fingerprint<T: Hash>(value: &T) -> (f: Fingerprint)
    ensures f == fp_of(*value)
{ unimplemented!() }

// ---- R7 / A-SEQ: `&DashMap<K, V, _>` becomes `&mut SeqMap<K, V>` (`&SeqMap` where only read): a plain
// map with *sequential* semantics, i.e. the proof is about one worker running alone.  Specs transcribe
// the dashmap documentation of `insert` / `contains_key` / `get` / `len` without concurrency.
#[verifier::external_body]
#[verifier::reject_recursive_types(K)]
#[verifier::reject_recursive_types(V)]
struct SeqMap<K, V> { k: Vec<K>, v: Vec<V> }
impl<K, V> SeqMap<K, V> {
    uninterp spec fn view(&self) -> Map<K, V>;
    // "Inserts a key and a value into the map. Returns the old value associated with the key if there was one."
    #[verifier::external_body]
    fn insert(&mut self, k: K, v: V) -> (r: Option<V>)
        ensures final(self)@ == old(self)@.insert(k, v),
                r == (if old(self)@.contains_key(k) { Some(old(self)@[k]) } else { None::<V> }),
    { unimplemented!() }
    // "Get an immutable reference to an entry in the map" (the `Ref` guard is a plain reference here)
    #[verifier::external_body]
    fn get(&self, k: &K) -> (r: Option<&V>)
        ensures r == (if self@.contains_key(*k) { Some(&self@[*k]) } else { None::<&V> }),
    { unimplemented!() }
    #[verifier::external_body]
    fn len(&self) -> (r: usize)
        ensures r == self@.dom().len(),
    { unimplemented!() }
}
// `contains_key<Q>(&self, key: &Q) where K: Borrow<Q>`: one instance per key type the checkers use
impl<V> SeqMap<&'static str, V> {
    #[verifier::external_body]
    fn contains_key(&self, k: &str) -> (r: bool) ensures r == self@.contains_key(k) { unimplemented!() }
}
impl<V> SeqMap<Fingerprint, V> {
    #[verifier::external_body]
    fn contains_key(&self, k: &Fingerprint) -> (r: bool) ensures r == self@.contains_key(*k) { unimplemented!() }
}

// R7 / A-SEQ: `&AtomicUsize` becomes `&mut Counter` (`&Counter` where only read); memory orderings are
// irrelevant for one worker.  `fetch_add` wraps on overflow as std documents.
#[verifier::external_body]
struct Counter { c: usize }
impl Counter {
    uninterp spec fn view(&self) -> usize;
    #[verifier::external_body]
    fn load(&self, o: Ordering) -> (r: usize) ensures r == self@ { self.c }
    // "Adds to the current value, returning the previous value. This operation wraps around on overflow."
    #[verifier::external_body]
    fn fetch_add(&mut self, v: usize, o: Ordering) -> (r: usize)
        ensures r == old(self)@,
                final(self)@ as int == (if old(self)@ + v <= usize::MAX { old(self)@ + v } else { old(self)@ + v - usize::MAX - 1 }),
    { let r = self.c; self.c = r.wrapping_add(v); r }
    // "Stores a value if the current value is the same as `current`. The return value is a result
    // indicating whether the new value was written and containing the previous value."
    #[verifier::external_body]
    fn compare_exchange(&mut self, current: usize, new: usize, s: Ordering, f: Ordering) -> (r: Result<usize, usize>)
        ensures old(self)@ == current ==> final(self)@ == new && r == Ok::<usize, usize>(current),
                old(self)@ != current ==> final(self)@ == old(self)@ && r == Err::<usize, usize>(old(self)@),
    { if self.c == current { self.c = new; Ok(current) } else { Err(self.c) } }
}

// `id_set::IdSet` (crate id-set 0.2.2) as a set of usize; specs transcribe its documentation.
pub mod id_set {
    use vstd::prelude::*;
    #[verifier::external_body]
    pub struct IdSet { s: Vec<usize> }
    impl IdSet {
        pub uninterp spec fn view(&self) -> Set<usize>;
        // "Creates an empty IdSet."
        #[verifier::external_body]
        pub fn new() -> (r: Self) ensures r@ == Set::<usize>::empty() { unimplemented!() }
        // "Inserts the given element into the set, returning true if it was not already in the set."
        #[verifier::external_body]
        pub fn insert(&mut self, id: usize) -> (r: bool)
            ensures final(self)@ == old(self)@.insert(id), r == !old(self)@.contains(id) { unimplemented!() }
        // "Removes the given element from the set, returning true if it was in the set."
        #[verifier::external_body]
        pub fn remove(&mut self, id: usize) -> (r: bool)
            ensures final(self)@ == old(self)@.remove(id), r == old(self)@.contains(id) { unimplemented!() }
        // "Returns true if the given element is in the set."
        #[verifier::external_body]
        pub fn contains(&self, id: usize) -> (r: bool) ensures r == self@.contains(id) { unimplemented!() }
    }
    // `#[derive(Clone)]`-like: the clone has the same elements (A-CLONE)
    impl Clone for IdSet {
        #[verifier::external_body]
        fn clone(&self) -> (r: Self) ensures r@ == self@ { unimplemented!() }
    }
}

// `type EventuallyBits = id_set::IdSet;`  (copied from /repo)
/*@item src/checker.rs :: type EventuallyBits
@*/

// `struct Path<State, Action>(Vec<(State, Option<Action>)>);`  (copied from /repo)
/*@item src/checker/path.rs :: struct Path<State, Action>
@*/
// the states of a path, in order
spec fn path_states<S, A>(p: Path<S, A>) -> Seq<S> { Seq::new(p.0@.len(), |i: int| p.0@[i].0) }

// fps is the fingerprint sequence of the state sequence ss
spec fn has_fps<S>(ss: Seq<S>, fps: Seq<Fingerprint>) -> bool {
    ss.len() == fps.len() && forall|i: int| 0 <= i < ss.len() ==> fp_of(#[trigger] ss[i]) == fps[i]
}
// t is a successor of s (boundary not considered)
spec fn is_step<M: Model>(m: M, s: M::State, t: M::State) -> bool {
    exists|a: M::Action| #[trigger] m.acts(s).contains(a) && m.nxt(s, a) == Some(t)
}
// ss starts in an initial state (boundary NOT required by from_fingerprints) and follows transitions
spec fn is_chain<M: Model>(m: M, ss: Seq<M::State>) -> bool {
    &&& ss.len() > 0
    &&& m.inits().contains(ss[0])
    &&& forall|i: int| 0 <= i < ss.len() - 1 ==> is_step(m, #[trigger] ss[i], ss[i + 1])
}

// The ASSUMED contract of `Path::from_fingerprints` (used by the checker units CB / OND, which only call it)
// lives in prelude/model_path_assumed.rs: include it right after this file.  Unit PATH, which VERIFIES the real
// function against that contract, includes this file without it.

// R12: `Box<dyn CheckerVisitor<M> + Send + Sync>` becomes the opaque `VisitorBox<M>`; the only effect of
// `visit` is that it appends the path it is shown to the visit log (an extra `&mut VisitLog<M>` that
// the rule threads through: the real visitor has interior mutability).
#[verifier::external_body]
#[verifier::reject_recursive_types(M)]
struct VisitorBox<M: Model> { v: Option<M> }
#[verifier::external_body]
#[verifier::reject_recursive_types(M)]
struct VisitLog<M: Model> { v: Option<M> }
impl<M: Model> VisitLog<M> {
    uninterp spec fn view(&self) -> Seq<Path<M::State, M::Action>>;
}
impl<M: Model> VisitorBox<M> {
    #[verifier::external_body]
    fn visit(&self, model: &M, path: Path<M::State, M::Action>, log: &mut VisitLog<M>)
        ensures final(log)@ == old(log)@.push(path)
    { unimplemented!() }
}

// R11: `V.drain(..)` as an iterator object: yields the elements of V front to back and leaves V empty
// (std: "Removes the specified range from the vector in bulk, returning all removed elements as an iterator").
#[verifier::external_body]
#[verifier::reject_recursive_types(T)]
struct DrainAll<T> { v: VecDeque<T> }
impl<T> DrainAll<T> {
    uninterp spec fn view(&self) -> Seq<T>;
    #[verifier::external_body]
    fn next(&mut self) -> (r: Option<T>)
        ensures old(self)@.len() == 0 ==> r.is_none() && final(self)@ == old(self)@,
                old(self)@.len() > 0 ==> r == Some(old(self)@[0]) && final(self)@ == old(self)@.drop_first(),
    { self.v.pop_front() }
}
#[verifier::external_body]
fn drain_all<T>(v: &mut Vec<T>) -> (r: DrainAll<T>)
    ensures r@ == old(v)@, final(v)@.len() == 0
{ DrainAll { v: v.drain(..).collect() } }

// R11D: `P.drain(..n).collect::<Vec<_>>()` on a VecDeque (std: "Removes the specified range from the deque in
// bulk, returning all removed elements as an iterator ... Panics if the end point is greater than the length").
#[verifier::external_body]
fn drain_front<T>(v: &mut VecDeque<T>, n: usize) -> (r: Vec<T>)
    requires n <= old(v)@.len()
    ensures r@ == old(v)@.subrange(0, n as int), final(v)@ == old(v)@.subrange(n as int, old(v)@.len() as int)
{ v.drain(..n).collect::<Vec<_>>() }

// R7 / A-SEQ: `&DashSet<K, _>` becomes `&mut SeqSet<K>`: a plain set with sequential semantics.
// dashmap: "Inserts a key into the set. Returns true if the key was not already in the set."
#[verifier::external_body]
#[verifier::reject_recursive_types(K)]
struct SeqSet<K> { k: Vec<K> }
impl<K> SeqSet<K> {
    uninterp spec fn view(&self) -> Set<K>;
    #[verifier::external_body]
    fn insert(&mut self, k: K) -> (r: bool)
        ensures final(self)@ == old(self)@.insert(k), r == !old(self)@.contains(k), !r ==> final(self)@ == old(self)@,
    { unimplemented!() }
    #[verifier::external_body]
    fn contains(&self, k: &K) -> (r: bool) ensures r == self@.contains(*k) { unimplemented!() }
    #[verifier::external_body]
    fn len(&self) -> (r: usize) ensures r == self@.len() { unimplemented!() }
}

// R6S: the symmetry function `fn(&S) -> S` as an opaque value; A-PURE: calling it is a pure total function.
#[verifier::external_body]
#[verifier::reject_recursive_types(S)]
struct ReprFn<S> { f: fn(&S) -> S }
uninterp spec fn repr_apply<S>(f: ReprFn<S>, s: S) -> S;
#[verifier::external_body]
fn call_repr<S>(f: &ReprFn<S>, s: &S) -> (r: S)
    ensures r == repr_apply(*f, *s)
{ (f.f)(s) }

// `VecDeque::from(vec)` (std: "Turn a Vec<T> into a VecDeque<T>"): same elements in the same order.  vstd only
// says the result is `from_spec(vec)`; this axiom gives that spec function its meaning.
#[verifier::external_body]
proof fn axiom_vecdeque_from_vec<T>()
    ensures <VecDeque<T> as vstd::std_specs::convert::FromSpec<Vec<T>>>::obeys_from_spec(),
            forall|v: Vec<T>| (#[trigger] <VecDeque<T> as vstd::std_specs::convert::FromSpec<Vec<T>>>::from_spec(v))@ == v@
{}

// `trait Chooser<M>` of checker/simulation.rs as an opaque oracle: the only thing the checker relies on is that
// a choice among a non-empty slice is an index into it (`UniformChooser` uses `gen_range(0..len)`).
trait Chooser<M: Model> {
    type State;
    fn new_state(&self, seed: u64) -> Self::State;
    fn choose_initial_state(&self, state: &mut Self::State, initial_states: &[M::State]) -> (r: usize)
        ensures initial_states@.len() > 0 ==> r < initial_states@.len();
    fn choose_action(&self, state: &mut Self::State, current_state: &M::State, actions: &[M::Action]) -> (r: usize)
        ensures actions@.len() > 0 ==> r < actions@.len();
}

// A-KEY for the std type of fingerprints: `NonZeroU64`'s `Hash` / `Eq` are lawful, so a std `HashSet<Fingerprint>`
// behaves as a set (vstd's HashSet specs are conditional on this).
#[verifier::external_body]
proof fn axiom_fingerprint_key_model()
    ensures vstd::std_specs::hash::obeys_key_model::<Fingerprint>()
{}
