// ---- prelude/hash.rs: ghost byte stream of a `Hasher` (rule R5) ----
// `stream(h)`: everything written to hasher `h` so far. `enc(x)`: what `x`'s `Hash` impl writes.
// `feed(&x, h)` stands for `x.hash(h)`: std documents that `Hash::hash` "feeds this value into the
// given Hasher", i.e. it only appends writes. Trusted: A-DERIVE - for types whose `Hash`/`PartialEq`
// are derived or std-provided, `enc` is injective up to `==` (equal values feed equal streams,
// different values feed different, prefix-free streams): stated where a lemma needs it.
pub uninterp spec fn stream<H>(h: H) -> Seq<int>;
pub uninterp spec fn enc<T>(x: T) -> Seq<int>;

#[verifier::external_body]
pub fn feed<T, H>(x: &T, state: &mut H)
    ensures stream(*final(state)) == stream(*old(state)) + enc(*x)
{ unimplemented!() }

// `a.eq(&b)` of a derived / std `PartialEq`: structural equality of the values (A-EQ)
#[verifier::external_body]
pub fn field_eq<T>(a: &T, b: &T) -> (r: bool)
    ensures r == (*a == *b)
{ unimplemented!() }

// slices / Vec: std `impl Hash for [T]` writes the length and then every element, and `Vec<T>`,
// `&[T]` delegate to it: the stream depends only on the element sequence.
pub uninterp spec fn enc_seq<T>(s: Seq<T>) -> Seq<int>;
pub broadcast axiom fn axiom_enc_slice<T>(x: &[T])
    ensures #[trigger] enc::<&[T]>(x) == enc_seq(x@);
pub broadcast axiom fn axiom_enc_vec<T>(x: Vec<T>)
    ensures #[trigger] enc::<Vec<T>>(x) == enc_seq(x@);

// `a.eq(b)` on two slices: std compares lengths and then elements with `==` (A-EQ)
#[verifier::external_body]
pub fn ref_eq<T>(a: &[T], b: &[T]) -> (r: bool)
    ensures r == (a@ == b@)
{ unimplemented!() }

// std: `impl<T: Hash> Hash for &T` "forwards to T": a reference feeds what its referent feeds.
pub broadcast axiom fn axiom_enc_ref<T>(x: &T)
    ensures #[trigger] enc::<&T>(x) == enc::<T>(*x);

// `crate::stable::hasher()` (src/lib.rs): a fresh hasher with fixed keys; nothing written yet.
#[verifier::external_body]
pub struct StableHasher { _p: u8 }
// `Hasher::finish` is a function of what was written (std: "returns the hash value for the values
// written so far"); fixed keys make it the same function on every call and every thread.
pub uninterp spec fn fin(s: Seq<int>) -> u64;
#[verifier::external_body]
pub fn stable_hasher() -> (h: StableHasher) ensures stream(h) == Seq::<int>::empty() { unimplemented!() }
impl StableHasher {
    #[verifier::external_body]
    pub fn finish(&self) -> (r: u64) ensures r == fin(stream(*self)) { unimplemented!() }
}

// `Hasher::write_u64(w)` / `write_usize(w)`: one word is appended to the stream (rule R5_write)
#[verifier::external_body]
pub fn feed_u64<H>(w: u64, state: &mut H)
    ensures stream(*final(state)) == stream(*old(state)).push(w as int)
{ unimplemented!() }
#[verifier::external_body]
pub fn feed_usize<H>(w: usize, state: &mut H)
    ensures stream(*final(state)) == stream(*old(state)).push(w as int)
{ unimplemented!() }

// std: `sort_unstable` "sorts the slice ... may reorder equal elements": sorted, and a permutation.
pub open spec fn sorted_u64(s: Seq<u64>) -> bool { forall|i: int, j: int| 0 <= i <= j < s.len() ==> s[i] <= s[j] }
#[verifier::external_body]
pub fn sort_unstable_vec(v: &mut Vec<u64>)
    ensures sorted_u64(final(v)@), final(v)@.to_multiset() == old(v)@.to_multiset()
{ unimplemented!() }
pub open spec fn words(s: Seq<u64>) -> Seq<int> { s.map_values(|w: u64| w as int) }
