// ---- prelude/hash.rs: ghost byte stream of a `Hasher` (rule R5) ----
// `stream(h)`: everything written to hasher `h` so far. `enc(x)`: what `x`'s `Hash` impl writes.
// `feed(&x, h)` stands for `x.hash(h)`: std documents that `Hash::hash` "feeds this value into the
// given Hasher", i.e. it only appends writes. Trusted: A-DERIVE - for types whose `Hash`/`PartialEq`
// are derived or std-provided, `enc` is injective up to `==` (equal values feed equal streams,
// different values feed different, prefix-free streams): stated where a lemma needs it.
pub uninterp spec fn stream<H>(h: H) -> Seq<int>;
pub uninterp spec fn enc<T>(x: T) -> Seq<int>;

#[verifier::external_body]
pub fn feed<T, H>(x: &T, state: &mut H)
    ensures stream(*final(state)) == stream(*old(state)) + enc(*x)
{ unimplemented!() }

// `a.eq(&b)` of a derived / std `PartialEq`: structural equality of the values (A-EQ)
#[verifier::external_body]
pub fn field_eq<T>(a: &T, b: &T) -> (r: bool)
    ensures r == (*a == *b)
{ unimplemented!() }

// slices / Vec: std `impl Hash for [T]` writes the length and then every element, and `Vec<T>`,
// `&[T]` delegate to it: the stream depends only on the element sequence.
pub uninterp spec fn enc_seq<T>(s: Seq<T>) -> Seq<int>;
pub broadcast axiom fn axiom_enc_slice<T>(x: &[T])
    ensures #[trigger] enc::<&[T]>(x) == enc_seq(x@);
pub broadcast axiom fn axiom_enc_vec<T>(x: Vec<T>)
    ensures #[trigger] enc::<Vec<T>>(x) == enc_seq(x@);

// `a.eq(b)` on two slices: std compares lengths and then elements with `==` (A-EQ)
#[verifier::external_body]
pub fn ref_eq<T>(a: &[T], b: &[T]) -> (r: bool)
    ensures r == (a@ == b@)
{ unimplemented!() }
