// ---- prelude/fpath_inv.rs: vocabulary and lemmas shared by the checkers that record whole fingerprint paths
// (DFS: dfs.rs, SIM: simulation.rs).  Nothing here is trusted.  Needs prelude/model.rs and chk_common.rs.

type EvS<S> = Seq<(S, Seq<Fingerprint>)>;
type DiscV = Map<&'static str, Vec<Fingerprint>>;
type Sym<S> = Option<ReprFn<S>>;
// the representative of s, and the key under which s is recorded in `generated`
spec fn rep<S>(sym: Sym<S>, s: S) -> S { match sym { Some(f) => repr_apply(f, s), None => s } }
spec fn rkey<S>(sym: Sym<S>, s: S) -> Fingerprint { fp_of(rep(sym, s)) }
spec fn ev_has<S>(ev: EvS<S>, n0: int, fv: Seq<Fingerprint>) -> bool {
    exists|n: int| n0 <= n < ev.len() && (#[trigger] ev[n]).1 == fv
}
// p is a real run of the model with the fingerprints of an in-boundary path that ends in s
spec fn shows_state<M: Model>(m: M, p: Path<M::State, M::Action>, s: M::State) -> bool {
    real_path(m, p) && exists|ss: Seq<M::State>| #[trigger] is_path(m, ss) && ss.last() == s && same_fps(path_states(p), ss)
}
#[verifier::opaque]
spec fn vis_inv<M: Model>(m: M, log: Seq<Path<M::State, M::Action>>, ev: EvS<M::State>) -> bool {
    log.len() == ev.len() && forall|n: int| 0 <= n < log.len() ==> shows_state(m, #[trigger] log[n], ev[n].0)
}
#[verifier::opaque]
spec fn disc_frame<M: Model>(m: M, d0: DiscV, d1: DiscV, ev: EvS<M::State>, n0: int) -> bool {
    &&& forall|name: &'static str| #[trigger] d0.contains_key(name) ==>
            d1.contains_key(name) && (d1[name]@ == d0[name]@ || has_eventually(m, name))
    &&& forall|name: &'static str| #[trigger] d1.contains_key(name) && !(d0.contains_key(name) && d0[name]@ == d1[name]@) ==>
            ev_has(ev, n0, d1[name]@)
}
// D2: a property without a discovery passed on every evaluated state
#[verifier::opaque]
spec fn tested_ok<M: Model>(m: M, d: DiscV, ev: EvS<M::State>) -> bool {
    forall|n: int, i: int| 0 <= n < ev.len() && 0 <= i < m.props().len() && !d.contains_key(m.props()[i].name)
        ==> #[trigger] passes(m, i, ev[n].0)
}
proof fn visit_step<M: Model>(m: M, log: Seq<Path<M::State, M::Action>>, ev: EvS<M::State>, s: M::State, fv: Seq<Fingerprint>,
                              path: Path<M::State, M::Action>, ss: Seq<M::State>)
    requires vis_inv(m, log, ev), real_path(m, path), has_fps(path_states(path), fv), is_path(m, ss), ss.last() == s, has_fps(ss, fv)
    ensures vis_inv(m, log.push(path), ev.push((s, fv)))
{
    reveal(vis_inv);
    assert(same_fps(path_states(path), ss));
    assert(shows_state(m, path, s));
}
// D2 bookkeeping: the job just evaluated (last of the log) passed every property that still has no discovery
proof fn tested_update<M: Model>(m: M, d0: DiscV, dx: DiscV, d1: DiscV, ev: EvS<M::State>, s: M::State, fv: Seq<Fingerprint>, done: int)
    requires
        tested_ok(m, d0, ev), d0.dom().subset_of(d1.dom()), dx.dom().subset_of(d1.dom()),
        local_tested(m, dx, s, done), done >= m.props().len(),
    ensures tested_ok(m, d1, ev.push((s, fv)))
{
    reveal(tested_ok); reveal(local_tested);
    let e2 = ev.push((s, fv));
    assert forall|n: int, i: int| 0 <= n < e2.len() && 0 <= i < m.props().len() && !d1.contains_key(m.props()[i].name)
        implies #[trigger] passes(m, i, e2[n].0) by {
        let nm = m.props()[i].name;
        assert(d0.dom().contains(nm) ==> d1.dom().contains(nm));
        assert(dx.dom().contains(nm) ==> d1.dom().contains(nm));
        if n < ev.len() { assert(e2[n] == ev[n]); assert(passes(m, i, ev[n].0)); } else { assert(passes(m, i, s)); }
    }
}
proof fn tested_mono<M: Model>(m: M, d0: DiscV, d1: DiscV, ev: EvS<M::State>)
    requires tested_ok(m, d0, ev), d0.dom().subset_of(d1.dom())
    ensures tested_ok(m, d1, ev)
{
    reveal(tested_ok);
    assert forall|n: int, i: int| 0 <= n < ev.len() && 0 <= i < m.props().len() && !d1.contains_key(m.props()[i].name)
        implies #[trigger] passes(m, i, ev[n].0) by {
        assert(d0.dom().contains(m.props()[i].name) ==> d1.dom().contains(m.props()[i].name));
    }
}
