// ---- prelude/spawn.rs: the externals of /repo/src/actor/spawn.rs `on_command` (unit SPAWN, property C17) ----
// Included inside `verus! { }`, after prelude/actor.rs. Everything here is TRUSTED: it transcribes the std / rand
// documentation quoted at each item (or, for `addr_from_id`, the contract of a /repo function decided elsewhere).
// The including unit needs: use std::time::{Duration, Instant}; use std::net::SocketAddrV4; use std::ops::Range;
// use std::cmp::Ordering; use vstd::std_specs::ops::AddSpec; use vstd::std_specs::cmp::PartialOrdSpec;

// ---- time -------------------------------------------------------------------------------------------------
// `std::time::Instant`: "A measurement of a monotonically nondecreasing clock. Opaque and useful only with Duration."
#[verifier::external_type_specification]
#[verifier::external_body]
pub struct ExInstant(std::time::Instant);
// spec views: an instant / a duration as a number of nanoseconds (Instant: since an arbitrary fixed origin of the
// clock; Duration: "a span of time ... composed of a whole number of seconds and a fractional part represented in
// nanoseconds", never negative).
pub uninterp spec fn inst_ns(i: Instant) -> int;
pub uninterp spec fn dur_ns(d: Duration) -> nat;

// The clock readings at which the function under contract was called and at which it returns (two uninterpreted
// constants per call; property lemmas quantify over them). `Instant::now`: "Returns an instant corresponding to
// 'now'"; Instant: "Instants are always guaranteed, barring platform bugs, to be no less than any previously
// measured instant when created": every reading taken during the call lies between the two.
pub uninterp spec fn call_instant() -> int;
pub uninterp spec fn return_instant() -> int;
pub assume_specification[Instant::now]() -> (r: Instant)
    ensures call_instant() <= inst_ns(r) <= return_instant();

// `impl Add<Duration> for Instant`: "Panics: This function may panic if the resulting point in time cannot be
// represented by the underlying data structure. See Instant::checked_add for a version without panic."
// `instant_add_fits(n, d)`: the point in time n + d (nanoseconds) can be represented. The addition is a
// precondition-carrying trait method of vstd (`AddSpec`); its three spec functions are fixed for
// (Instant, Duration) by the two axioms below.
pub uninterp spec fn instant_add_fits(n: int, d: int) -> bool;
#[verifier::external_body] pub broadcast proof fn axiom_instant_add_obeys()
    ensures #[trigger] <Instant as AddSpec<Duration>>::obeys_add_spec(),
{}
#[verifier::external_body] pub broadcast proof fn axiom_instant_add_req(a: Instant, d: Duration)
    ensures #[trigger] a.add_req(d) == instant_add_fits(inst_ns(a), dur_ns(d) as int),
{}
#[verifier::external_body] pub broadcast proof fn axiom_instant_add(a: Instant, d: Duration)
    ensures inst_ns(#[trigger] a.add_spec(d)) == inst_ns(a) + dur_ns(d),
{}

// `impl PartialOrd for Duration` (derived on (secs, nanos) with nanos < 1e9, i.e. the order of the total number
// of nanoseconds): `a < b` iff a is the shorter span.
#[verifier::external_body] pub broadcast proof fn axiom_duration_ord(a: Duration, b: Duration)
    ensures
        <Duration as PartialOrdSpec>::obeys_partial_cmp_spec(),
        (#[trigger] a.partial_cmp_spec(&b) == Some(Ordering::Less)) == (dur_ns(a) < dur_ns(b)),
{}
pub broadcast group group_time { axiom_instant_add_obeys, axiom_instant_add_req, axiom_instant_add, axiom_duration_ord }

// `Duration::from_secs`: "Creates a new Duration from the specified number of whole seconds."
pub assume_specification[Duration::from_secs](secs: u64) -> (r: Duration)
    ensures dur_ns(r) == secs * 1_000_000_000;
// `Duration::ZERO`: "A duration of zero time." (rule ASSOC_CONST; Verus cannot import associated constants)
#[verifier::external_body]
fn duration_zero() -> (r: Duration)
    ensures dur_ns(r) == 0
{ Duration::ZERO }

// ---- addresses and the socket (assumption A-SOCK) ------------------------------------------------------------
// `std::net::SocketAddrV4`: "An IPv4 socket address" - opaque here.
#[verifier::external_type_specification]
#[verifier::external_body]
pub struct ExSocketAddrV4(std::net::SocketAddrV4);
// /repo `impl From<Id> for SocketAddrV4` (spawn.rs): the address an `Id` encodes. Uninterpreted: that it is the
// big-endian ip:port reading of the low 48 bits and a bijection on 48-bit ids is decided by the Kani harnesses
// `k_id_*` (C17, complete); callers reach it through `callmap: SocketAddrV4::from( => addr_from_id(`.
uninterp spec fn addr_of(id: Id) -> SocketAddrV4;
#[verifier::external_body]
fn addr_from_id(id: Id) -> (r: SocketAddrV4)
    ensures r == addr_of(id)
{ unimplemented!() }

// A-SOCK: `&UdpSocket` is modelled as `&mut Socket` (rule SOCK_PARAM), an opaque value carrying the ghost log of
// the datagrams it has handed to the OS: `sent()` = (payload bytes, destination address), oldest first.
#[verifier::external_body]
pub struct Socket { s: std::net::UdpSocket }
// `std::io::Error`, opaque
#[verifier::external_body]
pub struct IoError { e: std::io::Error }
// whether the OS accepts the datagram (buffer space, routing, size limit ..): a function of the opaque socket value
pub uninterp spec fn os_accepts(s: Socket, buf: Seq<u8>, addr: SocketAddrV4) -> bool;
impl Socket {
    pub uninterp spec fn sent(&self) -> Seq<(Seq<u8>, SocketAddrV4)>;
    // `UdpSocket::send_to`: "Sends data on the socket to the given address. On success, returns the number of
    // bytes written." One call emits exactly one datagram carrying exactly `buf` to `addr` when it returns Ok
    // (UDP: a datagram is sent whole or not at all, so the number is buf.len()), and none when it returns Err.
    #[verifier::external_body]
    fn send_to(&mut self, buf: &[u8], addr: SocketAddrV4) -> (r: Result<usize, IoError>)
        ensures
            r is Ok == os_accepts(*old(self), buf@, addr),
            r is Ok ==> final(self).sent() == old(self).sent().push((buf@, addr)) && r->Ok_0 == buf@.len(),
            r is Err ==> final(self).sent() == old(self).sent(),
    { unimplemented!() }
}

// ---- the `serialize` fn pointer (rule FNPTR_PARAM, assumption A-PURE) -------------------------------------------
// A parameter `fn(&T) -> R` becomes the opaque `FnRef1<T, R>`; calling it is a pure, deterministic, total function
// `apply(arg)` of its argument (/repo `spawn` documents `serialize` by the example `serde_json::to_vec`).
#[verifier::external_body]
#[verifier::reject_recursive_types(T)]
#[verifier::reject_recursive_types(R)]
pub struct FnRef1<T, R> { f: fn(&T) -> R }
impl<T, R> FnRef1<T, R> {
    pub uninterp spec fn apply(self, t: T) -> R;
    #[verifier::external_body]
    fn call(&self, t: &T) -> (r: R)
        ensures r == self.apply(*t)
    { (self.f)(t) }
}

// ---- rand 0.8 (`rand::thread_rng`, `Rng::gen_range`, `SliceRandom::choose`) ---------------------------------------
// Verus checks a single file without extern crates: the paths the body names (`rand::thread_rng`, `rand::Rng`,
// `rand::prelude::{Rng, SliceRandom}`) resolve to this stub module, which carries only the documented contracts.
pub mod rand {
    use super::*;
    // `rand::rngs::ThreadRng`: "A reference to the thread-local generator" - opaque
    #[verifier::external_body]
    pub struct ThreadRng { p: () }
    // `rand::thread_rng`: "Retrieve the lazily-initialized thread-local random number generator"
    #[verifier::external_body]
    pub fn thread_rng() -> ThreadRng { unimplemented!() }
    pub trait Rng {
        // `Rng::gen_range` (rand 0.8) at T = Duration, R = Range<Duration>, the only instance /repo uses:
        // "Generate a random value in the given range. ... Only `gen_range(low..high)` and `gen_range(low..=high)`
        // are supported. Panics if the range is empty." `low..high` is half-open: low <= value < high.
        fn gen_range(&mut self, range: Range<Duration>) -> (r: Duration)
            requires dur_ns(range.start) < dur_ns(range.end)
            ensures dur_ns(range.start) <= dur_ns(r) < dur_ns(range.end);
    }
    impl Rng for ThreadRng {
        #[verifier::external_body]
        fn gen_range(&mut self, range: Range<Duration>) -> (r: Duration) { unimplemented!() }
    }
    pub mod prelude {
        pub use super::Rng;
        pub use super::SliceRandom;
    }
    // `SliceRandom::choose`: "Returns a reference to one random element of the slice, or None if the slice is empty."
    // rand implements the trait for `[T]`; /repo calls it on a `Vec<A::Random>` through `Deref<Target = [T]>`, whose
    // elements are the vector's (`elems`), so the stub implements it for `Vec<T>` directly.
    pub trait SliceRandom<T> {
        spec fn elems(&self) -> Seq<T>;
        fn choose<'a, G: Rng>(&'a self, rng: &mut G) -> (r: Option<&'a T>)
            ensures
                self.elems().len() == 0 ==> r is None,
                self.elems().len() > 0 ==> r is Some && exists|i: int| 0 <= i < self.elems().len() && *r->Some_0 == #[trigger] self.elems()[i];
    }
    impl<T> SliceRandom<T> for Vec<T> {
        open spec fn elems(&self) -> Seq<T> { self@ }
        #[verifier::external_body]
        fn choose<'a, G: Rng>(&'a self, rng: &mut G) -> (r: Option<&'a T>) { unimplemented!() }
    }
}
