// ---- prelude/dnx.rs: what unit DNX trusts beyond prelude/iterseq.rs and prelude/plan.rs ----
// Included inside `verus! { }` after prelude/plan.rs. Items: `panic_unreachable` (harmless: cannot be called),
// `panic_exit` (TRUSTED: the partial-correctness reading of `panic!`).

// Rule DX_PANIC_EXIT (vx/rules_dnx.py) replaces `panic!(..)` by a call of this function in the SECOND copy of
// `DenseNatMap::from_iter` (`DNX.from_pairs_or_panic`), whose contract says for which inputs the function returns
// at all. TRUSTED std, macro `panic!`: "Panics the current thread"; the macro has type `!` (Rust reference, never
// type: "expressions of type ! ... never complete"): control does not continue after it. `ensures false` is that
// statement - whatever follows the call holds vacuously - and is sound for PARTIAL correctness only: a
// postcondition proved through this function reads "if the function returns, then ..". The first copy
// (`DNX.from_pairs`) does not use it: there the default Verus reading applies (`panic!` must be unreachable).
#[verifier::external_body]
pub fn panic_exit() -> !
    ensures false
{ panic!() }

// Rule DX_PANIC_UNREACHABLE replaces `panic!(..)` by a call of this function in the FIRST copy (`DNX.from_pairs`).
// It is Verus' own reading of `panic!` ("unreachable") written as a precondition, so that a reachable panic is
// reported at the call site (obligation `<fn>.body`). `requires false`: verified code can never call it, so
// nothing is assumed by it (it is `external_body` only because its body is the panic itself).
#[verifier::external_body]
pub fn panic_unreachable() -> !
    requires false
{ panic!() }
