// ---- prelude/rewrite.rs: RewritePlan / Rewrite as opaque operations (unit REP) ----
// The permutation itself (`from_values_to_sort`, `reindex`, `rewrite(Id)`) is decided by the Kani
// harnesses k_plan_* on the real RewritePlan; here the operations are uninterpreted functions, so
// that what is proved about `representative` is WHICH operation, with WHICH plan, is applied to
// WHICH component.
#[verifier::external_body]
#[verifier::reject_recursive_types(R)]
#[verifier::reject_recursive_types(S)]
pub struct RewritePlan<R, S> { _r: core::marker::PhantomData<(R, S)> }
pub struct DenseNatMap<K, V>(pub K, pub V);
pub uninterp spec fn sort_plan<R, S, V>(values: Seq<V>) -> RewritePlan<R, S>;
pub uninterp spec fn reindexed<R, S, C>(plan: RewritePlan<R, S>, c: C) -> C;
pub uninterp spec fn rewritten<R, S, T>(plan: RewritePlan<R, S>, x: T) -> T;

impl<R> RewritePlan<R, DenseNatMap<R, R>> {
    // `RewritePlan::from_values_to_sort(&v)`: the plan that stably sorts `v`
    #[verifier::external_body]
    pub fn from_values_to_sort<V>(to_sort: &Vec<V>) -> (p: Self)
        ensures p == sort_plan::<R, DenseNatMap<R, R>, V>(to_sort@)
    { unimplemented!() }
}
impl<R, S> RewritePlan<R, S> {
    // `plan.reindex(&c)`: the collection permuted by the plan (elements rewritten)
    #[verifier::external_body]
    pub fn reindex<C>(&self, indexed: &C) -> (r: C)
        ensures r == reindexed(*self, *indexed)
    { unimplemented!() }
}
// `x.rewrite(&plan)`: trait `Rewrite<R>`
pub trait Rewrite<R>: Sized {
    fn rewrite<S>(&self, plan: &RewritePlan<R, S>) -> (r: Self)
        ensures r == rewritten(*plan, *self);
}

