// ---- prelude/path.rs: what unit PATH (checker/path.rs) needs besides prelude/model.rs ----
// Needs in the including unit:  #![feature(nonzero_internals)]  use vstd::prelude::*; use std::hash::Hash;
//   use std::num::{NonZero, ZeroablePrimitive}; use vstd::std_specs::cmp::PartialEqSpec;   and prelude/model.rs before it.
// TRUSTED items: vec_contains (external_body), axiom_fp_ref (external_body proof); next_steps / next_states are contract
// stubs whose real bodies unit MDL proves against the same postconditions,
// `NonZero<T> == NonZero<T>` (assume_specification).  Everything else is a
// plain definition.

// ---- `Model::next_steps` / `Model::next_states` (provided methods of the real trait, /repo/src/lib.rs) ----
// The steps out of `s` for the first `n` actions of `acts(s)`: the pairs `(a, t)` with `nxt(s, a) == Some(t)`,
// in the order of `acts(s)`.
spec fn steps_upto<M: Model>(m: M, s: M::State, n: nat) -> Seq<(M::Action, M::State)>
    decreases n
{
    if n == 0 {
        Seq::empty()
    } else {
        let a = m.acts(s)[n - 1];
        match m.nxt(s, a) {
            Some(t) => steps_upto(m, s, (n - 1) as nat).push((a, t)),
            None => steps_upto(m, s, (n - 1) as nat),
        }
    }
}
spec fn steps_of<M: Model>(m: M, s: M::State) -> Seq<(M::Action, M::State)> { steps_upto(m, s, m.acts(s).len()) }
spec fn succs_of<M: Model>(m: M, s: M::State) -> Seq<M::State> {
    Seq::new(steps_of(m, s).len(), |i: int| steps_of(m, s)[i].1)
}

// TRUSTED (rule P_PROVIDED): transcribes the 10-line default body of `Model::next_steps`
//   actions(s, &mut a1); actions(s, &mut a2); a1.into_iter().zip(a2).filter_map(|(x1, x2)| next_state(s, x1).map(|t| (x2, t))).collect()
// With A-PURE both `actions` calls give `acts(s)`, so the zip pairs every action with itself, and
// `filter_map` keeps, in order, the actions that have a successor.  The body below is that transcription
// (compiled, not verified here: zip / filter_map / collect are outside Verus).  A model that OVERRIDES the provided
// methods is outside this contract (no model in /repo does).
// This is the CALLEE-SIDE CONTRACT STUB for modular calls: the REAL default body, re-extracted from /repo/src/lib.rs on
// every run, is verified against exactly this postcondition (same spec fn `steps_of`, this file is included there) by
// unit MDL, obligation MDL.model_next_steps.ensures.steps-in-order.
// PROVED-IN: MDL.model_next_steps
#[verifier::external_body]
fn next_steps<M: Model>(m: &M, last_state: &M::State) -> (r: Vec<(M::Action, M::State)>)
    ensures r@ == steps_of(*m, *last_state)
{
    let mut actions1 = Vec::new();
    let mut actions2 = Vec::new();
    m.actions(last_state, &mut actions1);
    m.actions(last_state, &mut actions2);
    actions1.into_iter().zip(actions2)
        .filter_map(|(action1, action2)| m.next_state(last_state, action1).map(|state| (action2, state)))
        .collect()
}
// TRUSTED (rule P_PROVIDED): the default body of `Model::next_states`
//   actions(s, &mut a); a.into_iter().filter_map(|x| next_state(s, x)).collect()
// = the states of `next_steps`, in the same order.  Callee-side contract stub; the real body is verified against this
// postcondition by unit MDL, obligation MDL.model_next_states.ensures.states-of-steps-in-order.
// PROVED-IN: MDL.model_next_states
#[verifier::external_body]
fn next_states<M: Model>(m: &M, last_state: &M::State) -> (r: Vec<M::State>)
    ensures r@ == succs_of(*m, *last_state)
{
    let mut actions = Vec::new();
    m.actions(last_state, &mut actions);
    actions.into_iter().filter_map(|action| m.next_state(last_state, action)).collect()
}

// ---- A-EQ as an explicit precondition (cf. prelude/lawful.rs, which also asks for Clone): `==` on T is
// equality of values, what `#[derive(PartialEq)]` gives.  Not an axiom.
spec fn eq_lawful<T: PartialEq>() -> bool {
    &&& T::obeys_eq_spec()
    &&& forall|a: T, b: T| #[trigger] a.eq_spec(&b) == (a == b)
}

// TRUSTED (rule P_VEC_CONTAINS): `<[T]>::contains`, std: "Returns true if the slice contains an element with
// the given value", i.e. some element is `==` to it.
#[verifier::external_body]
fn vec_contains<T: PartialEq>(v: &Vec<T>, x: &T) -> (r: bool)
    requires eq_lawful::<T>()
    ensures r == v@.contains(*x)
{ v.contains(x) }

// TRUSTED, A-FP (determinism part): hashing a reference hashes the referent (std: `impl<T: Hash> Hash for &T`
// "forwards to the Hash impl of T"), so the fingerprint of `&s` is the fingerprint of `s`.  Needed because the
// real code writes `find(|s| fingerprint(&s) == ..)` with `s: &State`.
#[verifier::external_body]
proof fn axiom_fp_ref<S>(s: &S)
    ensures fp_of::<&S>(s) == fp_of::<S>(*s)
{}

// TRUSTED: `Fingerprint == Fingerprint`.  `Fingerprint = NonZeroU64 = NonZero<u64>`; std: `impl<T> PartialEq for
// NonZero<T> where T: ZeroablePrimitive + PartialEq` compares the wrapped integers (`self.get() == other.get()`),
// i.e. `==` is equality of the values.  (Verus demands the generic signature of the std impl.)
pub assume_specification<T: ZeroablePrimitive + PartialEq>[<NonZero<T> as PartialEq>::eq](a: &NonZero<T>, b: &NonZero<T>) -> (r: bool)
    ensures r == (*a == *b);
