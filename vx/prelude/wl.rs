// ---- prelude/wl.rs: trusted items of unit WL (one iteration of the worker loop of bfs.rs / dfs.rs / on_demand.rs).
// Needs, before it: prelude/model.rs, `struct JobMarket<Job>` (copied from /repo), `spec fn flat` (copied from units/JM.vrs),
// the three `Job` aliases, `enum ControlFlow`, and - inside the module that includes this file - HD's vocabulary
// (`Property` without `condition`, `HasDiscoveries`, `hd_meaning`, ..).
//
// Part 1: CALLEE-SIDE CONTRACT STUBS.  The worker loop calls `pop`, `split_and_push`, `matches`, `check_block`; each is
// verified against its contract by another unit (marker `PROVED-IN`), from the text of /repo re-extracted on every run.
// Here only the contract is visible.  `//@usecontract` copies the requires / ensures text from that unit's template on
// every run, so the stub cannot drift from what is proved.
// Part 2: std / dashmap / mpsc operations the loop body uses (each transcribes the documentation it quotes).

// ===== Part 1: contract stubs =====

// `JobBroker::pop` as R8 reads it (one critical section on the market; the market may be arbitrary after a wait).
// The whole proved contract.
// PROVED-IN: JM.pop
#[verifier::external_body]
fn pop_contract<Job>(market: &mut JobMarket<Job>) -> (r: VecDeque<Job>)
//@usecontract ../units/JM.vrs :: pop
{ unimplemented!() }

// `JobBroker::split_and_push` as R8 reads it.  The whole proved contract.
// PROVED-IN: JM.split_and_push
#[verifier::external_body]
fn split_and_push_contract<Job>(market: &mut JobMarket<Job>, jobs: &mut VecDeque<Job>)
//@usecontract ../units/JM.vrs :: split_and_push
{ unimplemented!() }

impl HasDiscoveries {
    // `HasDiscoveries::matches`.  Unit HD proves the six ensures clauses UNDER four preconditions (distinct property names,
    // every discovered name is a property name, finite set, lawful `Ord` of &str).  The worker loop cannot state the
    // second one for the discoveries a `check_block` leaves (that is CB's `disc-ok`, over ghost state this unit does not
    // carry), so the stub is emitted GUARDED: no requires, every clause reads `(R1) && (R2) && (R3) && (R4) ==> (clause)`.
    // For inputs that satisfy the preconditions this is exactly what HD proves; for other inputs the stub says nothing
    // about the result but does assume that the call returns (`matches` has no panicking operation; HD's `.body` obligation
    // shows that only under the preconditions).  `properties: &[Property<M>]` is taken as `&Vec<Property>` (HD: sigmap
    // `Property<M>` => `Property`, the fn-pointer field `condition`, which `matches` never reads, dropped).
    // PROVED-IN: HD.matches
    #[verifier::external_body]
    fn matches(&self, discoveries: &BTreeSet<&'static str>, properties: &Vec<Property>) -> (r: bool)
//@usecontract ../units/HD.vrs :: matches guarded
    { unimplemented!() }
}

// `check_block` of the three checkers: MINIMAL stubs.  No clause of the proved contracts is stated: this unit needs none
// (the stop tests read the counters / maps as `check_block` left them, whatever they are).  What the stub does say is the
// frame the signature gives - everything behind a `&mut` may change arbitrarily, nothing else - and that the call returns.
// NOT carried over: the `requires` of CB / OND / DFS.check_block (the search invariant over the unit's ghost state; its
// `[partition]` clause speaks of ONE queue that holds every pending job, which the local queue of a worker is not while
// the market holds batches).  So "the call returns without panic" is assumed here without its proved precondition; the
// composition of the search invariant across iterations is not decided by this unit (see notes/units/WL.md).
// Signatures: those of the verified functions without their two erased parameters (`vlog_`, `gh_`).
// PROVED-IN: CB.check_block
#[verifier::external_body]
fn bfs_check_block_contract<M: Model>(model: &M, state_count: &mut Counter, generated: &mut SeqMap<Fingerprint, Option<Fingerprint>>, pending: &mut VecDeque<BfsJob<M::State>>, discoveries: &mut SeqMap<&'static str, Fingerprint>, visitor: &Option<VisitorBox<M>>, max_count: usize, target_max_depth: Option<NonZeroUsize>, global_max_depth: &mut Counter)
{ unimplemented!() }

// PROVED-IN: OND.check_block
#[verifier::external_body]
fn ond_check_block_contract<M: Model>(model: &M, state_count: &mut Counter, generated: &mut SeqMap<Fingerprint, Option<Fingerprint>>, pending: &mut VecDeque<OndJob<M::State>>, discoveries: &mut SeqMap<&'static str, Fingerprint>, visitor: &Option<VisitorBox<M>>, max_count: usize, target_max_depth: Option<NonZeroUsize>, global_max_depth: &mut Counter)
{ unimplemented!() }

// PROVED-IN: DFS.check_block
#[verifier::external_body]
fn dfs_check_block_contract<M: Model>(model: &M, state_count: &mut Counter, generated: &mut SeqSet<Fingerprint>, pending: &mut VecDeque<DfsJob<M::State>>, discoveries: &mut SeqMap<&'static str, Vec<Fingerprint>>, visitor: &Option<VisitorBox<M>>, max_count: usize, target_max_depth: Option<NonZeroUsize>, global_max_depth: &mut Counter, symmetry: &Option<ReprFn<M::State>>)
{ unimplemented!() }

// ===== Part 2: library operations =====

// dashmap: `DashMap::iter` "Creates an iterator over a DashMap yielding immutable references", `RefMulti::key` the key of
// the entry: every entry once.  std: `impl FromIterator<T> for BTreeSet<T>` - the set of the items (rule W_KEYS).
#[verifier::external_body]
fn key_set<V>(d: &SeqMap<&'static str, V>) -> (r: BTreeSet<&'static str>)
    ensures r@ == d@.dom()
{ unimplemented!() }

// std: `VecDeque::is_empty` "Returns true if the deque is empty."
pub assume_specification<T, A: Allocator>[VecDeque::<T, A>::is_empty](q: &VecDeque<T, A>) -> (r: bool)
    ensures r == (q@.len() == 0);

// std: `VecDeque::get` "Provides a reference to the element at the given index. Element at index 0 is the front of the
// queue." (None if out of bounds)
pub assume_specification<T, A: Allocator>[VecDeque::<T, A>::get](q: &VecDeque<T, A>, i: usize) -> (r: Option<&T>)
    ensures r == (if i < q@.len() { Some(&q@[i as int]) } else { None::<&T> });

// (`VecDeque::remove` has a vstd specification: Some(old[index]) and `Seq::remove` if in bounds)

// (`VecDeque::append` has a vstd specification too)

// std: "VecDeque .. Panics if the new capacity exceeds isize::MAX bytes" (`reserve`, `with_capacity`, `push_back`): a deque
// of elements that are not zero-sized never holds more than isize::MAX of them.  A job tuple holds a `NonZeroUsize`.
#[verifier::external_body]
proof fn axiom_job_deque_len<S, F>()
    ensures forall|q: VecDeque<(S, F, EventuallyBits, NonZeroUsize)>| #[trigger] q@.len() <= isize::MAX
{}

// `Fingerprint == Fingerprint` (`NonZero<u64>`): std `impl<T> PartialEq for NonZero<T> where T: ZeroablePrimitive +
// PartialEq` compares the wrapped integers, i.e. `==` is equality of the values (same item as in prelude/path.rs).
pub assume_specification<T: ZeroablePrimitive + PartialEq>[<NonZero<T> as PartialEq>::eq](a: &NonZero<T>, b: &NonZero<T>) -> (r: bool)
    ensures r == (*a == *b);

// A-CHAN (on_demand.rs): the command channel of a worker, `std::sync::mpsc::Receiver<ControlFlow>`, as the finite
// sequence of the commands that will still arrive before the senders hang up.  std: `recv` "will always block the current
// thread if there is no data available and it's possible for more data to be sent .. Once a message is sent .. this
// receiver will wake up and return that message.  If the corresponding Sender has disconnected, or it disconnects while
// this call is blocking, this call will wake up and return Err".  `hung_up` records that `recv` has reported the hang-up.
// (The error type is never named by the loop body; it is a unit struct here.)
#[verifier::external_body]
struct CtlChan { r: std::sync::mpsc::Receiver<ControlFlow> }
struct ChanClosed;
impl CtlChan {
    uninterp spec fn view(&self) -> Seq<ControlFlow>;
    uninterp spec fn hung_up(&self) -> bool;
    #[verifier::external_body]
    fn recv(&mut self) -> (r: Result<ControlFlow, ChanClosed>)
        ensures
            old(self)@.len() > 0 ==> r == Ok::<ControlFlow, ChanClosed>(old(self)@[0]) && final(self)@ == old(self)@.drop_first() && final(self).hung_up() == old(self).hung_up(),
            old(self)@.len() == 0 ==> r is Err && final(self)@ == old(self)@ && final(self).hung_up(),
    { unimplemented!() }
}
