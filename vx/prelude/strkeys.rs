// ---- prelude/strkeys.rs: `&'static str` as an ordered-collection key ----
// std: `impl Borrow<str> for &str`-style lookups (`BTreeSet<&str>::contains(&str)` with Q = str)
// compare string contents, exactly like lookups with Q = &str. vstd has no axiom for this pair of
// types, so it is stated here (trusted).
#[verifier::external_body]
pub proof fn axiom_str_set_borrow(d: Set<&'static str>, n: &'static str)
    ensures vstd::std_specs::btree::set_contains_borrowed_key(d, n) == d.contains(n)
{}
