// ---- prelude/opaque_rewrite.rs: `OpaqueRewrite`, the callee-side marker for `Rewrite` impls (units REP, RW, REPX) ----
// Included after prelude/rewrite.rs (REP, RW: opaque `RewritePlan`) or after prelude/plan.rs (REPX: the real `RewritePlan`):
// both declare the same `trait Rewrite<R>` / `rewritten`. (Until unit REPX this text was the tail of prelude/rewrite.rs.)
// A type marked `OpaqueRewrite` gets the trait's defining postcondition `r == rewritten(plan, self)` and
// nothing else: it stands for a `Rewrite` impl of /repo that is a CALLEE of the function under
// contract (its own structure is the subject of another directive / unit / Kani harness). The unit
// lists its markers explicitly (`impl<T> OpaqueRewrite for Option<T> {}`). No fact about any type is
// introduced beyond the vocabulary `rewritten`.
pub trait OpaqueRewrite: Sized {}
impl<R, T: OpaqueRewrite> Rewrite<R> for T {
    #[verifier::external_body]
    fn rewrite<S>(&self, plan: &RewritePlan<R, S>) -> (r: Self) { unimplemented!() }
}
