// ---- prelude/actor.rs: the actor vocabulary of /repo/src/actor.rs (DESIGN.md section 4) ----
// Included inside `verus! { }`. The data types (`Id`, `Command`, `Out`) and the `Out` / `is_no_op`
// functions are copied mechanically from /repo by the directives below and verified against the
// contracts given here; only the items marked TRUSTED are assumptions.
// The including unit needs `use vstd::std_specs::iter::IteratorSpec;` (contract of `Out::into_iter`).

/*@item src/actor.rs :: struct Id
prefix: #[derive(Clone, Copy, PartialEq, Eq, Hash)]
@*/

/*@item src/actor.rs :: enum Command<Msg, Timer, Random>
@*/

// /repo's `trait Actor` is split in two. `ActorSig` carries its four associated types, so that
// `Out<A>` can be formed for an actor whose handlers are *under* verification (and therefore are not
// assumed to satisfy the handler contracts below). The bounds `Debug` (all four), and
// `PartialEq + Hash` on `State`, are dropped: no function under contract uses them.
trait ActorSig: Sized {
    type Msg: Clone + Eq + core::hash::Hash;
    type Timer: Clone + Eq + core::hash::Hash;
    type State: Clone;
    type Random: Clone + Eq + core::hash::Hash;
}

/*@item src/actor.rs :: struct Out<A: Actor>
prefix: #[verifier::reject_recursive_types(A)]
map: `A: Actor` => `A: ActorSig`
@*/

// The value of a `Cow` (spec-level deref of `Cow` is not available in Verus).
pub open spec fn cv<'a, T: Clone>(c: std::borrow::Cow<'a, T>) -> T {
    match c { std::borrow::Cow::Borrowed(b) => *b, std::borrow::Cow::Owned(o) => o }
}

impl<A: ActorSig> Out<A> {
    // abstract view: the sequence of commands recorded so far
    pub closed spec fn view(&self) -> Seq<Command<A::Msg, A::Timer, A::Random>> { self.0@ }

/*@fn src/actor.rs :: impl<A: Actor> Out<A> :: new
ensures:
    [empty] r@ == Seq::<Command<A::Msg, A::Timer, A::Random>>::empty()
@*/

/*@fn src/actor.rs :: impl<A: Actor> Out<A> :: set_timer
ensures:
    [push] final(self)@ == old(self)@.push(Command::SetTimer(timer, duration))
@*/

/*@fn src/actor.rs :: impl<A: Actor> Out<A> :: send
ensures:
    [push] final(self)@ == old(self)@.push(Command::Send(recipient, msg))
@*/
}

// `for c in out` moves the commands out in recording order (/repo: `self.0.into_iter()`).
impl<A: ActorSig> IntoIterator for Out<A> {
/*@item src/actor.rs :: type Item = Command<A::Msg, A::Timer, A::Random>
@*/
/*@item src/actor.rs :: type IntoIter = std::vec::IntoIter<Command<A::Msg, A::Timer, A::Random>>
@*/
/*@fn src/actor.rs :: impl<A: Actor> IntoIterator for Out<A> :: into_iter
ensures:
    [seq] r.remaining() == self@
    [laws] r.obeys_prophetic_iter_laws()
    [finite] r.decrease() is Some
@*/
}

/*@fn src/actor.rs :: - :: is_no_op
ensures:
    [def] r == (*state is Borrowed && out@.len() == 0)
@*/

// What a handler call did, relative to the handler's spec function value `h`:
// the `Cow` is `Owned(s)` iff the option is `Some(s)` (otherwise untouched), and `o` grew by the sequence.
spec fn handler_post<'a, S: Clone, C>(s0: std::borrow::Cow<'a, S>, s1: std::borrow::Cow<'a, S>, o0: Seq<C>, o1: Seq<C>, h: (Option<S>, Seq<C>)) -> bool {
    &&& o1 == o0 + h.1
    &&& (h.0 matches Some(s) ==> s1 == std::borrow::Cow::<S>::Owned(s))
    &&& (h.0 is None ==> s1 == s0)
}

// TRUSTED (assumption A-PURE, DESIGN.md 3.4 item 3): the handlers of a *generic* actor `A: Actor` are
// deterministic functions of their arguments, named by the spec functions `h_*`; each exec method
// does exactly what its spec function says (documented requirement of `Path::from_fingerprints`, and
// the contract of `Actor::on_*` in /repo/src/actor.rs: "Indicates the next state and commands").
// Nothing is assumed about *what* the functions compute.
trait Actor: ActorSig {
    spec fn h_start(&self, id: Id) -> (Self::State, Seq<Command<Self::Msg, Self::Timer, Self::Random>>);
    spec fn h_msg(&self, id: Id, st: Self::State, src: Id, m: Self::Msg) -> (Option<Self::State>, Seq<Command<Self::Msg, Self::Timer, Self::Random>>);
    spec fn h_timeout(&self, id: Id, st: Self::State, t: Self::Timer) -> (Option<Self::State>, Seq<Command<Self::Msg, Self::Timer, Self::Random>>);
    spec fn h_random(&self, id: Id, st: Self::State, r: Self::Random) -> (Option<Self::State>, Seq<Command<Self::Msg, Self::Timer, Self::Random>>);

    fn on_start(&self, id: Id, o: &mut Out<Self>) -> (r: Self::State)
        ensures
            r == self.h_start(id).0,
            final(o)@ == old(o)@ + self.h_start(id).1;

    fn on_msg(&self, id: Id, state: &mut std::borrow::Cow<Self::State>, src: Id, msg: Self::Msg, o: &mut Out<Self>)
        ensures
            handler_post(*old(state), *final(state), old(o)@, final(o)@, self.h_msg(id, cv(*old(state)), src, msg));

    fn on_timeout(&self, id: Id, state: &mut std::borrow::Cow<Self::State>, timer: &Self::Timer, o: &mut Out<Self>)
        ensures
            handler_post(*old(state), *final(state), old(o)@, final(o)@, self.h_timeout(id, cv(*old(state)), *timer));

    fn on_random(&self, id: Id, state: &mut std::borrow::Cow<Self::State>, random: &Self::Random, o: &mut Out<Self>)
        ensures
            handler_post(*old(state), *final(state), old(o)@, final(o)@, self.h_random(id, cv(*old(state)), *random));
}

// A-CLONE as an explicit precondition on a generic value type (cf. prelude/lawful.rs, which also
// demands `PartialEq`): `clone` returns an equal value, what `#[derive(Clone)]` gives.
// Not an axiom: every contract that needs it lists `clone_eq::<T>()` among its `requires`.
spec fn clone_eq<T: Clone>() -> bool {
    &&& forall|a: T, b: T| #[trigger] call_ensures(T::clone, (&a,), b) ==> a == b
    &&& forall|a: T, b: T| #[trigger] cloned::<T>(a, b) ==> a == b
}

// TRUSTED: `impl Deref for Cow` (std::borrow::Cow): "match *self { Borrowed(borrowed) => borrowed,
// Owned(ref owned) => owned.borrow() }". The std impl is for `B: ?Sized + ToOwned`, for which the
// owned form cannot be named in a Verus spec; the target is therefore an uninterpreted function, and
// the axiom (external_body broadcast lemma) below fixes it for the `T: Clone` instances (blanket `impl<T: Clone> ToOwned for T`, whose
// `Owned = T` and whose `borrow` is the identity).
pub uninterp spec fn cow_deref_spec<'a, 'b, B: ?Sized + std::borrow::ToOwned>(c: &'b std::borrow::Cow<'a, B>) -> &'b B;
pub assume_specification<'a, 'b, B: ?Sized + std::borrow::ToOwned>[<std::borrow::Cow<'a, B> as core::ops::Deref>::deref](c: &'b std::borrow::Cow<'a, B>) -> (r: &'b B)
    ensures r == cow_deref_spec(c);
#[verifier::external_body] pub broadcast proof fn axiom_cow_deref_clone<'a, T: Clone>(c: &std::borrow::Cow<'a, T>)
    ensures #[trigger] *cow_deref_spec(c) == cv(*c)
{}

// TRUSTED: `Cow::to_mut` (std::borrow::Cow): "Acquires a mutable reference to the owned form of the
// data. Clones the data if it is not already owned." After the borrow ends the `Cow` is `Owned(v)`
// with `v` the final value behind the returned reference; the reference starts at the owned form of
// the `Cow`, which for `T: Clone` is its value (A-CLONE: a clone equals its original).
pub uninterp spec fn cow_owned_spec<'a, B: ?Sized + std::borrow::ToOwned>(c: std::borrow::Cow<'a, B>) -> <B as std::borrow::ToOwned>::Owned;
pub assume_specification<'a, 'b, B: ?Sized + std::borrow::ToOwned>[std::borrow::Cow::<'a, B>::to_mut](c: &'b mut std::borrow::Cow<'a, B>) -> (r: &'b mut <B as std::borrow::ToOwned>::Owned)
    ensures
        *r == cow_owned_spec(*old(c)),
        *final(c) == std::borrow::Cow::<B>::Owned(*final(r));
#[verifier::external_body] pub broadcast proof fn axiom_cow_owned_clone<'a, T: Clone>(c: std::borrow::Cow<'a, T>)
    ensures #[trigger] cow_owned_spec(c) == cv(c)
{}

// a function that dereferences or `to_mut`s a `Cow` starts with `broadcast use group_cow;`
pub broadcast group group_cow { axiom_cow_deref_clone, axiom_cow_owned_clone }
