// ---- prelude/chk_common.rs: vocabulary and lemmas shared by all checker units (CB, OND, DFS, SIM) that do not
// depend on the shape of a job: property verdicts, eventually bits of the job under evaluation, dead ends,
// successor counting.  Nothing here is trusted.  `V` is the value type of the discoveries map.

spec fn named<M: Model>(m: M, i: int, name: &'static str) -> bool { 0 <= i < m.props().len() && m.props()[i].name == name }
spec fn has_eventually<M: Model>(m: M, name: &'static str) -> bool {
    exists|i: int| #[trigger] named(m, i, name) && m.props()[i].expectation is Eventually
}
// D2: property i does not call for a discovery at state s
spec fn passes<M: Model>(m: M, i: int, s: M::State) -> bool {
    let p = m.props()[i];
    match p.expectation { Expectation::Always => cond(p, m, s), Expectation::Sometimes => !cond(p, m, s), Expectation::Eventually => true }
}
// ... for the state under evaluation and the properties before `done`
#[verifier::opaque]
spec fn local_tested<M: Model, V>(m: M, d: Map<&'static str, V>, s: M::State, done: int) -> bool {
    forall|i: int| 0 <= i < done && i < m.props().len() && !d.contains_key(m.props()[i].name) ==> #[trigger] passes(m, i, s)
}
spec fn all_discovered<M: Model, V>(m: M, d: Map<&'static str, V>) -> bool {
    forall|i: int| 0 <= i < m.props().len() ==> d.contains_key((#[trigger] m.props()[i]).name)
}
// the eventually-property i is still unsatisfied along ss
spec fn unsat_on<M: Model>(m: M, i: int, ss: Seq<M::State>) -> bool {
    &&& 0 <= i < m.props().len()
    &&& m.props()[i].expectation is Eventually
    &&& forall|n: int| 0 <= n < ss.len() ==> !cond(m.props()[i], m, #[trigger] ss[n])
}
// bit i is set exactly if property i is an eventually-property that no state of ss satisfies
spec fn ebit_exact<M: Model>(m: M, bits: Set<usize>, ss: Seq<M::State>, i: int) -> bool {
    bits.contains(i as usize) <==> unsat_on(m, i, ss)
}
// E1 for the job under evaluation while the property loop runs: properties before `done` have seen the
// job's own state (the last of `full`), the others have not
spec fn local_path<S>(full: Seq<S>, i: int, done: int) -> Seq<S> { if i < done { full } else { full.drop_last() } }
#[verifier::opaque]
spec fn local_ebits_undisc<M: Model, V>(m: M, d: Map<&'static str, V>, bits: Set<usize>, full: Seq<M::State>, done: int) -> bool {
    forall|i: int| 0 <= i < m.props().len() && !d.contains_key(m.props()[i].name) ==>
        #[trigger] ebit_exact(m, bits, local_path(full, i, done), i)
}
#[verifier::opaque]
spec fn local_ebits_disc<M: Model, V>(m: M, d: Map<&'static str, V>, bits: Set<usize>, full: Seq<M::State>, done: int) -> bool {
    forall|i: int| 0 <= i < m.props().len() && d.contains_key(m.props()[i].name) ==>
        #[trigger] ebit_exact(m, bits, local_path(full, i, done), i)
}
#[verifier::opaque]
spec fn local_exact<M: Model>(m: M, bits: Set<usize>, full: Seq<M::State>) -> bool {
    forall|i: int| 0 <= i < m.props().len() ==> #[trigger] ebit_exact(m, bits, full, i)
}
// if s is a dead end, every eventually bit still set has a discovery (what the `if is_terminal` loop has to achieve)
spec fn bits_recorded<M: Model, V>(m: M, d: Map<&'static str, V>, s: M::State, bits: Set<usize>) -> bool {
    is_dead_end(m, s) ==> forall|x: int| 0 <= x < m.props().len() && bits.contains(x as usize) ==> d.contains_key((#[trigger] m.props()[x]).name)
}
// the n-th action of s leads to an in-boundary successor
spec fn in_succ_at<M: Model>(m: M, s: M::State, n: int) -> bool {
    match m.nxt(s, m.acts(s)[n]) { Some(t) => m.within(t), None => false }
}
// what one iteration of the property loop (property i, job state `last`) has to do with (discoveries, ebits):
// only the name of property i may be added, only bit i may change ...
spec fn prop_step_frame<M: Model, V>(m: M, d2: Map<&'static str, V>, d1: Map<&'static str, V>, bits2: Set<usize>, bits1: Set<usize>, i: int) -> bool {
    &&& d2.dom().subset_of(d1.dom()) && d1.dom().subset_of(d2.dom().insert(m.props()[i].name))
    &&& forall|x: usize| x != i as usize ==> bits1.contains(x) == bits2.contains(x)
}
// ... and bit i has to be cleared iff property i is an eventually-property that `last` satisfies
spec fn bit_updated<M: Model>(m: M, bits2: Set<usize>, bits1: Set<usize>, last: M::State, i: int) -> bool {
    bits1.contains(i as usize) <==> (bits2.contains(i as usize) && !(m.props()[i].expectation is Eventually && cond(m.props()[i], m, last)))
}
// number of the first n actions of s that lead to an in-boundary successor
spec fn succ_count<M: Model>(m: M, s: M::State, n: int) -> nat
    decreases n
{
    if n <= 0 { 0 } else { succ_count(m, s, n - 1) + (if in_succ_at(m, s, n - 1) { 1nat } else { 0nat }) }
}
// ... summed over the expansion log
spec fn total_succ<M: Model>(m: M, el: Seq<M::State>) -> nat
    decreases el.len()
{
    if el.len() == 0 { 0 } else { total_succ(m, el.drop_last()) + succ_count(m, el.last(), m.acts(el.last()).len() as int) }
}
// state_count has grown by cnt - cnt0 (unless that wraps around)
spec fn count_ok(sc0: usize, cnt0: nat, sc: usize, cnt: nat) -> bool {
    cnt >= cnt0 && (sc0 + (cnt - cnt0) <= usize::MAX ==> sc == sc0 + (cnt - cnt0))
}
// what reconstruct_path promises about the path it returns
#[verifier::opaque]
spec fn real_path<M: Model>(m: M, p: Path<M::State, M::Action>) -> bool {
    &&& is_chain(m, path_states(p))
    &&& forall|i: int| 0 <= i < p.0@.len() - 1 ==> (#[trigger] p.0@[i]).1.is_some()
            && m.acts(p.0@[i].0).contains(p.0@[i].1.unwrap())
            && m.nxt(p.0@[i].0, p.0@[i].1.unwrap()) == Some(p.0@[i + 1].0)
    &&& p.0@.last().1.is_none()
}
spec fn same_fps<S>(a: Seq<S>, b: Seq<S>) -> bool {
    a.len() == b.len() && forall|i: int| 0 <= i < a.len() ==> fp_of(#[trigger] a[i]) == fp_of(b[i])
}
// the visitor has been shown exactly the evaluated jobs, in order, each with a real path whose
// fingerprints are those of the generating path
spec fn shows<M: Model>(m: M, p: Path<M::State, M::Action>, ss: Seq<M::State>) -> bool {
    real_path(m, p) && same_fps(path_states(p), ss)
}
//@props C03
proof fn path_is_chain<M: Model>(m: M, ss: Seq<M::State>)
    requires is_path(m, ss)
    ensures is_chain(m, ss)
{
    assert forall|i: int| 0 <= i < ss.len() - 1 implies is_step(m, #[trigger] ss[i], ss[i + 1]) by {
        assert(is_succ(m, ss[i], ss[i + 1]));
        let a = choose|a: M::Action| #[trigger] m.acts(ss[i]).contains(a) && m.nxt(ss[i], a) == Some(ss[i + 1]) && m.within(ss[i + 1]);
        assert(m.acts(ss[i]).contains(a) && m.nxt(ss[i], a) == Some(ss[i + 1]));
    }
}
//@props C03 C11
proof fn unsat_on_push<M: Model>(m: M, i: int, ss: Seq<M::State>, s: M::State)
    ensures unsat_on(m, i, ss.push(s)) <==> unsat_on(m, i, ss) && !cond(m.props()[i], m, s)
{
    let s2 = ss.push(s);
    if unsat_on(m, i, s2) {
        assert(s2[ss.len() as int] == s);
        assert forall|n: int| 0 <= n < ss.len() implies !cond(m.props()[i], m, #[trigger] ss[n]) by { assert(s2[n] == ss[n]); }
    }
    if unsat_on(m, i, ss) && !cond(m.props()[i], m, s) {
        assert forall|n: int| 0 <= n < s2.len() implies !cond(m.props()[i], m, #[trigger] s2[n]) by {
            if n < ss.len() { assert(s2[n] == ss[n]); }
        }
    }
}
// one iteration of the property loop.  The bit of an eventually-property has to be cleared when the state
// satisfies it, whether or not the property already has a discovery.  (/repo `continue`s for a property that
// has a discovery before looking at the condition: the second clause is then not preserved, finding F-C03-1.)
//@props C03 C11
proof fn ebits_step<M: Model, V>(m: M, d2: Map<&'static str, V>, d1: Map<&'static str, V>, bits2: Set<usize>, bits1: Set<usize>, full: Seq<M::State>, i: int)
    requires
        0 <= i < m.props().len(), m.props().len() <= usize::MAX, full.len() > 0,
        local_ebits_undisc(m, d2, bits2, full, i), local_ebits_disc(m, d2, bits2, full, i),
    ensures
        prop_step_frame(m, d2, d1, bits2, bits1, i) && (!d1.contains_key(m.props()[i].name) ==> bit_updated(m, bits2, bits1, full.last(), i))
            ==> local_ebits_undisc(m, d1, bits1, full, i + 1),
        prop_step_frame(m, d2, d1, bits2, bits1, i) && (d1.contains_key(m.props()[i].name) ==> bit_updated(m, bits2, bits1, full.last(), i))
            ==> local_ebits_disc(m, d1, bits1, full, i + 1),
{
    reveal(local_ebits_undisc); reveal(local_ebits_disc);
    let p = m.props()[i];
    assert(full == full.drop_last().push(full.last()));
    unsat_on_push(m, i, full.drop_last(), full.last());
    if prop_step_frame(m, d2, d1, bits2, bits1, i) {
        assert forall|x: int| 0 <= x < m.props().len() implies
            (if x == i { bit_updated(m, bits2, bits1, full.last(), i) ==> ebit_exact(m, bits1, full, i) }
             else { #[trigger] ebit_exact(m, bits1, local_path(full, x, i + 1), x) }) by {
            assert(ebit_exact(m, bits2, local_path(full, x, i), x)) by {
                if d2.contains_key(m.props()[x].name) {} else {}
            }
            if x != i {
                assert(local_path(full, x, i + 1) == local_path(full, x, i));
                assert((x as usize) != (i as usize));
            } else {
                assert(local_path(full, x, i) == full.drop_last());
            }
        }
        assert(local_path(full, i, i + 1) == full);
        assert forall|x: int| 0 <= x < m.props().len() && x != i implies
            d1.contains_key(m.props()[x].name) == d2.contains_key(m.props()[x].name) || m.props()[x].name == p.name by {
            assert(d2.dom().contains(m.props()[x].name) ==> d1.dom().contains(m.props()[x].name));
            assert(d1.dom().contains(m.props()[x].name) ==> d2.dom().insert(p.name).contains(m.props()[x].name));
        }
    }
}
// after the property loop: both clauses together say the bits are exact for the whole path
//@props C03 C11
proof fn ebits_done<M: Model, V>(m: M, d: Map<&'static str, V>, bits: Set<usize>, full: Seq<M::State>, done: int)
    requires local_ebits_undisc(m, d, bits, full, done), local_ebits_disc(m, d, bits, full, done), done >= m.props().len()
    ensures local_exact(m, bits, full)
{
    reveal(local_ebits_undisc); reveal(local_ebits_disc); reveal(local_exact);
    assert forall|i: int| 0 <= i < m.props().len() implies #[trigger] ebit_exact(m, bits, full, i) by {
        assert(local_path(full, i, done) == full);
        if d.contains_key(m.props()[i].name) {} else {}
    }
}
// no action of s leads into the boundary: s is a dead end
//@props C03 C11
proof fn term_done<M: Model>(m: M, s: M::State)
    requires forall|n: int| 0 <= n < m.acts(s).len() ==> !#[trigger] in_succ_at(m, s, n)
    ensures is_dead_end(m, s)
{
    assert forall|t: M::State| !is_succ(m, s, t) by {
        if is_succ(m, s, t) {
            let a = choose|a: M::Action| #[trigger] m.acts(s).contains(a) && m.nxt(s, a) == Some(t) && m.within(t);
            let n = choose|n: int| 0 <= n < m.acts(s).len() && m.acts(s)[n] == a;
            assert(in_succ_at(m, s, n));
        }
    }
}
//@props C02
proof fn tested_step<M: Model, V>(m: M, d2: Map<&'static str, V>, d1: Map<&'static str, V>, s: M::State, i: int)
    requires local_tested(m, d2, s, i), d2.dom().subset_of(d1.dom()), 0 <= i
    ensures (!d1.contains_key(m.props()[i].name) ==> passes(m, i, s)) ==> local_tested(m, d1, s, i + 1)
{
    reveal(local_tested);
    assert forall|x: int| 0 <= x < i && x < m.props().len() && !d1.contains_key(m.props()[x].name) implies #[trigger] passes(m, x, s) by {
        assert(d2.dom().contains(m.props()[x].name) ==> d1.dom().contains(m.props()[x].name));
    }
}
// A-FP, as an explicit hypothesis: no two reachable states share a fingerprint
spec fn fp_inj_reach<M: Model>(m: M) -> bool {
    forall|a: M::State, b: M::State| reach(m, a) && reach(m, b) && #[trigger] fp_of(a) == #[trigger] fp_of(b) ==> a == b
}
// every model path is the only path to its last state: the reachable graph is a forest
spec fn unique_path<M: Model>(m: M) -> bool {
    forall|a: Seq<M::State>, b: Seq<M::State>| #[trigger] is_path(m, a) && #[trigger] is_path(m, b) && a.last() == b.last() ==> a == b
}
// `Property` names are pairwise distinct (the checker keys its discoveries by name)
spec fn names_distinct<M: Model>(m: M) -> bool {
    forall|i: int, j: int| 0 <= i < m.props().len() && 0 <= j < m.props().len()
        && (#[trigger] m.props()[i]).name == (#[trigger] m.props()[j]).name ==> i == j
}
//@props C01 C03
proof fn path_reach<M: Model>(m: M, ss: Seq<M::State>)
    requires is_path(m, ss)
    ensures reach_n(m, ss.last(), (ss.len() - 1) as nat), reach(m, ss.last())
{}
//@props C01 C03
proof fn path_prefix<M: Model>(m: M, ss: Seq<M::State>)
    requires is_path(m, ss), ss.len() > 1
    ensures is_path(m, ss.drop_last()), is_succ(m, ss.drop_last().last(), ss.last())
{
    let pre = ss.drop_last();
    assert(pre[0] == ss[0]);
    assert forall|i: int| 0 <= i < pre.len() - 1 implies is_succ(m, #[trigger] pre[i], pre[i + 1]) by {
        assert(pre[i] == ss[i] && pre[i + 1] == ss[i + 1]);
    }
    assert(pre.last() == ss[ss.len() - 2]);
    assert(is_succ(m, ss[ss.len() - 2], ss[ss.len() - 2 + 1]));
}

// C01 cardinality: a set of states on which fingerprints are collision free has as many elements as its set of
// fingerprints (induction on the size; every vstd `Set` is finite)
//@props C01
proof fn bij_len<A>(r: Set<A>, d: Set<Fingerprint>)
    requires
        forall|a: A, b: A| r.contains(a) && r.contains(b) && #[trigger] fp_of(a) == #[trigger] fp_of(b) ==> a == b,
        forall|a: A| #[trigger] r.contains(a) ==> d.contains(fp_of(a)),
        forall|k: Fingerprint| #[trigger] d.contains(k) ==> exists|a: A| r.contains(a) && #[trigger] fp_of(a) == k,
    ensures r.len() == d.len()
    decreases r.len()
{
    if r.len() == 0 {
        assert(r =~= Set::<A>::empty()) by {
            if exists|a: A| r.contains(a) { let a = choose|a: A| r.contains(a); assert(r.remove(a).len() + 1 == r.len()); }
        }
        assert(d =~= Set::<Fingerprint>::empty());
    } else {
        let a = r.choose();
        assert(r.contains(a));
        let r2 = r.remove(a);
        let d2 = d.remove(fp_of(a));
        assert forall|k: Fingerprint| #[trigger] d2.contains(k) implies exists|b: A| r2.contains(b) && #[trigger] fp_of(b) == k by {
            let b = choose|b: A| r.contains(b) && #[trigger] fp_of(b) == k;
            assert(r2.contains(b));
        }
        bij_len(r2, d2);
        assert(r2.len() + 1 == r.len());
        assert(d2.len() + 1 == d.len());
    }
}
// C01 "state_count is at least as large": what `state-count` and `count-covers-unique` of one block add up to
//@props C01
proof fn state_count_covers(sc0: usize, cnt0: nat, sc1: usize, cnt1: nat, gen0: nat, gen1: nat)
    requires count_ok(sc0, cnt0, sc1, cnt1), cnt1 - cnt0 >= gen1 - gen0, sc0 >= gen0, sc0 + (cnt1 - cnt0) <= usize::MAX
    ensures sc1 >= gen1
{}
