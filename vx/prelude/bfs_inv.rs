// ---- prelude/bfs_inv.rs: ghost state, invariant vocabulary, step lemmas and property lemmas shared by the
// units whose `check_block` keeps parent pointers in `generated` (CB: bfs.rs, OND: on_demand.rs).
// Nothing in this file is trusted: plain definitions and proved lemmas.  Needs prelude/model.rs and a
// `type Job<State> = (State, Fingerprint, EventuallyBits, NonZeroUsize);` item in the including unit.

// =====================================================================================================
// Ghost state of a BFS run (rule GH): what is known about each generated fingerprint, and the logs the
// contracts talk about.  All fields are ghost; the struct is erased at run time.
// =====================================================================================================
struct Gh<M: Model> {
    ghost st: Map<Fingerprint, M::State>,        // the state that was first generated under the key
    ghost pth: Map<Fingerprint, Seq<M::State>>,  // the path by which it was generated (follows the parent pointers)
    ghost ev: Seq<(Fingerprint, nat)>,           // the jobs evaluated so far, in order: (key, depth)
    ghost skipped: Set<Fingerprint>,             // jobs dequeued but not evaluated (depth limit)
    ghost expanded: Set<Fingerprint>,            // evaluated jobs all of whose successors were generated
    ghost unexp: Set<Fingerprint>,               // evaluated jobs at which the run stopped before expanding
    ghost exp_log: Seq<M::State>,                // the states expanded so far, in order
    ghost cnt: nat,                              // in-boundary successors produced by the expansions so far
}

type Gen = Map<Fingerprint, Option<Fingerprint>>;
type StMap<S> = Map<Fingerprint, S>;
type PthMap<S> = Map<Fingerprint, Seq<S>>;
type Ev = Seq<(Fingerprint, nat)>;
type Disc = Map<&'static str, Fingerprint>;

// ---- P3 / G2 (DESIGN C01), per key of `generated` ----
spec fn key_ok<M: Model>(m: M, g: Gen, st: StMap<M::State>, pth: PthMap<M::State>, k: Fingerprint) -> bool {
    &&& st.contains_key(k) && pth.contains_key(k)
    &&& fp_of(st[k]) == k
    &&& m.within(st[k])
    &&& is_path(m, pth[k])
    &&& pth[k].last() == st[k]
    &&& match g[k] {
            None => pth[k].len() == 1,
            Some(p) => g.contains_key(p) && pth[k] == pth[p].push(st[k]) && is_succ(m, st[p], st[k]),
        }
}
#[verifier::opaque]
spec fn gen_inv<M: Model>(m: M, g: Gen, st: StMap<M::State>, pth: PthMap<M::State>) -> bool {
    forall|k: Fingerprint| #[trigger] g.contains_key(k) ==> key_ok(m, g, st, pth, k)
}
// G1, per pending job: its fingerprint is a key, it carries the state generated under that key, and its
// depth is the length of the generating path (initial states have depth 1)
spec fn job_ok<M: Model>(m: M, g: Gen, st: StMap<M::State>, pth: PthMap<M::State>, job: Job<M::State>) -> bool {
    &&& g.contains_key(job.1)
    &&& st[job.1] == job.0
    &&& job.3.get() == pth[job.1].len()
}
#[verifier::opaque]
spec fn pend_inv<M: Model>(m: M, g: Gen, st: StMap<M::State>, pth: PthMap<M::State>, p: Seq<Job<M::State>>) -> bool {
    forall|j: int| 0 <= j < p.len() ==> job_ok(m, g, st, pth, #[trigger] p[j])
}
// nothing that was known is ever changed: keys keep their parent pointer, state and path
#[verifier::opaque]
spec fn extends<S>(g0: Gen, st0: StMap<S>, pth0: PthMap<S>, g1: Gen, st1: StMap<S>, pth1: PthMap<S>) -> bool {
    forall|k: Fingerprint| #[trigger] g0.contains_key(k) ==>
        g1.contains_key(k) && g1[k] == g0[k] && st1[k] == st0[k] && pth1[k] == pth0[k]
}
// every key generated since g0 has parent k
#[verifier::opaque]
spec fn children_of(g0: Gen, g1: Gen, k: Fingerprint) -> bool {
    forall|c: Fingerprint| #[trigger] g1.contains_key(c) && !g0.contains_key(c) ==> g1[c] == Some(k)
}
// `depth + 1` never overflows as long as at most b more jobs are dequeued
#[verifier::opaque]
spec fn overflow_ok<S>(p: Seq<Job<S>>, b: int) -> bool {
    forall|j: int| 0 <= j < p.len() ==> (#[trigger] p[j]).3.get() + b < usize::MAX
}

// ---- P1 (C12): what was evaluated ----
// every evaluated job is a generated key and was evaluated at the depth of its path
#[verifier::opaque]
spec fn ev_ok<S>(g: Gen, pth: PthMap<S>, ev: Ev) -> bool {
    forall|n: int| 0 <= n < ev.len() ==> g.contains_key((#[trigger] ev[n]).0) && pth[ev[n].0].len() == ev[n].1
}
// k is among the jobs evaluated from position n0 of the log on
spec fn ev_has(ev: Ev, n0: int, k: Fingerprint) -> bool {
    exists|n: int| n0 <= n < ev.len() && (#[trigger] ev[n]).0 == k
}
// every job evaluated from position n0 on is nearer than the depth limit
#[verifier::opaque]
spec fn depth_limit_ok(ev: Ev, n0: int, target: Option<NonZeroUsize>) -> bool {
    forall|n: int| n0 <= n < ev.len() ==> (match target { Some(t) => (#[trigger] ev[n]).1 < t.get(), None => true })
}
// every key generated since g0 has a job evaluated from n0 on as its parent: only evaluated jobs are expanded
#[verifier::opaque]
spec fn gen_from_ev(g0: Gen, g1: Gen, ev: Ev, n0: int) -> bool {
    forall|k: Fingerprint| #[trigger] g1.contains_key(k) && !g0.contains_key(k) ==>
        g1[k].is_some() && ev_has(ev, n0, g1[k].unwrap())
}

#[verifier::opaque]
spec fn vis_inv<M: Model>(m: M, log: Seq<Path<M::State, M::Action>>, ev: Ev, pth: PthMap<M::State>) -> bool {
    log.len() == ev.len() && forall|n: int| 0 <= n < log.len() ==> shows(m, #[trigger] log[n], pth[ev[n].0])
}

// ---- P2 (C02 / C03 D1): what a discovery entry means ----
// the state generated under k is a witness for property i
spec fn witness_ok<M: Model>(m: M, st: StMap<M::State>, pth: PthMap<M::State>, i: int, k: Fingerprint) -> bool {
    let p = m.props()[i];
    match p.expectation {
        Expectation::Always => !cond(p, m, st[k]),
        Expectation::Sometimes => cond(p, m, st[k]),
        Expectation::Eventually => is_dead_end(m, st[k])
            && forall|n: int| 0 <= n < pth[k].len() ==> !cond(p, m, #[trigger] pth[k][n]),
    }
}
#[verifier::opaque]
spec fn disc_ok<M: Model>(m: M, g: Gen, d: Disc, st: StMap<M::State>, pth: PthMap<M::State>) -> bool {
    forall|name: &'static str| #[trigger] d.contains_key(name) ==>
        g.contains_key(d[name]) && exists|i: int| #[trigger] named(m, i, name) && witness_ok(m, st, pth, i, d[name])
}
// entries are never removed; an entry is only replaced for a name that an eventually-property carries
// (so the first witness of an always / sometimes property is kept); every entry written since d0
// points to a job evaluated from n0 on
#[verifier::opaque]
spec fn disc_frame<M: Model>(m: M, d0: Disc, d1: Disc, ev: Ev, n0: int) -> bool {
    &&& forall|name: &'static str| #[trigger] d0.contains_key(name) ==>
            d1.contains_key(name) && (d1[name] == d0[name] || has_eventually(m, name))
    &&& forall|name: &'static str| #[trigger] d1.contains_key(name) && !(d0.contains_key(name) && d0[name] == d1[name]) ==>
            ev_has(ev, n0, d1[name])
}

// D2: a property without a discovery has been tested on every evaluated state and none called for one
#[verifier::opaque]
spec fn tested_ok<M: Model>(m: M, d: Disc, st: StMap<M::State>, evaluated: Set<Fingerprint>) -> bool {
    forall|k: Fingerprint, i: int| evaluated.contains(k) && 0 <= i < m.props().len() && !d.contains_key(m.props()[i].name)
        ==> #[trigger] passes(m, i, st[k])
}

// ---- P4 (C13): queue order ----
// read from the back (pop side) to the front, depths are non-decreasing and span at most two values
#[verifier::opaque]
spec fn queue_ok<S>(p: Seq<Job<S>>) -> bool {
    &&& forall|a: int, b: int| 0 <= a <= b < p.len() ==> (#[trigger] p[a]).3.get() >= (#[trigger] p[b]).3.get()
    &&& p.len() > 0 ==> p[0].3.get() <= p[p.len() - 1].3.get() + 1
}
// every pending depth is dd or dd + 1
#[verifier::opaque]
spec fn span_ok<S>(p: Seq<Job<S>>, dd: int) -> bool {
    forall|j: int| 0 <= j < p.len() ==> dd <= (#[trigger] p[j]).3.get() <= dd + 1
}
// jobs are evaluated in non-decreasing depth, and nothing pending is nearer than an evaluated job
#[verifier::opaque]
spec fn eval_order_ok<S>(ev: Ev, p: Seq<Job<S>>) -> bool {
    &&& forall|a: int, b: int| 0 <= a <= b < ev.len() ==> (#[trigger] ev[a]).1 <= (#[trigger] ev[b]).1
    &&& forall|a: int, j: int| 0 <= a < ev.len() && 0 <= j < p.len() ==> (#[trigger] ev[a]).1 <= (#[trigger] p[j]).3.get()
}
#[verifier::opaque]
spec fn ev_below(ev: Ev, dd: int) -> bool {
    forall|n: int| 0 <= n < ev.len() ==> (#[trigger] ev[n]).1 <= dd
}

// ---- P5 (C03 E1/E2, C11): eventually bits ----
// E1 for the pending jobs: the bits of a job speak about the path up to (excluding) the job's own state,
// which has not been evaluated yet
#[verifier::opaque]
spec fn pend_ebits_ok<M: Model>(m: M, pth: PthMap<M::State>, p: Seq<Job<M::State>>) -> bool {
    forall|j: int, i: int| 0 <= j < p.len() && 0 <= i < m.props().len() ==>
        #[trigger] ebit_exact(m, p[j].2@, pth[p[j].1].drop_last(), i)
}

// ---- P6 (C01 G3 / G4, state_count) ----
// G3: every in-boundary successor of an expanded state has been generated
#[verifier::opaque]
spec fn closed_ok<M: Model>(m: M, g: Gen, st: StMap<M::State>, expanded: Set<Fingerprint>) -> bool {
    forall|k: Fingerprint, t: M::State| expanded.contains(k) && #[trigger] is_succ(m, st[k], t) ==> g.contains_key(fp_of(t))
}
spec fn pend_has<S>(p: Seq<Job<S>>, k: Fingerprint) -> bool { exists|j: int| 0 <= j < p.len() && (#[trigger] p[j]).1 == k }
// G4: the generated keys are exactly the finished jobs (expanded / skipped / stopped at) plus the pending
// ones; no key is pending twice or pending and finished
#[verifier::opaque]
spec fn partition_ok<S>(dom: Set<Fingerprint>, p: Seq<Job<S>>, done: Set<Fingerprint>) -> bool {
    &&& forall|k: Fingerprint| #[trigger] dom.contains(k) ==> done.contains(k) || pend_has(p, k)
    &&& forall|k: Fingerprint| #[trigger] done.contains(k) ==> dom.contains(k)
    &&& forall|j: int| 0 <= j < p.len() ==> dom.contains((#[trigger] p[j]).1) && !done.contains(p[j].1)
    &&& forall|i: int, j: int| 0 <= i < j < p.len() ==> (#[trigger] p[i]).1 != (#[trigger] p[j]).1
}
// every logged evaluation is of a key in s, and no key is evaluated twice
#[verifier::opaque]
spec fn once_ok(ev: Ev, s: Set<Fingerprint>) -> bool {
    &&& forall|n: int| 0 <= n < ev.len() ==> s.contains((#[trigger] ev[n]).0)
    &&& forall|a: int, b: int| 0 <= a < b < ev.len() ==> (#[trigger] ev[a]).0 != (#[trigger] ev[b]).0
}
// the expansion log lists exactly the expanded keys, each once
#[verifier::opaque]
spec fn explog_ok<S>(el: Seq<S>, expanded: Set<Fingerprint>) -> bool {
    &&& forall|n: int| 0 <= n < el.len() ==> expanded.contains(fp_of(#[trigger] el[n]))
    &&& forall|a: int, b: int| 0 <= a < b < el.len() ==> fp_of(#[trigger] el[a]) != fp_of(#[trigger] el[b])
    &&& forall|k: Fingerprint| #[trigger] expanded.contains(k) ==> exists|n: int| 0 <= n < el.len() && fp_of(#[trigger] el[n]) == k
}
// C11 completeness: an expanded dead end on whose generating path the eventually-property i never held has led to a
// discovery for that property
#[verifier::opaque]
spec fn ev_complete<M: Model>(m: M, d: Disc, st: StMap<M::State>, pth: PthMap<M::State>, expanded: Set<Fingerprint>) -> bool {
    forall|k: Fingerprint, i: int| expanded.contains(k) && is_dead_end(m, st[k]) && #[trigger] unsat_on(m, i, pth[k])
        ==> d.contains_key(m.props()[i].name)
}

// =====================================================================================================
// Step lemmas: one per kind of state change of check_block
// =====================================================================================================


// one step of the walk along the parent pointers: q is the path of the current key k (a prefix of
// `full`), f the fingerprints collected so far (those of the rest of `full`)
//@props C03
proof fn walk_step<S>(full: Seq<S>, q: Seq<S>, k: Fingerprint, f: Seq<Fingerprint>)
    requires
        q.len() > 0, q == full.take(q.len() as int), q.len() + f.len() == full.len(), fp_of(q.last()) == k,
        forall|i: int| 0 <= i < f.len() ==> #[trigger] f[i] == fp_of(full[q.len() + i]),
    ensures
        q.drop_last() == full.take(q.len() - 1),
        forall|i: int| 0 <= i < f.len() + 1 ==> #[trigger] (seq![k] + f)[i] == fp_of(full[q.len() - 1 + i]),
        q.len() == 1 ==> has_fps(full, seq![k] + f),
{
    let f2 = seq![k] + f;
    assert(q.drop_last() =~= full.take(q.len() - 1));
    assert forall|i: int| 0 <= i < f.len() + 1 implies #[trigger] f2[i] == fp_of(full[q.len() - 1 + i]) by {
        if i == 0 { assert(q.last() == full[q.len() - 1]); } else { assert(f2[i] == f[i - 1]); }
    }
    if q.len() == 1 {
        assert forall|i: int| 0 <= i < full.len() implies fp_of(#[trigger] full[i]) == f2[i] by {}
    }
}

proof fn gen_inv_key<M: Model>(m: M, g: Gen, st: StMap<M::State>, pth: PthMap<M::State>, k: Fingerprint)
    requires gen_inv(m, g, st, pth), g.contains_key(k)
    ensures key_ok(m, g, st, pth, k)
{ reveal(gen_inv); }

// entry of check_block: nothing has happened yet
proof fn init_step<M: Model>(m: M, g: Gen, st: StMap<M::State>, pth: PthMap<M::State>, ev: Ev, d: Disc, target: Option<NonZeroUsize>)
    ensures
        extends(g, st, pth, g, st, pth),
        depth_limit_ok(ev, ev.len() as int, target),
        gen_from_ev(g, g, ev, ev.len() as int),
        disc_frame(m, d, d, ev, ev.len() as int),
{ reveal(extends); reveal(depth_limit_ok); reveal(gen_from_ev); reveal(disc_frame); }

// `pending.pop_back()` returned `job`
proof fn pop_step<M: Model>(m: M, g: Gen, st: StMap<M::State>, pth: PthMap<M::State>, ev: Ev, p: Seq<Job<M::State>>, b: int)
    requires
        p.len() > 0,
        gen_inv(m, g, st, pth), pend_inv(m, g, st, pth, p), queue_ok(p), eval_order_ok(ev, p), overflow_ok(p, b),
    ensures
        job_ok(m, g, st, pth, p.last()),
        fp_of(st[p.last().1]) == p.last().1, pth[p.last().1].len() > 0, pth[p.last().1].last() == st[p.last().1],
        pend_inv(m, g, st, pth, p.drop_last()),
        queue_ok(p.drop_last()),
        span_ok(p.drop_last(), p.last().3.get() as int),
        eval_order_ok(ev, p.drop_last()),
        ev_below(ev, p.last().3.get() as int),
        overflow_ok(p.drop_last(), b),
        p.last().3.get() + b < usize::MAX,
{
    pop_pend_part(m, g, st, pth, p);
    pop_queue_part(p);
    pop_order_part(ev, p);
    pop_overflow_part(p, b);
}
// the four parts of pop_step, one per group of predicates (each reveals only what it needs)
proof fn pop_pend_part<M: Model>(m: M, g: Gen, st: StMap<M::State>, pth: PthMap<M::State>, p: Seq<Job<M::State>>)
    requires p.len() > 0, gen_inv(m, g, st, pth), pend_inv(m, g, st, pth, p)
    ensures job_ok(m, g, st, pth, p.last()), fp_of(st[p.last().1]) == p.last().1, pth[p.last().1].len() > 0, pth[p.last().1].last() == st[p.last().1], pend_inv(m, g, st, pth, p.drop_last())
{
    reveal(pend_inv);
    let q = p.drop_last();
    assert(p.last() == p[p.len() - 1]);
    assert(job_ok(m, g, st, pth, p[p.len() - 1]));
    gen_inv_key(m, g, st, pth, p.last().1);
    assert forall|j: int| 0 <= j < q.len() implies job_ok(m, g, st, pth, #[trigger] q[j]) by { assert(q[j] == p[j]); }
}
proof fn pop_queue_part<S>(p: Seq<Job<S>>)
    requires p.len() > 0, queue_ok(p)
    ensures queue_ok(p.drop_last()), span_ok(p.drop_last(), p.last().3.get() as int)
{
    reveal(queue_ok); reveal(span_ok);
    let q = p.drop_last();
    let dd = p[p.len() - 1].3.get();
    assert(p.last() == p[p.len() - 1]);
    assert forall|a: int, c: int| 0 <= a <= c < q.len() implies (#[trigger] q[a]).3.get() >= (#[trigger] q[c]).3.get() by {
        assert(q[a] == p[a] && q[c] == p[c]);
    }
    assert forall|j: int| 0 <= j < q.len() implies dd <= (#[trigger] q[j]).3.get() <= dd + 1 by {
        assert(q[j] == p[j]);
        assert(p[0].3.get() >= p[j].3.get());
        assert(p[j].3.get() >= p[p.len() - 1].3.get());
    }
    if q.len() > 0 {
        assert(q[0] == p[0]);
        assert(q[q.len() - 1] == p[q.len() - 1]);
        assert(p[q.len() - 1].3.get() >= p[p.len() - 1].3.get());
    }
}
proof fn pop_order_part<S>(ev: Ev, p: Seq<Job<S>>)
    requires p.len() > 0, eval_order_ok(ev, p)
    ensures eval_order_ok(ev, p.drop_last()), ev_below(ev, p.last().3.get() as int)
{
    reveal(eval_order_ok); reveal(ev_below);
    let q = p.drop_last();
    assert(p.last() == p[p.len() - 1]);
    assert forall|a: int, j: int| 0 <= a < ev.len() && 0 <= j < q.len() implies (#[trigger] ev[a]).1 <= (#[trigger] q[j]).3.get() by {
        assert(q[j] == p[j]);
    }
    assert forall|n: int| 0 <= n < ev.len() implies (#[trigger] ev[n]).1 <= p[p.len() - 1].3.get() by {}
}
proof fn pop_overflow_part<S>(p: Seq<Job<S>>, b: int)
    requires p.len() > 0, overflow_ok(p, b)
    ensures overflow_ok(p.drop_last(), b), p.last().3.get() + b < usize::MAX
{
    reveal(overflow_ok);
    let q = p.drop_last();
    assert(p.last() == p[p.len() - 1]);
    assert(p[p.len() - 1].3.get() + b < usize::MAX);
    assert forall|j: int| 0 <= j < q.len() implies (#[trigger] q[j]).3.get() + b < usize::MAX by { assert(q[j] == p[j]); }
}

proof fn overflow_weaken<S>(p: Seq<Job<S>>, b: int)
    requires overflow_ok(p, b + 1)
    ensures overflow_ok(p, b)
{ reveal(overflow_ok); }

// the dequeued job (k, dd) passed the depth test and is logged as evaluated
proof fn eval_step<M: Model>(m: M, g0: Gen, g: Gen, pth: PthMap<M::State>, ev: Ev, n0: int, target: Option<NonZeroUsize>,
                             k: Fingerprint, dd: nat, q: Seq<Job<M::State>>, d0: Disc, d: Disc)
    requires
        0 <= n0 <= ev.len(),
        ev_ok(g, pth, ev), g.contains_key(k), pth[k].len() == dd,
        depth_limit_ok(ev, n0, target),
        ev_below(ev, dd as int), eval_order_ok(ev, q), span_ok(q, dd as int),
        gen_from_ev(g0, g, ev, n0), disc_frame(m, d0, d, ev, n0),
    ensures
        ev_ok(g, pth, ev.push((k, dd))),
        (match target { Some(t) => dd < t.get(), None => true }) ==> depth_limit_ok(ev.push((k, dd)), n0, target),
        eval_order_ok(ev.push((k, dd)), q),
        ev_below(ev.push((k, dd)), dd as int),
        gen_from_ev(g0, g, ev.push((k, dd)), n0),
        disc_frame(m, d0, d, ev.push((k, dd)), n0),
        ev_has(ev.push((k, dd)), n0, k),
{
    reveal(ev_ok); reveal(depth_limit_ok); reveal(ev_below); reveal(eval_order_ok); reveal(span_ok); reveal(gen_from_ev); reveal(disc_frame);
    let e2 = ev.push((k, dd));
    assert(e2[ev.len() as int].0 == k);
    assert forall|x: Fingerprint| ev_has(ev, n0, x) implies ev_has(e2, n0, x) by {
        let n = choose|n: int| n0 <= n < ev.len() && (#[trigger] ev[n]).0 == x;
        assert(e2[n].0 == x);
    }
    assert forall|kk: Fingerprint| #[trigger] g.contains_key(kk) && !g0.contains_key(kk) implies
        g[kk].is_some() && ev_has(e2, n0, g[kk].unwrap()) by {
        assert(ev_has(ev, n0, g[kk].unwrap()));
    }
    assert forall|name: &'static str| #[trigger] d.contains_key(name) && !(d0.contains_key(name) && d0[name] == d[name]) implies
        ev_has(e2, n0, d[name]) by {
        assert(ev_has(ev, n0, d[name]));
    }
    assert forall|a: int, c: int| 0 <= a <= c < e2.len() implies (#[trigger] e2[a]).1 <= (#[trigger] e2[c]).1 by {
        if c < ev.len() { assert(e2[a] == ev[a] && e2[c] == ev[c]); } else if a < ev.len() { assert(e2[a] == ev[a]); }
    }
    assert forall|a: int, j: int| 0 <= a < e2.len() && 0 <= j < q.len() implies (#[trigger] e2[a]).1 <= (#[trigger] q[j]).3.get() by {
        if a < ev.len() { assert(e2[a] == ev[a]); }
    }
}

// the visitor was shown `path` for the job just logged
proof fn visit_step<M: Model>(m: M, log: Seq<Path<M::State, M::Action>>, ev: Ev, pth: PthMap<M::State>, k: Fingerprint, dd: nat, path: Path<M::State, M::Action>)
    requires vis_inv(m, log, ev, pth), shows(m, path, pth[k])
    ensures vis_inv(m, log.push(path), ev.push((k, dd)), pth)
{ reveal(vis_inv); }

// `discoveries.insert(name, k)` for property i, witnessed at the evaluated job k
proof fn disc_step<M: Model>(m: M, g: Gen, st: StMap<M::State>, pth: PthMap<M::State>, d0: Disc, d: Disc, ev: Ev, n0: int,
                             i: int, name: &'static str, k: Fingerprint)
    requires
        disc_ok(m, g, d, st, pth), disc_frame(m, d0, d, ev, n0),
        named(m, i, name), g.contains_key(k), ev_has(ev, n0, k),
    ensures
        witness_ok(m, st, pth, i, k) ==> disc_ok(m, g, d.insert(name, k), st, pth),
        (!d.contains_key(name) || m.props()[i].expectation is Eventually) ==> disc_frame(m, d0, d.insert(name, k), ev, n0),
{
    reveal(disc_ok); reveal(disc_frame);
    let d2 = d.insert(name, k);
    if witness_ok(m, st, pth, i, k) {
        assert forall|nm: &'static str| #[trigger] d2.contains_key(nm) implies
            g.contains_key(d2[nm]) && exists|i2: int| #[trigger] named(m, i2, nm) && witness_ok(m, st, pth, i2, d2[nm]) by {
            if nm == name { assert(named(m, i, nm) && witness_ok(m, st, pth, i, d2[nm])); } else { assert(d.contains_key(nm)); }
        }
    }
    if !d.contains_key(name) || m.props()[i].expectation is Eventually {
        assert forall|nm: &'static str| #[trigger] d0.contains_key(nm) implies
            d2.contains_key(nm) && (d2[nm] == d0[nm] || has_eventually(m, nm)) by {
            assert(d.contains_key(nm));
            if nm == name { assert(named(m, i, nm)); }
        }
        assert forall|nm: &'static str| #[trigger] d2.contains_key(nm) && !(d0.contains_key(nm) && d0[nm] == d2[nm]) implies
            ev_has(ev, n0, d2[nm]) by {
            if nm != name { assert(d.contains_key(nm)); }
        }
    }
}

// a new successor t of the job k was inserted under the fresh key c: G2 for the new key, unchanged for the others
//@props C01 C03
proof fn child_gen_step<M: Model>(m: M, g: Gen, st: StMap<M::State>, pth: PthMap<M::State>,
                                  k: Fingerprint, c: Fingerprint, t: M::State, g1: Gen)
    requires
        gen_inv(m, g, st, pth), g.contains_key(k),
        !g.contains_key(c), fp_of(t) == c, m.within(t), is_succ(m, st[k], t),
    ensures
        g1 == g.insert(c, Some(k)) ==> gen_inv(m, g1, st.insert(c, t), pth.insert(c, pth[k].push(t))),
{
    reveal(gen_inv);
    let st2 = st.insert(c, t);
    let pth2 = pth.insert(c, pth[k].push(t));
    assert(key_ok(m, g, st, pth, k));
    if g1 == g.insert(c, Some(k)) {
        assert forall|x: Fingerprint| #[trigger] g1.contains_key(x) implies key_ok(m, g1, st2, pth2, x) by {
            if x == c {
                let ss = pth2[c];
                assert(ss == pth[k].push(t));
                assert forall|i: int| 0 <= i < ss.len() - 1 implies is_succ(m, #[trigger] ss[i], ss[i + 1]) by {
                    if i < pth[k].len() - 1 { assert(ss[i] == pth[k][i] && ss[i + 1] == pth[k][i + 1]); }
                    else { assert(ss[i] == pth[k].last()); assert(ss[i + 1] == t); }
                }
                assert(ss[0] == pth[k][0]);
                assert(is_path(m, ss));
            } else {
                assert(g.contains_key(x));
                assert(key_ok(m, g, st, pth, x));
                match g[x] { Some(pp) => { assert(g.contains_key(pp)); assert(pp != c); } None => {} }
            }
        }
    }
}

// ... and the job pushed for it carries the new state, the new key and depth + 1
//@props C01 C12
proof fn child_pend_step<M: Model>(m: M, g: Gen, st: StMap<M::State>, pth: PthMap<M::State>, p: Seq<Job<M::State>>,
                                   k: Fingerprint, dd: int, c: Fingerprint, t: M::State, job: Job<M::State>, g1: Gen)
    requires
        pend_inv(m, g, st, pth, p), g.contains_key(k), pth[k].len() == dd, !g.contains_key(c),
    ensures
        g1 == g.insert(c, Some(k)) && job.0 == t && job.1 == c && job.3.get() == dd + 1
            ==> pend_inv(m, g1, st.insert(c, t), pth.insert(c, pth[k].push(t)), seq![job] + p),
{
    reveal(pend_inv);
    let st2 = st.insert(c, t);
    let pth2 = pth.insert(c, pth[k].push(t));
    let p2 = seq![job] + p;
    if g1 == g.insert(c, Some(k)) && job.0 == t && job.1 == c && job.3.get() == dd + 1 {
        assert forall|j: int| 0 <= j < p2.len() implies job_ok(m, g1, st2, pth2, #[trigger] p2[j]) by {
            if j > 0 { assert(p2[j] == p[j - 1]); assert(job_ok(m, g, st, pth, p[j - 1])); } else { assert(p2[0] == job); }
        }
    }
}

// ... at the front of the queue
//@props C13
proof fn child_queue_step<S>(p: Seq<Job<S>>, dd: int, b: int, job: Job<S>)
    requires queue_ok(p), span_ok(p, dd), overflow_ok(p, b)
    ensures
        job.3.get() == dd + 1 ==> queue_ok(seq![job] + p) && span_ok(seq![job] + p, dd),
        job.3.get() + b < usize::MAX ==> overflow_ok(seq![job] + p, b),
{
    reveal(queue_ok); reveal(span_ok); reveal(overflow_ok);
    let p2 = seq![job] + p;
    assert forall|j: int| 0 <= j < p2.len() implies p2[j] == (if j == 0 { job } else { p[j - 1] }) by {}
    if job.3.get() == dd + 1 {
        assert forall|a: int, e: int| 0 <= a <= e < p2.len() implies (#[trigger] p2[a]).3.get() >= (#[trigger] p2[e]).3.get() by {
            if a > 0 { assert(p[a - 1].3.get() >= p[e - 1].3.get()); } else if e > 0 { assert(p[e - 1].3.get() <= dd + 1); }
        }
        assert forall|j: int| 0 <= j < p2.len() implies dd <= (#[trigger] p2[j]).3.get() <= dd + 1 by {
            if j > 0 { assert(dd <= p[j - 1].3.get() <= dd + 1); }
        }
        if p.len() > 0 { assert(p2[p2.len() - 1] == p[p.len() - 1]); assert(dd <= p[p.len() - 1].3.get()); }
    }
    if job.3.get() + b < usize::MAX {
        assert forall|j: int| 0 <= j < p2.len() implies (#[trigger] p2[j]).3.get() + b < usize::MAX by {
            if j > 0 { assert(p[j - 1].3.get() + b < usize::MAX); }
        }
    }
}

// ... and nothing known before was changed
//@props C01 C13
proof fn child_ext_step<S>(g: Gen, st: StMap<S>, pth: PthMap<S>, g3: Gen, st3: StMap<S>, pth3: PthMap<S>,
                           k: Fingerprint, c: Fingerprint, t: S, g1: Gen)
    requires extends(g3, st3, pth3, g, st, pth), children_of(g3, g, k), !g.contains_key(c),
    ensures
        g1.dom() == g.dom().insert(c) && (forall|x: Fingerprint| g.contains_key(x) ==> g1[x] == g[x]) ==>
            extends(g3, st3, pth3, g1, st.insert(c, t), pth.insert(c, pth[k].push(t))),
        g1 == g.insert(c, Some(k)) ==> children_of(g3, g1, k),
{
    reveal(extends); reveal(children_of);
    if g1.dom() == g.dom().insert(c) && (forall|x: Fingerprint| g.contains_key(x) ==> g1[x] == g[x]) {
        assert forall|x: Fingerprint| #[trigger] g3.contains_key(x) implies g1.contains_key(x) && g1[x] == g3[x] by {
            assert(g.contains_key(x));
            assert(g.dom().insert(c).contains(x));
        }
    }
}

// after the expansion of job k: everything stated at the start of the expansion (g3, ..) still holds
proof fn post_expand_step<M: Model>(m: M, log: Seq<Path<M::State, M::Action>>, vis: bool, d: Disc, ev: Ev, n0: int, k: Fingerprint,
                                    g0: Gen, st0: StMap<M::State>, pth0: PthMap<M::State>,
                                    g3: Gen, st3: StMap<M::State>, pth3: PthMap<M::State>,
                                    g: Gen, st: StMap<M::State>, pth: PthMap<M::State>)
    requires
        extends(g0, st0, pth0, g3, st3, pth3), extends(g3, st3, pth3, g, st, pth),
        ev_ok(g3, pth3, ev), vis ==> vis_inv(m, log, ev, pth3), disc_ok(m, g3, d, st3, pth3),
        gen_from_ev(g0, g3, ev, n0), children_of(g3, g, k), ev_has(ev, n0, k),
    ensures
        extends(g0, st0, pth0, g, st, pth),
        ev_ok(g, pth, ev), vis ==> vis_inv(m, log, ev, pth), disc_ok(m, g, d, st, pth),
        gen_from_ev(g0, g, ev, n0),
{
    reveal(extends); reveal(ev_ok); reveal(vis_inv); reveal(disc_ok); reveal(gen_from_ev); reveal(children_of);
    assert forall|x: Fingerprint| #[trigger] g0.contains_key(x) implies
        g.contains_key(x) && g[x] == g0[x] && st[x] == st0[x] && pth[x] == pth0[x] by { assert(g3.contains_key(x)); }
    if vis {
        assert forall|n: int| 0 <= n < log.len() implies shows(m, #[trigger] log[n], pth[ev[n].0]) by {
            assert(g3.contains_key(ev[n].0));
        }
    }
    assert forall|name: &'static str| #[trigger] d.contains_key(name) implies
        g.contains_key(d[name]) && exists|i: int| #[trigger] named(m, i, name) && witness_ok(m, st, pth, i, d[name]) by {
        assert(g3.contains_key(d[name]));
        let i = choose|i: int| #[trigger] named(m, i, name) && witness_ok(m, st3, pth3, i, d[name]);
        assert(named(m, i, name) && witness_ok(m, st, pth, i, d[name]));
    }
    assert forall|x: Fingerprint| #[trigger] g.contains_key(x) && !g0.contains_key(x) implies
        g[x].is_some() && ev_has(ev, n0, g[x].unwrap()) by {
        if g3.contains_key(x) { assert(!g0.contains_key(x)); }
    }
}

// after the expansion of a job of depth dd: the evaluation order still fits the queue
proof fn order_step<S>(ev: Ev, q: Seq<Job<S>>, p: Seq<Job<S>>, dd: int)
    requires eval_order_ok(ev, q), ev_below(ev, dd), span_ok(p, dd)
    ensures eval_order_ok(ev, p)
{ reveal(eval_order_ok); reveal(ev_below); reveal(span_ok); }


// `pending.pop_back()` returned a job: its bits describe the path before its own state
//@props C03 C11
proof fn pop_ebits_step<M: Model>(m: M, pth: PthMap<M::State>, p: Seq<Job<M::State>>, d: Disc)
    requires p.len() > 0, pend_ebits_ok(m, pth, p)
    ensures
        pend_ebits_ok(m, pth, p.drop_last()),
        local_ebits_undisc(m, d, p.last().2@, pth[p.last().1], 0),
        local_ebits_disc(m, d, p.last().2@, pth[p.last().1], 0),
{
    reveal(pend_ebits_ok); reveal(local_ebits_undisc); reveal(local_ebits_disc);
    let q = p.drop_last();
    assert forall|j: int, i: int| 0 <= j < q.len() && 0 <= i < m.props().len() implies
        #[trigger] ebit_exact(m, q[j].2@, pth[q[j].1].drop_last(), i) by {
        assert(q[j] == p[j]);
        assert(ebit_exact(m, p[j].2@, pth[p[j].1].drop_last(), i));
    }
    assert forall|i: int| 0 <= i < m.props().len() implies #[trigger] ebit_exact(m, p.last().2@, local_path(pth[p.last().1], i, 0), i) by {
        assert(ebit_exact(m, p[p.len() - 1].2@, pth[p[p.len() - 1].1].drop_last(), i));
    }
}



// a new child job gets a clone of the bits of its parent k (exact for pth[k])
//@props C03 C11
proof fn child_ebits_step<M: Model>(m: M, g: Gen, st: StMap<M::State>, pth: PthMap<M::State>, p: Seq<Job<M::State>>,
                                    k: Fingerprint, c: Fingerprint, t: M::State, bits: Set<usize>, job: Job<M::State>)
    requires
        pend_inv(m, g, st, pth, p), pend_ebits_ok(m, pth, p), local_exact(m, bits, pth[k]), !g.contains_key(c), job.1 == c,
    ensures
        job.2@ == bits ==> pend_ebits_ok(m, pth.insert(c, pth[k].push(t)), seq![job] + p),
{
    reveal(pend_inv); reveal(pend_ebits_ok); reveal(local_exact);
    let pth2 = pth.insert(c, pth[k].push(t));
    let p2 = seq![job] + p;
    if job.2@ == bits {
        assert forall|j: int, i: int| 0 <= j < p2.len() && 0 <= i < m.props().len() implies
            #[trigger] ebit_exact(m, p2[j].2@, pth2[p2[j].1].drop_last(), i) by {
            if j == 0 {
                assert(p2[0] == job);
                assert(pth2[c].drop_last() == pth[k]);
                assert(ebit_exact(m, bits, pth[k], i));
            } else {
                assert(p2[j] == p[j - 1]);
                assert(job_ok(m, g, st, pth, p[j - 1]));
                assert(ebit_exact(m, p[j - 1].2@, pth[p[j - 1].1].drop_last(), i));
            }
        }
    }
}


// bit i still set at a dead end k: k witnesses the eventually-property i
//@props C03 C11
proof fn ev_witness<M: Model>(m: M, st: StMap<M::State>, pth: PthMap<M::State>, bits: Set<usize>, i: int, k: Fingerprint)
    requires local_exact(m, bits, pth[k]), 0 <= i < m.props().len(), bits.contains(i as usize), is_dead_end(m, st[k])
    ensures witness_ok(m, st, pth, i, k), m.props()[i].expectation is Eventually
{
    reveal(local_exact);
    assert(ebit_exact(m, bits, pth[k], i));
}

// the n-th action of s leads into the boundary: s is not a dead end
//@props C11
proof fn not_dead<M: Model>(m: M, s: M::State, n: int)
    requires 0 <= n < m.acts(s).len(), in_succ_at(m, s, n)
    ensures !is_dead_end(m, s)
{
    let a = m.acts(s)[n];
    let t = m.nxt(s, a).unwrap();
    assert(m.acts(s).contains(a));
    assert(is_succ(m, s, t));
}
// the evaluated job k (state s, bits exact for its path) has been expanded and, if it is a dead end, every bit
// still set has produced a discovery.  That last fact about the code (`bits_recorded`) is the premise of the
// conclusion, not a precondition: a block that does not record then fails its own clause `eventually-complete`
//@props C11
proof fn ev_complete_step<M: Model>(m: M, dh: Disc, d: Disc, g3: Gen, st3: StMap<M::State>, pth3: PthMap<M::State>,
                                    g: Gen, st: StMap<M::State>, pth: PthMap<M::State>, e3: Set<Fingerprint>, k: Fingerprint, s: M::State, bits: Set<usize>)
    requires
        ev_complete(m, dh, st3, pth3, e3), dh.dom().subset_of(d.dom()), extends(g3, st3, pth3, g, st, pth),
        forall|x: Fingerprint| e3.contains(x) ==> g3.contains_key(x),
        st[k] == s, local_exact(m, bits, pth[k]), m.props().len() <= usize::MAX,
    ensures bits_recorded(m, d, s, bits) ==> ev_complete(m, d, st, pth, e3.insert(k))
{
    reveal(ev_complete); reveal(extends); reveal(local_exact);
    if bits_recorded(m, d, s, bits) {
        assert forall|x: Fingerprint, i: int| e3.insert(k).contains(x) && is_dead_end(m, st[x]) && #[trigger] unsat_on(m, i, pth[x])
            implies d.contains_key(m.props()[i].name) by {
            if x == k {
                assert(ebit_exact(m, bits, pth[k], i));
                assert(bits.contains(i as usize));
                assert(d.contains_key(m.props()[i].name));
            } else {
                assert(g3.contains_key(x));
                assert(unsat_on(m, i, pth3[x]));
                assert(dh.contains_key(m.props()[i].name));
                assert(dh.dom().contains(m.props()[i].name) ==> d.dom().contains(m.props()[i].name));
            }
        }
    }
}
//@props C11
proof fn ev_complete_mono<M: Model>(m: M, dh: Disc, d: Disc, st: StMap<M::State>, pth: PthMap<M::State>, e: Set<Fingerprint>)
    requires ev_complete(m, dh, st, pth, e), dh.dom().subset_of(d.dom())
    ensures ev_complete(m, d, st, pth, e)
{
    reveal(ev_complete);
    assert forall|x: Fingerprint, i: int| e.contains(x) && is_dead_end(m, st[x]) && #[trigger] unsat_on(m, i, pth[x])
        implies d.contains_key(m.props()[i].name) by {
        assert(dh.dom().contains(m.props()[i].name) ==> d.dom().contains(m.props()[i].name));
    }
}

// `pending.pop_back()` returned a job with key k: k was not finished before and counts as finished from now on
//@props C01
proof fn part_pop_step<S>(dom: Set<Fingerprint>, p: Seq<Job<S>>, done: Set<Fingerprint>)
    requires p.len() > 0, partition_ok(dom, p, done)
    ensures !done.contains(p.last().1), dom.contains(p.last().1), partition_ok(dom, p.drop_last(), done.insert(p.last().1))
{
    reveal(partition_ok);
    let q = p.drop_last();
    let k = p.last().1;
    let d2 = done.insert(k);
    assert(p[p.len() - 1].1 == k);
    assert forall|x: Fingerprint| #[trigger] dom.contains(x) implies d2.contains(x) || pend_has(q, x) by {
        if !done.contains(x) && x != k {
            let j = choose|j: int| 0 <= j < p.len() && (#[trigger] p[j]).1 == x;
            assert(q[j].1 == x);
        }
    }
    assert forall|j: int| 0 <= j < q.len() implies dom.contains((#[trigger] q[j]).1) && !d2.contains(q[j].1) by {
        assert(q[j] == p[j]);
        assert(p[j].1 != p[p.len() - 1].1);
    }
    assert forall|i: int, j: int| 0 <= i < j < q.len() implies (#[trigger] q[i]).1 != (#[trigger] q[j]).1 by {
        assert(q[i] == p[i] && q[j] == p[j]);
    }
}
// a job for the fresh key c was pushed
//@props C01
proof fn part_child_step<S>(dom: Set<Fingerprint>, p: Seq<Job<S>>, done: Set<Fingerprint>, c: Fingerprint, job: Job<S>)
    requires partition_ok(dom, p, done), !dom.contains(c)
    ensures job.1 == c ==> partition_ok(dom.insert(c), seq![job] + p, done)
{
    reveal(partition_ok);
    let p2 = seq![job] + p;
    let dom2 = dom.insert(c);
    if job.1 == c {
        assert(p2[0] == job);
        assert forall|j: int| 1 <= j < p2.len() implies p2[j] == p[j - 1] by {}
        assert forall|x: Fingerprint| #[trigger] dom2.contains(x) implies done.contains(x) || pend_has(p2, x) by {
            if x == c { assert(p2[0].1 == x); } else if !done.contains(x) {
                let j = choose|j: int| 0 <= j < p.len() && (#[trigger] p[j]).1 == x;
                assert(p2[j + 1].1 == x);
            }
        }
        assert forall|j: int| 0 <= j < p2.len() implies dom2.contains((#[trigger] p2[j]).1) && !done.contains(p2[j].1) by {
            if j > 0 { assert(p2[j] == p[j - 1]); }
        }
        assert forall|i: int, j: int| 0 <= i < j < p2.len() implies (#[trigger] p2[i]).1 != (#[trigger] p2[j]).1 by {
            assert(p2[j] == p[j - 1]);
            if i > 0 { assert(p2[i] == p[i - 1]); } else { assert(dom.contains(p[j - 1].1)); }
        }
    }
}
// the job k, not finished before, is evaluated
//@props C01
proof fn once_step(ev: Ev, s: Set<Fingerprint>, k: Fingerprint, dd: nat)
    requires once_ok(ev, s), !s.contains(k)
    ensures once_ok(ev.push((k, dd)), s.insert(k))
{
    reveal(once_ok);
    let e2 = ev.push((k, dd));
    assert forall|n: int| 0 <= n < e2.len() implies s.insert(k).contains((#[trigger] e2[n]).0) by {
        if n < ev.len() { assert(e2[n] == ev[n]); }
    }
    assert forall|a: int, b: int| 0 <= a < b < e2.len() implies (#[trigger] e2[a]).0 != (#[trigger] e2[b]).0 by {
        assert(e2[a] == ev[a]);
        if b < ev.len() { assert(e2[b] == ev[b]); }
    }
}
// all in-boundary successors of the job k (state s) are generated now: k joins the expanded jobs
//@props C01
proof fn closure_step<M: Model>(m: M, g3: Gen, st3: StMap<M::State>, pth3: PthMap<M::State>, g: Gen, st: StMap<M::State>, pth: PthMap<M::State>,
                                expanded: Set<Fingerprint>, k: Fingerprint, s: M::State, el: Seq<M::State>)
    requires
        closed_ok(m, g3, st3, expanded), extends(g3, st3, pth3, g, st, pth),
        forall|x: Fingerprint| expanded.contains(x) ==> g3.contains_key(x),
        explog_ok(el, expanded), !expanded.contains(k), fp_of(s) == k, st[k] == s,
    ensures
        // the fact about the code (every in-boundary successor of s has been generated) is the premise of the conclusion,
        // not a precondition: an expansion that misses a successor then fails its own clause `closure`
        (forall|n: int| 0 <= n < m.acts(s).len() && #[trigger] in_succ_at(m, s, n) ==> g.contains_key(fp_of(m.nxt(s, m.acts(s)[n]).unwrap())))
            ==> closed_ok(m, g, st, expanded.insert(k)),
        explog_ok(el.push(s), expanded.insert(k)),
        total_succ(m, el.push(s)) == total_succ(m, el) + succ_count(m, s, m.acts(s).len() as int),
{
    reveal(closed_ok); reveal(extends); reveal(explog_ok);
    if forall|n: int| 0 <= n < m.acts(s).len() && #[trigger] in_succ_at(m, s, n) ==> g.contains_key(fp_of(m.nxt(s, m.acts(s)[n]).unwrap())) {
    assert forall|x: Fingerprint, t: M::State| expanded.insert(k).contains(x) && #[trigger] is_succ(m, st[x], t) implies g.contains_key(fp_of(t)) by {
        if x == k {
            let a = choose|a: M::Action| #[trigger] m.acts(s).contains(a) && m.nxt(s, a) == Some(t) && m.within(t);
            let n = choose|n: int| 0 <= n < m.acts(s).len() && m.acts(s)[n] == a;
            assert(in_succ_at(m, s, n));
        } else {
            assert(g3.contains_key(x));
            assert(is_succ(m, st3[x], t));
            assert(g3.contains_key(fp_of(t)));
        }
    }
    }
    let e2 = el.push(s);
    assert(e2.drop_last() == el);
    assert forall|n: int| 0 <= n < e2.len() implies expanded.insert(k).contains(fp_of(#[trigger] e2[n])) by {
        if n < el.len() { assert(e2[n] == el[n]); }
    }
    assert forall|a: int, b: int| 0 <= a < b < e2.len() implies fp_of(#[trigger] e2[a]) != fp_of(#[trigger] e2[b]) by {
        assert(e2[a] == el[a]);
        if b < el.len() { assert(e2[b] == el[b]); }
    }
    assert forall|x: Fingerprint| #[trigger] expanded.insert(k).contains(x) implies exists|n: int| 0 <= n < e2.len() && fp_of(#[trigger] e2[n]) == x by {
        if x == k { assert(fp_of(e2[el.len() as int]) == x); } else {
            let n = choose|n: int| 0 <= n < el.len() && fp_of(#[trigger] el[n]) == x;
            assert(fp_of(e2[n]) == x);
        }
    }
}
// G3 survives growth of `generated`
//@props C01
proof fn closed_grow<M: Model>(m: M, g3: Gen, st3: StMap<M::State>, pth3: PthMap<M::State>, g: Gen, st: StMap<M::State>, pth: PthMap<M::State>, expanded: Set<Fingerprint>)
    requires closed_ok(m, g3, st3, expanded), extends(g3, st3, pth3, g, st, pth), forall|x: Fingerprint| expanded.contains(x) ==> g3.contains_key(x),
    ensures closed_ok(m, g, st, expanded)
{
    reveal(closed_ok); reveal(extends);
    assert forall|x: Fingerprint, t: M::State| expanded.contains(x) && #[trigger] is_succ(m, st[x], t) implies g.contains_key(fp_of(t)) by {
        assert(g3.contains_key(x));
        assert(is_succ(m, st3[x], t));
        assert(g3.contains_key(fp_of(t)));
    }
}
//@props C01
proof fn part_done_sub<S>(dom: Set<Fingerprint>, p: Seq<Job<S>>, done: Set<Fingerprint>)
    requires partition_ok(dom, p, done)
    ensures forall|x: Fingerprint| done.contains(x) ==> dom.contains(x)
{ reveal(partition_ok); }

// the job k (state s) has been tested against every property without a discovery; discoveries and
// `generated` may have grown since the facts were established
//@props C02
proof fn tested_update<M: Model>(m: M, d0: Disc, dx: Disc, d1: Disc, g0: Gen, st0: StMap<M::State>, pth0: PthMap<M::State>,
                                 g1: Gen, st1: StMap<M::State>, pth1: PthMap<M::State>, ev: Set<Fingerprint>, k: Fingerprint, s: M::State, done: int)
    requires
        tested_ok(m, d0, st0, ev), d0.dom().subset_of(d1.dom()), dx.dom().subset_of(d1.dom()),
        extends(g0, st0, pth0, g1, st1, pth1), forall|x: Fingerprint| ev.contains(x) ==> g0.contains_key(x),
        local_tested(m, dx, s, done), done >= m.props().len(), st1[k] == s,
    ensures tested_ok(m, d1, st1, ev.insert(k))
{
    reveal(tested_ok); reveal(local_tested); reveal(extends);
    assert forall|x: Fingerprint, i: int| ev.insert(k).contains(x) && 0 <= i < m.props().len() && !d1.contains_key(m.props()[i].name)
        implies #[trigger] passes(m, i, st1[x]) by {
        let nm = m.props()[i].name;
        assert(d0.dom().contains(nm) ==> d1.dom().contains(nm));
        assert(dx.dom().contains(nm) ==> d1.dom().contains(nm));
        if x == k { assert(passes(m, i, s)); } else { assert(g0.contains_key(x)); assert(passes(m, i, st0[x])); }
    }
}
proof fn extends_key<S>(g0: Gen, st0: StMap<S>, pth0: PthMap<S>, g1: Gen, st1: StMap<S>, pth1: PthMap<S>, k: Fingerprint)
    requires extends(g0, st0, pth0, g1, st1, pth1), g0.contains_key(k)
    ensures g1.contains_key(k), g1[k] == g0[k], st1[k] == st0[k], pth1[k] == pth0[k]
{ reveal(extends); }
proof fn children_refl(g: Gen, k: Fingerprint)
    ensures children_of(g, g, k)
{ reveal(children_of); }
proof fn extends_refl<S>(g: Gen, st: StMap<S>, pth: PthMap<S>)
    ensures extends(g, st, pth, g, st, pth)
{ reveal(extends); }

// =====================================================================================================
// Property lemmas: what the invariants of check_block mean once the queue has run empty
// =====================================================================================================

// established by `spawn` (not in this unit): every in-boundary initial state has been generated
spec fn inits_generated<M: Model>(m: M, g: Gen) -> bool {
    forall|s: M::State| #[trigger] is_init(m, s) ==> g.contains_key(fp_of(s))
}


// C01 (soundness half): every generated key is the fingerprint of a reachable in-boundary state
//@props C01
proof fn generated_are_reachable<M: Model>(m: M, g: Gen, st: StMap<M::State>, pth: PthMap<M::State>, k: Fingerprint)
    requires gen_inv(m, g, st, pth), g.contains_key(k)
    ensures reach(m, st[k]), fp_of(st[k]) == k, m.within(st[k])
{
    gen_inv_key(m, g, st, pth, k);
    path_reach(m, pth[k]);
}

// C01 (completeness half), by induction on the length of a path: once every generated key is expanded,
// every reachable in-boundary state has been generated - and, fingerprints being collision free, it is the
// very state recorded for its key (hence evaluated, shown to the visitor, counted once)
//@props C01
proof fn closure_path<M: Model>(m: M, g: Gen, st: StMap<M::State>, pth: PthMap<M::State>, expanded: Set<Fingerprint>, ss: Seq<M::State>)
    requires
        gen_inv(m, g, st, pth), closed_ok(m, g, st, expanded), forall|k: Fingerprint| g.contains_key(k) ==> expanded.contains(k),
        inits_generated(m, g), fp_inj_reach(m), is_path(m, ss),
    ensures g.contains_key(fp_of(ss.last())), st[fp_of(ss.last())] == ss.last()
    decreases ss.len()
{
    reveal(closed_ok);
    let s = ss.last();
    path_reach(m, ss);
    if ss.len() == 1 {
        assert(is_init(m, s));
    } else {
        path_prefix(m, ss);
        let q = ss.drop_last().last();
        closure_path(m, g, st, pth, expanded, ss.drop_last());
        assert(is_succ(m, st[fp_of(q)], s));
    }
    generated_are_reachable(m, g, st, pth, fp_of(s));
}
//@props C01
proof fn closure<M: Model>(m: M, g: Gen, st: StMap<M::State>, pth: PthMap<M::State>, gh: Gh<M>, pending: Seq<Job<M::State>>)
    requires
        gen_inv(m, g, st, pth), closed_ok(m, g, st, gh.expanded),
        partition_ok(g.dom(), pending, gh.expanded + gh.skipped + gh.unexp),
        pending.len() == 0, gh.skipped == Set::<Fingerprint>::empty(), gh.unexp == Set::<Fingerprint>::empty(),
        inits_generated(m, g), fp_inj_reach(m),
    ensures
        forall|s: M::State| #[trigger] reach(m, s) ==> g.contains_key(fp_of(s)) && st[fp_of(s)] == s,
        forall|k: Fingerprint| g.contains_key(k) ==> gh.expanded.contains(k),
{
    reveal(partition_ok);
    assert forall|k: Fingerprint| g.contains_key(k) implies gh.expanded.contains(k) by {
        assert(g.dom().contains(k));
        assert(!pend_has(pending, k));
    }
    assert forall|s: M::State| #[trigger] reach(m, s) implies g.contains_key(fp_of(s)) && st[fp_of(s)] == s by {
        let ss = choose|ss: Seq<M::State>| #[trigger] is_path(m, ss) && ss.last() == s;
        closure_path(m, g, st, pth, gh.expanded, ss);
    }
}

// C02: after a completed exhaustive check an always / sometimes property has a discovery iff some
// reachable in-boundary state calls for one (violates the always-, satisfies the sometimes-property)
//@props C02
proof fn verdict_exact<M: Model>(m: M, g: Gen, st: StMap<M::State>, pth: PthMap<M::State>, d: Disc, evaluated: Set<Fingerprint>, i: int)
    requires
        gen_inv(m, g, st, pth), disc_ok(m, g, d, st, pth), tested_ok(m, d, st, evaluated),
        forall|k: Fingerprint| g.contains_key(k) ==> evaluated.contains(k),
        forall|s: M::State| #[trigger] reach(m, s) ==> g.contains_key(fp_of(s)) && st[fp_of(s)] == s,
        names_distinct(m), 0 <= i < m.props().len(), !(m.props()[i].expectation is Eventually),
    ensures
        d.contains_key(m.props()[i].name) <==> exists|s: M::State| #[trigger] reach(m, s) && !passes(m, i, s),
{
    reveal(disc_ok); reveal(tested_ok);
    let name = m.props()[i].name;
    if d.contains_key(name) {
        let i2 = choose|i2: int| #[trigger] named(m, i2, name) && witness_ok(m, st, pth, i2, d[name]);
        assert(i2 == i);
        generated_are_reachable(m, g, st, pth, d[name]);
        assert(reach(m, st[d[name]]) && !passes(m, i, st[d[name]]));
    } else {
        assert forall|s: M::State| #[trigger] reach(m, s) implies passes(m, i, s) by {
            assert(evaluated.contains(fp_of(s)));
            assert(passes(m, i, st[fp_of(s)]));
        }
    }
}

// C03 / C11: an eventually discovery names a maximal in-boundary path from an initial state on which the
// condition never holds (the path reconstruct_path returns has the fingerprints of pth[k], see `shows`)
//@props C03 C11
proof fn eventually_no_false_alarm<M: Model>(m: M, g: Gen, st: StMap<M::State>, pth: PthMap<M::State>, d: Disc, i: int)
    requires
        gen_inv(m, g, st, pth), disc_ok(m, g, d, st, pth), names_distinct(m),
        0 <= i < m.props().len(), m.props()[i].expectation is Eventually, d.contains_key(m.props()[i].name),
    ensures ({
        let ss = pth[d[m.props()[i].name]];
        &&& is_path(m, ss)
        &&& is_dead_end(m, ss.last())
        &&& forall|n: int| 0 <= n < ss.len() ==> !cond(m.props()[i], m, #[trigger] ss[n])
    }),
{
    reveal(disc_ok);
    let name = m.props()[i].name;
    let i2 = choose|i2: int| #[trigger] named(m, i2, name) && witness_ok(m, st, pth, i2, d[name]);
    assert(i2 == i);
    gen_inv_key(m, g, st, pth, d[name]);
}

// C11: on a model whose reachable graph is a forest, after a completed exhaustive BFS run an eventually-property
// has a counterexample exactly if some maximal in-boundary path from an initial state never satisfies it
//@props C11
proof fn exact_on_forest<M: Model>(m: M, g: Gen, st: StMap<M::State>, pth: PthMap<M::State>, gh: Gh<M>, pending: Seq<Job<M::State>>, d: Disc, i: int)
    requires
        gen_inv(m, g, st, pth), closed_ok(m, g, st, gh.expanded),
        partition_ok(g.dom(), pending, gh.expanded + gh.skipped + gh.unexp),
        pending.len() == 0, gh.skipped == Set::<Fingerprint>::empty(), gh.unexp == Set::<Fingerprint>::empty(),
        inits_generated(m, g), fp_inj_reach(m), unique_path(m), names_distinct(m),
        disc_ok(m, g, d, st, pth), ev_complete(m, d, st, pth, gh.expanded),
        0 <= i < m.props().len(), m.props()[i].expectation is Eventually,
    ensures
        d.contains_key(m.props()[i].name) <==> exists|ss: Seq<M::State>| #[trigger] is_path(m, ss) && is_dead_end(m, ss.last()) && unsat_on(m, i, ss),
{
    reveal(ev_complete);
    if d.contains_key(m.props()[i].name) {
        eventually_no_false_alarm(m, g, st, pth, d, i);
        let ss = pth[d[m.props()[i].name]];
        assert(is_path(m, ss) && is_dead_end(m, ss.last()) && unsat_on(m, i, ss));
    }
    if exists|ss: Seq<M::State>| #[trigger] is_path(m, ss) && is_dead_end(m, ss.last()) && unsat_on(m, i, ss) {
        let ss = choose|ss: Seq<M::State>| #[trigger] is_path(m, ss) && is_dead_end(m, ss.last()) && unsat_on(m, i, ss);
        closure(m, g, st, pth, gh, pending);
        path_reach(m, ss);
        let k = fp_of(ss.last());
        assert(g.contains_key(k) && st[k] == ss.last());
        gen_inv_key(m, g, st, pth, k);
        assert(pth[k] == ss);
        assert(gh.expanded.contains(k));
    }
}
