// ---- prelude/cbb.rs: what unit CBB (the builder methods of `CheckerBuilder`, /repo/src/checker.rs) adds to
// prelude/model.rs (which gives `Model`, `ReprFn<S>` for the symmetry fn pointer and `VisitorBox<M>` for
// `Box<dyn CheckerVisitor<M> + Send + Sync>`). Included inside `verus! { }` after prelude/model.rs.

// `trait CheckerVisitor<M>` (/repo/src/checker/visitor.rs) as a marker: the builder only stores the visitor.
trait CheckerVisitor<M: Model> {}

// `Box::new(visitor)` coerced to `Box<dyn CheckerVisitor<M> + Send + Sync>` (callmap `Box::new(` => `box_visitor(`):
// the type-erased box of a visitor value is *some* function of that value (`boxed_visitor`); nothing else is said.
// TRUSTED (std `Box::new`: "Allocates memory on the heap and then places x into it"; unsizing keeps the value).
uninterp spec fn boxed_visitor<M: Model, V>(v: V) -> VisitorBox<M>;
#[verifier::external_body]
fn box_visitor<M: Model, V: CheckerVisitor<M> + Send + Sync + 'static>(v: V) -> (r: VisitorBox<M>)
    ensures r == boxed_visitor::<M, V>(v)
{ unimplemented!() }
