// ---- prelude/csp.rs: trusted items of unit CSP (the prologue of the checkers' `spawn`).  Needs prelude/model.rs.
// A-SEQ, the constructor side of the sequential stand-ins of prelude/model.rs (rule R7_NEW of vx/rules_csp.py):
// the real values are created empty / with the given value and then shared between the worker threads; here one
// thread owns them.

impl Counter {
    // std, `AtomicUsize::new`: "Creates a new atomic integer."
    #[verifier::external_body]
    fn new(v: usize) -> (r: Self) ensures r@ == v { Counter { c: v } }
}
impl<K, V> SeqMap<K, V> {
    // dashmap, `impl Default for DashMap` = `with_hasher(Default::default())`: "Creates a new DashMap with a capacity
    // of 0": no entries
    #[verifier::external_body]
    fn new() -> (r: Self) ensures r@ == Map::<K, V>::empty() { unimplemented!() }
}
impl<K> SeqSet<K> {
    // dashmap, `impl Default for DashSet` = `with_hasher(Default::default())`: "Creates a new DashSet with a capacity
    // of 0": no elements
    #[verifier::external_body]
    fn new() -> (r: Self) ensures r@ == Set::<K>::empty() { unimplemented!() }
}
