// ---- prelude/lock.rs: what a waiter knows after `Condvar::wait` returns (assumption A-LOCK) ----
// parking_lot: `wait` "atomically unlocks the mutex and blocks; when it returns the lock is held
// again". Other threads may have run any number of critical sections meanwhile, so the market is
// arbitrary afterwards - except for the global counting fact that this waiter decremented
// `open_count` before waiting and nobody increments it on its behalf (so it is below
// `thread_count`, which never changes). That counting fact is an assumption about the other
// threads and is NOT verified here.
#[verifier::external_body]
fn lock_released_and_reacquired<Job>(market: &mut JobMarket<Job>)
    ensures
        final(market).thread_count == old(market).thread_count,
        final(market).open_count < final(market).thread_count,
{
}
