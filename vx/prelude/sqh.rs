// ---- prelude/sqh.rs: the `SequentialSpec` trait (/repo/src/semantics.rs) as unit SQH sees an implementing type ----
// Included inside `verus! { }`. TRUSTED (explicit HYPOTHESIS on the implementing type, listed in notes/units/SQH.md):
// the contracts of the two REQUIRED-or-overridable methods that the provided method `is_valid_history` calls.
//
// A-PURE: `invoke` is a deterministic function of the object state and the operation: it returns `ret_of(s, op)`
// and leaves the object in `next_of(s, op)` (both uninterpreted per implementing type; for `Register<T>` and
// `Vec<T>` unit SEQ proves `invoke` against the documented step functions `reg_step` / `vec_step`, which are
// instances: `ret_of(s, op) == step(s, op).1`, `next_of(s, op) == step(s, op).0`).
//
// `is_valid_step(op, ret)`: trait documentation "Indicates whether invoking a specified operation might result in
// a specified return value. Includes a default implementation that calls `invoke`, but a manual implementation may
// be provided for efficiency purposes". The hypothesis is the task's reading of it:
//     is_valid_step(op, ret)  <==>  invoke(op) would return ret          (`==` of `Ret` read as value equality)
//     and when it says `true` the object is in the state `invoke(op)` leaves.
// These are exactly the clauses `[iff-invoke-eq]` / `[state]` that unit SEQ PROVES for the real `Register<T>` and
// `Vec<T>` impls (and Kani k_wo_valid_step for `WORegister`), and that unit SQH proves for the trait's DEFAULT body
// (`SQH.default_is_valid_step`). When it says `false` NOTHING is assumed about the state it leaves except that it
// is a function `rejected_of(s, op, ret)` of the arguments (A-PURE; the default body leaves `next_of(s, op)`,
// `Register`'s override leaves `s`): the contract of `is_valid_history` names that state, it does not describe it.
pub trait SequentialSpec: Sized {
    type Op;
    type Ret;
    spec fn ret_of(self, op: Self::Op) -> Self::Ret;
    spec fn next_of(self, op: Self::Op) -> Self;
    spec fn rejected_of(self, op: Self::Op, ret: Self::Ret) -> Self;

    fn invoke(&mut self, op: &Self::Op) -> (r: Self::Ret)
        ensures
            r == old(self).ret_of(*op),
            *final(self) == old(self).next_of(*op);

    fn is_valid_step(&mut self, op: &Self::Op, ret: &Self::Ret) -> (r: bool)
        ensures
            r == (old(self).ret_of(*op) == *ret),
            r ==> *final(self) == old(self).next_of(*op),
            !r ==> *final(self) == old(self).rejected_of(*op, *ret);
}
