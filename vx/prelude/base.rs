// ---- prelude/base.rs: trusted specifications of std items that vstd lacks (DESIGN.md 3.4) ----
// `core::cmp::max(a, b)`: std documents "returns the second argument if the comparison determines
// them to be equal", i.e. `if a > b { a } else { b }`.
pub assume_specification<T: Ord>[core::cmp::max::<T>](a: T, b: T) -> (r: T)
    ensures
        T::obeys_cmp_spec() ==> r == (if a.cmp_spec(&b) == Ordering::Greater { a } else { b });
// `core::cmp::Ordering` derives `PartialEq`: `==` is structural equality.
pub assume_specification[<Ordering as PartialEq>::eq](a: &Ordering, b: &Ordering) -> (r: bool)
    ensures r == (*a == *b);
// `core::cmp::min(a, b)`: std documents "returns the first argument if the comparison determines
// them to be equal", i.e. `if b < a { b } else { a }`.
pub assume_specification<T: Ord>[core::cmp::min::<T>](a: T, b: T) -> (r: T)
    ensures
        T::obeys_cmp_spec() ==> r == (if b.cmp_spec(&a) == Ordering::Less { b } else { a });
