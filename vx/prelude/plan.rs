// ---- prelude/plan.rs: what unit PLAN (the REAL `RewritePlan`, /repo/src/checker/rewrite_plan.rs) trusts ----
// Included inside `verus! { }` after prelude/iterseq.rs (for `iter_seq`). The including unit needs
// `use vstd::std_specs::convert::FromSpec;` and defines `idx` (copied from units/DNM.vrs by `//@usespec`).
// TRUSTED items of this file (each marked below): `axiom_ord_usize`, `axiom_ord_ref`, (definitional: `axiom_key_as_*`), `stable_sort_by_keys`,
// `unstable_sort_by_keys`, `PlanFn` + `PlanFn::call` + `fnptr_f_from_closure`, `Rewrite::rewrite` (definition of
// `rewritten`), `IndexedCollection` (the law that ties `Index<usize>` to `FromIterator` for the collection type
// of `reindex`). Everything else here is definitions.

// ---------------------------------------------------------------------------------------------
// key lawfulness: `R: From<usize> + Copy, usize: From<R>` (explicit precondition, not an axiom)
// ---------------------------------------------------------------------------------------------
// vstd models `usize::from(k)` as `<usize as FromSpec<K>>::from_spec(k)` for impls that obey their spec
// (`obeys_from_spec`), as unit DNM's `[key-model]` precondition says for `DenseNatMap::get`. A key type is
// lawful for a `RewritePlan` if both conversions obey their specs and converting an index to a key and back
// gives the index again: `usize::from(R::from(i)) == i` (true of `Id`: `Id(i as u64).0 as usize`, 64 bit).
pub open spec fn key_lawful<R>() -> bool where R: From<usize>, usize: From<R> {
    &&& <usize as FromSpec<R>>::obeys_from_spec()
    &&& <R as FromSpec<usize>>::obeys_from_spec()
    &&& forall|i: usize| idx::<R>(#[trigger] <R as FromSpec<usize>>::from_spec(i)) == i
}

// ---------------------------------------------------------------------------------------------
// `K: Ord` as a spec-level relation
// ---------------------------------------------------------------------------------------------
// `ord_lt::<K>(a, b)`: `a.cmp(&b) == Ordering::Less` for the `Ord` impl of `K`. Uninterpreted: what is known
// about it for a generic `K` is the explicit precondition `ord_lawful::<K>()`; for `usize` and `&T` the two
// axioms below transcribe std.
pub uninterp spec fn ord_lt<K>(a: K, b: K) -> bool;
// `a.cmp(&b) == Ordering::Equal`
pub open spec fn ord_eq<K>(a: K, b: K) -> bool { !ord_lt(a, b) && !ord_lt(b, a) }
// A lawful `Ord` is a total order on the classes of `cmp == Equal`, i.e. `<` is a strict weak order
// (std, trait Ord: "Implementations must be consistent with the PartialOrd implementation ... total,
// antisymmetric: exactly one of a < b, a == b or a > b is true; transitive: a < b and b < c implies a < c. The
// same must hold for both == and >"): irreflexive, transitive, and incomparability (`ord_eq`) is transitive,
// stated as negative transitivity.
pub open spec fn ord_lawful<K>() -> bool {
    &&& forall|a: K| !#[trigger] ord_lt(a, a)
    &&& forall|a: K, b: K, c: K| #[trigger] ord_lt(a, b) && #[trigger] ord_lt(b, c) ==> ord_lt(a, c)
    &&& forall|a: K, b: K, c: K| #![trigger ord_lt(a, c), ord_lt(a, b)] #![trigger ord_lt(a, c), ord_lt(b, c)]
            ord_lt(a, c) ==> ord_lt(a, b) || ord_lt(b, c)
}
// TRUSTED std: `impl Ord for usize` is the order of the natural numbers.
#[verifier::external_body]
pub proof fn axiom_ord_usize()
    ensures
        forall|a: usize, b: usize| #[trigger] ord_lt::<usize>(a, b) == (a < b),
        ord_lawful::<usize>(),
{}
// TRUSTED std: `impl<A: Ord> Ord for &A`: "fn cmp(&self, other: &Self) -> Ordering { Ord::cmp(*self, *other) }"
// (core::cmp, the impls for references "forward to the referent").
#[verifier::external_body]
pub proof fn axiom_ord_ref<T>()
    ensures
        forall|a: &T, b: &T| #[trigger] ord_lt::<&T>(a, b) == ord_lt::<T>(*a, *b),
        ord_lawful::<T>() ==> ord_lawful::<&T>(),
{}

// `key_as::<K, C>(k)`: the sort key `k` with its outer references stripped, read as a `C` (`key_as::<&&V, V>(k) == **k`).
// The key closures of /repo return `&V` / `&usize` / `usize`; a contract that says WHICH key each element gets
// states it about `key_as(key)` at the canonical type, so that it stays well-typed (and fails, instead of not
// compiling) when an edit makes the closure return another component of another type.
// DEFINITIONAL: the two axioms define the function by recursion on the number of leading `&` (any function
// that strips references satisfies them); they say nothing about std or /repo.
pub uninterp spec fn key_as<K, C>(k: K) -> C;
#[verifier::external_body]
pub proof fn axiom_key_as_same<C>()
    ensures forall|k: C| #[trigger] key_as::<C, C>(k) == k,
{}
#[verifier::external_body]
pub proof fn axiom_key_as_ref<T, C>()
    ensures forall|k: &T| #[trigger] key_as::<&T, C>(k) == key_as::<T, C>(*k),
{}

// ---------------------------------------------------------------------------------------------
// sorting: a sort moves the elements by a permutation `p` (`after[k] == before[p[k]]`)
// ---------------------------------------------------------------------------------------------
// `p` is a permutation of `0..n`
pub open spec fn is_perm(p: Seq<int>, n: int) -> bool {
    &&& p.len() == n
    &&& forall|k: int| 0 <= k < n ==> 0 <= #[trigger] p[k] < n
    &&& forall|a: int, b: int| 0 <= a < n && 0 <= b < n && a != b ==> #[trigger] p[a] != #[trigger] p[b]
}
pub open spec fn moved_by<T>(before: Seq<T>, after: Seq<T>, p: Seq<int>) -> bool {
    &&& after.len() == before.len()
    &&& forall|k: int| 0 <= k < after.len() ==> #[trigger] after[k] == before[p[k]]
}
// the key of the element that ends at position `a`
pub open spec fn key_at<K>(keys: Seq<K>, p: Seq<int>, a: int) -> K { keys[p[a]] }
// ascending: no later element has a smaller key than an earlier one
pub open spec fn sorted_by<K>(keys: Seq<K>, p: Seq<int>) -> bool {
    forall|a: int, b: int| 0 <= a < b < p.len() ==> !ord_lt(#[trigger] key_at(keys, p, b), #[trigger] key_at(keys, p, a))
}
// stable: of two elements with equal keys (given `sorted_by`: the earlier one's key is not smaller) the one that
// was first in the input is first in the output
pub open spec fn stable_by<K>(keys: Seq<K>, p: Seq<int>) -> bool {
    forall|a: int, b: int| 0 <= a < b < p.len() && !ord_lt(#[trigger] key_at(keys, p, a), #[trigger] key_at(keys, p, b)) ==> p[a] < p[b]
}

// Rule PL_SORT_BY_KEY hands the sort the vector of keys that the REAL key closure computes for each element
// (`keys[i]` is the key of `v[i]`), so the contracts are over plain sequences with an explicit key sequence.
//
// TRUSTED std, `slice::sort_by_key`: "Sorts the slice in ascending order with a key extraction function,
// preserving initial order of equal elements. This sort is stable (i.e., does not reorder equal elements)";
// "May panic if the implementation of Ord for K does not implement a total order" (hence `ord_lawful`).
// Result: a permutation of the input (a sort only moves elements), ascending by key, equal keys keep their
// relative order. The returned ghost value is that permutation.
#[verifier::external_body]
pub fn stable_sort_by_keys<T, K: Ord>(v: &mut Vec<T>, keys: Vec<K>) -> (p: Ghost<Seq<int>>)
    requires
        keys@.len() == old(v)@.len(),
        ord_lawful::<K>(),
    ensures
        is_perm(p@, old(v)@.len() as int),
        moved_by(old(v)@, final(v)@, p@),
        sorted_by(keys@, p@),
        stable_by(keys@, p@),
{
    let items = std::mem::take(v);
    let mut z: Vec<(K, T)> = keys.into_iter().zip(items).collect();
    z.sort_by(|a, b| a.0.cmp(&b.0));
    *v = z.into_iter().map(|kt| kt.1).collect();
    Ghost::assume_new()
}
// TRUSTED std, `slice::sort_unstable_by_key`: "Sorts the slice in ascending order with a key extraction
// function, without preserving the initial order of equal elements. This sort is unstable (i.e., may reorder
// equal elements)". DELIBERATELY WEAKER: a permutation, ascending by key - nothing about ties.
#[verifier::external_body]
pub fn unstable_sort_by_keys<T, K: Ord>(v: &mut Vec<T>, keys: Vec<K>) -> (p: Ghost<Seq<int>>)
    requires
        keys@.len() == old(v)@.len(),
        ord_lawful::<K>(),
    ensures
        is_perm(p@, old(v)@.len() as int),
        moved_by(old(v)@, final(v)@, p@),
        sorted_by(keys@, p@),
{
    let items = std::mem::take(v);
    let mut z: Vec<(K, T)> = keys.into_iter().zip(items).collect();
    z.sort_unstable_by(|a, b| a.0.cmp(&b.0));
    *v = z.into_iter().map(|kt| kt.1).collect();
    Ghost::assume_new()
}

// ---------------------------------------------------------------------------------------------
// the fn-pointer field `f: fn(&R, &S) -> R` of `RewritePlan`
// ---------------------------------------------------------------------------------------------
// As R6F / `RecordFn` of prelude/am.rs: the field type is mapped to this opaque type. TRUSTED (A-PURE): calling
// the pointer is a deterministic function `plan_fn_apply(f, x, s)` of its arguments, defined (no panic) where
// `plan_fn_pre(f, x, s)` holds. Nothing else is assumed about an arbitrary pointer.
#[verifier::external_body]
#[verifier::reject_recursive_types(R)]
#[verifier::reject_recursive_types(S)]
pub struct PlanFn<R, S> { f: fn(&R, &S) -> R }
pub uninterp spec fn plan_fn_pre<R, S>(f: PlanFn<R, S>, x: R, s: S) -> bool;
pub uninterp spec fn plan_fn_apply<R, S>(f: PlanFn<R, S>, x: R, s: S) -> R;
impl<R, S> PlanFn<R, S> {
    #[verifier::external_body]
    pub fn call(&self, x: &R, s: &S) -> (r: R)
        requires plan_fn_pre(*self, *x, *s)
        ensures r == plan_fn_apply(*self, *x, *s)
    { (self.f)(x, s) }
}
// Rule PL_FNPTR_CLOSURE: a closure written in place as the value of the fn-pointer field `f`. TRUSTED (Rust
// reference, closure types: "Non-capturing closures ... can be coerced to function pointers (e.g., fn()) with
// the matching signature"): the pointer behaves as the closure, i.e. where the closure's precondition holds
// the call is defined and its result satisfies the closure's (verified) postcondition. The state type is the
// one of the only plan /repo builds this way (`DenseNatMap<R, R>`): the bound gives the closure its
// parameter types, as the field type does in /repo.
#[verifier::external_body]
fn fnptr_f_from_closure<R, F: Fn(&R, &DenseNatMap<R, R>) -> R>(c: F) -> (r: PlanFn<R, DenseNatMap<R, R>>)
    ensures
        forall|x: R, s: DenseNatMap<R, R>| c.requires((&x, &s)) ==> #[trigger] plan_fn_pre(r, x, s),
        forall|x: R, s: DenseNatMap<R, R>| c.requires((&x, &s)) ==> c.ensures((&x, &s), #[trigger] plan_fn_apply(r, x, s)),
{ unimplemented!() }

// ---------------------------------------------------------------------------------------------
// `Rewrite<R>` (callee of `reindex`): the vocabulary of prelude/rewrite.rs, over the REAL `RewritePlan` struct
// ---------------------------------------------------------------------------------------------
// `rewritten(plan, x)` is the value `x.rewrite(plan)` returns (same declaration as in prelude/rewrite.rs, which
// cannot be included here because it declares an opaque `RewritePlan`). TRUSTED: the trait's clause is the
// definition of `rewritten` (A-PURE: `rewrite` is a function of the plan and the value).
uninterp spec fn rewritten<R, S, T>(plan: RewritePlan<R, S>, x: T) -> T;
trait Rewrite<R>: Sized {
    fn rewrite<S>(&self, plan: &RewritePlan<R, S>) -> (r: Self)
        ensures r == rewritten(*plan, *self);
}

// ---------------------------------------------------------------------------------------------
// the collection type `C` of `reindex`: `C: Index<usize>, C: FromIterator<C::Output>, C::Output: Sized`
// ---------------------------------------------------------------------------------------------
// TRUSTED (explicit assumption on `C`, listed in notes/units/PLAN.md): `C` is a sequence-like collection - it
// has an element sequence `elems()`, `c[i]` is the i-th element (panics beyond the end), and `from_iter`
// builds the collection whose i-th element is the i-th item. True of `Vec`, `VecDeque`, `DenseNatMap<usize, _>`
// (std: `Vec: FromIterator` / `Index<usize>`; VecDeque: "Returns a front-to-back iterator" / index from the front).
// Rust has no law that ties `Index` to `FromIterator`; for a `C` without it `reindex` means nothing.
// Rule PL_INDEX_PARAM turns `indexed[E]` into `(*indexed.index(E))` (std, trait Index: "container[index] is
// actually syntactic sugar for *container.index(index)"); `collect::<C>()` is `C::from_iter` of the items.
pub trait IndexedCollection: Sized {
    type Output;
    spec fn elems(&self) -> Seq<Self::Output>;
    fn index(&self, i: usize) -> (r: &Self::Output)
        requires i < self.elems().len()
        ensures *r == self.elems()[i as int];
    fn from_iter(items: Vec<Self::Output>) -> (r: Self)
        ensures r.elems() == items@;
}
