// ---- prelude/lin.rs: trusted std specifications used by the LIN / SC units (DESIGN.md 3.4) ----
// Part 1 is TRUSTED (external_body / assume_specification; each item transcribes std documentation).
// Part 2 is plain spec vocabulary shared by the two units (definitions and proved lemmas, nothing assumed).

// ===== Part 1: trusted =====

// `VecDeque::is_empty`: "Returns `true` if the deque is empty."
pub assume_specification<T, A: std::alloc::Allocator>[VecDeque::<T, A>::is_empty](q: &VecDeque<T, A>) -> (r: bool)
    ensures r == (q@.len() == 0);

// `VecDeque::front`: "Provides a reference to the front element, or `None` if the deque is empty."
// (same transcription as prelude/net.rs, which the LIN / SC units do not include)
pub assume_specification<T, A: std::alloc::Allocator>[VecDeque::<T, A>::front](q: &VecDeque<T, A>) -> (r: Option<&T>)
    ensures
        r == (if q@.len() > 0 { Some(&q@[0]) } else { None::<&T> });

// `VecDeque::back`: "Provides a reference to the back element, or `None` if the deque is empty."
pub assume_specification<T, A: std::alloc::Allocator>[VecDeque::<T, A>::back](q: &VecDeque<T, A>) -> (r: Option<&T>)
    ensures
        r == (if q@.len() > 0 { Some(&q@[q@.len() - 1]) } else { None::<&T> });

// `impl IntoIterator for &BTreeMap<K, V, A>` (what `for (k, v) in &map` calls). std::iter module documentation:
// "If a collection type `C` provides `iter()`, it usually also implements `IntoIterator` for `&C`, with an
// implementation that just calls `iter()`"; for `&BTreeMap` the implementation is `fn into_iter(self) { self.iter() }`
// and the impl's Item / IntoIter types are those of `iter()`. Specified as: whatever vstd says about `BTreeMap::iter`.
pub assume_specification<'a, K, V, A: std::alloc::Allocator + Clone>[<&'a BTreeMap<K, V, A> as IntoIterator>::into_iter](m: &'a BTreeMap<K, V, A>) -> (r: btree_map::Iter<'a, K, V>)
    ensures call_ensures(BTreeMap::<K, V, A>::iter, (m,), r);

// `BTreeMap::iter`: "Gets an iterator over the entries of the map, sorted by key." / `BTreeMap::keys`:
// "Gets an iterator over the keys of the map, in sorted order." Every key exactly once; the order itself
// (ascending) is not exposed because no contract depends on it.
#[verifier::external_body]
pub fn btree_keys_vec<K: Copy + Ord, V>(m: &BTreeMap<K, V>) -> (r: Vec<K>)
    ensures
        r@.no_duplicates(),
        forall|k: K| #[trigger] r@.contains(k) <==> m@.contains_key(k),
{
    m.keys().copied().collect()
}

// `Iterator::enumerate`: "Creates an iterator which gives the current iteration count as well as the next
// value"; `VecDeque::into_iter` is front-to-back and `collect` into a `VecDeque` keeps the order
// (`FromIterator` pushes to the back).
#[verifier::external_body]
pub fn deque_enumerate<E>(q: VecDeque<E>) -> (r: VecDeque<(usize, E)>)
    ensures
        r@.len() == q@.len(),
        forall|i: int| 0 <= i < q@.len() ==> #[trigger] r@[i] == (i as usize, q@[i]),
{
    q.into_iter().enumerate().collect()
}

// Error texts (`format!(..)`, `"..".to_string()` inside `Err(..)`) are not part of any property: rule
// L_ERRSTR replaces them by this function, which returns an unspecified String (no postcondition).
#[verifier::external_body]
pub fn any_string() -> String {
    String::new()
}

// ===== Part 2: shared spec vocabulary (nothing trusted below this line) =====

// A-CLONE as an explicit precondition (not an axiom): `clone` returns an equal value.
pub open spec fn clone_eq<X: Clone>() -> bool {
    &&& forall|a: X, b: X| #[trigger] call_ensures(X::clone, (&a,), b) ==> a == b
    &&& forall|a: X, b: X| #[trigger] cloned::<X>(a, b) ==> a == b
}

// A-EQ for the thread-id type: `==` is equality of values (what `#[derive(PartialEq)]` gives).
pub open spec fn eq_is_eq<X: PartialEq>() -> bool {
    &&& X::obeys_eq_spec()
    &&& forall|a: X, b: X| #[trigger] a.eq_spec(&b) == (a == b)
}

// Model of trait `stateright::semantics::SequentialSpec` (src/semantics.rs), as DESIGN.md section 4
// does for Model/Actor: the reference object is a deterministic state machine `spec_invoke`; the exec
// methods are tied to it by `ensures`. The contract of `is_valid_step` is the documented default
// (`&self.invoke(op) == ret`); unit SEQ proves both contracts for Register and Vec.
pub trait SequentialSpec: Sized {
    type Op;
    type Ret: PartialEq;
    spec fn spec_invoke(self, op: Self::Op) -> (Self, Self::Ret);
    fn invoke(&mut self, op: &Self::Op) -> (r: Self::Ret)
        ensures (*final(self), r) == old(self).spec_invoke(*op);
    fn is_valid_step(&mut self, op: &Self::Op, ret: &Self::Ret) -> (r: bool)
        ensures
            r == (old(self).spec_invoke(*op).1 == *ret),
            r ==> *final(self) == old(self).spec_invoke(*op).0;
}

// `h` is legal for `obj`: replaying it on the sequential specification yields exactly the recorded returns.
pub open spec fn legal<R: SequentialSpec>(obj: R, h: Seq<(R::Op, R::Ret)>) -> bool
    decreases h.len()
{
    h.len() == 0 || (obj.spec_invoke(h[0].0).1 == h[0].1 && legal(obj.spec_invoke(h[0].0).0, h.drop_first()))
}

// the per-thread sequences of a history map, as a mathematical map of sequences
pub open spec fn hv<K, E>(m: BTreeMap<K, VecDeque<E>>) -> Map<K, Seq<E>> {
    Map::new(m@.dom(), |k: K| m@[k]@)
}

// number of operations in a map of sequences (vstd maps have finite domains)
pub open spec fn total<K, E>(m: Map<K, Seq<E>>) -> nat
    decreases m.dom().len()
{
    if m.dom().len() == 0 { 0 } else {
        let k = m.dom().choose();
        m[k].len() + total(m.remove(k))
    }
}

pub proof fn lemma_total_remove<K, E>(m: Map<K, Seq<E>>, k: K)
    requires m.contains_key(k)
    ensures total(m) == m[k].len() + total(m.remove(k))
    decreases m.dom().len()
{
    let c = m.dom().choose();
    if m.dom().len() == 0 {
        assert(false);
    } else if c != k {
        lemma_total_remove(m.remove(c), k);
        lemma_total_remove(m.remove(k), c);
        assert(m.remove(c).remove(k) =~= m.remove(k).remove(c));
    }
}

pub proof fn lemma_total_update<K, E>(m: Map<K, Seq<E>>, k: K, s: Seq<E>)
    requires m.contains_key(k)
    ensures total(m.insert(k, s)) + m[k].len() == total(m) + s.len()
{
    lemma_total_remove(m, k);
    lemma_total_remove(m.insert(k, s), k);
    assert(m.insert(k, s).remove(k) =~= m.remove(k));
}

pub broadcast proof fn lemma_skip_zero<A>(s: Seq<A>)
    ensures #[trigger] s.skip(0) == s
{
    assert(s.skip(0) =~= s);
}

// ===== Part 3: what a sequentially consistent / linearizable order is (C14 / C08 vocabulary, shared so that
// the inclusion lemma of C14 can speak about both; definitions only, nothing trusted) =====

// ---- C14 vocabulary: what a sequentially consistent order is ----------------------------------------
// `tail` is an interleaving of the per-thread sequences: for each thread, its completed operations
// `rem[t]` in program order, optionally followed by its in-flight operation `inf[t]` (whose return
// value is whatever the order assigns). Defined by the head of the order: the first element is the
// next operation of some thread `t`, and the rest is an interleaving of what is left.
pub open spec fn sc_head_completed<T, Op, Ret>(t: T, e: (Op, Ret), rem: Map<T, Seq<(Op, Ret)>>) -> bool {
    rem.contains_key(t) && rem[t].len() > 0 && rem[t][0] == e
}
pub open spec fn sc_head_in_flight<T, Op, Ret>(t: T, e: (Op, Ret), rem: Map<T, Seq<(Op, Ret)>>, inf: Map<T, Op>) -> bool {
    (!rem.contains_key(t) || rem[t].len() == 0) && inf.contains_key(t) && inf[t] == e.0
}
pub open spec fn sc_order<T, Op, Ret>(tail: Seq<(Op, Ret)>, rem: Map<T, Seq<(Op, Ret)>>, inf: Map<T, Op>) -> bool
    decreases tail.len()
{
    if tail.len() == 0 {
        forall|t: T| rem.contains_key(t) ==> #[trigger] rem[t].len() == 0
    } else {
        exists|t: T| #![trigger sc_head_completed(t, tail[0], rem)] #![trigger sc_head_in_flight(t, tail[0], rem, inf)]
            (sc_head_completed(t, tail[0], rem) && sc_order(tail.drop_first(), rem.insert(t, rem[t].drop_first()), inf))
            || (sc_head_in_flight(t, tail[0], rem, inf) && sc_order(tail.drop_first(), rem, inf.remove(t)))
    }
}


// some legal SC order of (rem, inf) from `obj` starts with the next operation of thread `t`
pub open spec fn sc_via<T, R: SequentialSpec>(t: T, tail: Seq<(R::Op, R::Ret)>, obj: R, rem: Map<T, Seq<(R::Op, R::Ret)>>, inf: Map<T, R::Op>) -> bool {
    tail.len() > 0 && legal(obj, tail) && (
        (sc_head_completed(t, tail[0], rem) && sc_order(tail.drop_first(), rem.insert(t, rem[t].drop_first()), inf))
        || (sc_head_in_flight(t, tail[0], rem, inf) && sc_order(tail.drop_first(), rem, inf.remove(t))))
}


// Real-time precedence, as the tester can see it: an operation that recorded `cs` at its invocation may
// be placed only when no peer operation with index <= cs[peer] is still waiting in `rem` (all of them
// completed before this operation was invoked, so all of them must come earlier in the total order).
pub open spec fn rt_ok<T, E>(cs: Map<T, usize>, rem: Map<T, Seq<(usize, E)>>) -> bool {
    forall|p: T, j: int| #![trigger rem[p][j]]
        cs.contains_key(p) && rem.contains_key(p) && 0 <= j < rem[p].len() ==> rem[p][j].0 > cs[p]
}
// the remaining operations of every thread carry strictly increasing history indices
pub open spec fn idx_sorted<T, E>(rem: Map<T, Seq<(usize, E)>>) -> bool {
    forall|p: T, i: int, j: int| #![trigger rem[p][i], rem[p][j]]
        rem.contains_key(p) && 0 <= i < j < rem[p].len() ==> rem[p][i].0 < rem[p][j].0
}
// what the tester tests per peer: the NEXT remaining operation of the peer (if any) is later than cs[peer]
pub open spec fn peer_ok<T, E>(p: T, cs: Map<T, usize>, rem: Map<T, Seq<(usize, E)>>) -> bool {
    cs.contains_key(p) && rem.contains_key(p) && rem[p].len() > 0 ==> rem[p][0].0 > cs[p]
}
pub open spec fn lin_head_completed<T, Op, Ret>(t: T, e: (Op, Ret), rem: Map<T, Seq<(usize, (BTreeMap<T, usize>, Op, Ret))>>) -> bool {
    rem.contains_key(t) && rem[t].len() > 0 && (rem[t][0].1.1, rem[t][0].1.2) == e
    && rt_ok(rem[t][0].1.0@, rem.insert(t, rem[t].drop_first()))
}
pub open spec fn lin_head_in_flight<T, Op, Ret>(t: T, e: (Op, Ret), rem: Map<T, Seq<(usize, (BTreeMap<T, usize>, Op, Ret))>>, inf: Map<T, (BTreeMap<T, usize>, Op)>) -> bool {
    (!rem.contains_key(t) || rem[t].len() == 0) && inf.contains_key(t) && inf[t].1 == e.0 && rt_ok(inf[t].0@, rem)
}
// `tail` is a linearization: an interleaving of the per-thread sequences (completed operations in
// program order, optionally followed by the thread's in-flight operation) in which every operation
// is placed after all peer operations that completed before its invocation.
pub open spec fn lin_order<T, Op, Ret>(tail: Seq<(Op, Ret)>, rem: Map<T, Seq<(usize, (BTreeMap<T, usize>, Op, Ret))>>, inf: Map<T, (BTreeMap<T, usize>, Op)>) -> bool
    decreases tail.len()
{
    if tail.len() == 0 {
        forall|t: T| rem.contains_key(t) ==> #[trigger] rem[t].len() == 0
    } else {
        exists|t: T| #![trigger lin_head_completed(t, tail[0], rem)] #![trigger lin_head_in_flight(t, tail[0], rem, inf)]
            (lin_head_completed(t, tail[0], rem) && lin_order(tail.drop_first(), rem.insert(t, rem[t].drop_first()), inf))
            || (lin_head_in_flight(t, tail[0], rem, inf) && lin_order(tail.drop_first(), rem, inf.remove(t)))
    }
}

// some legal linearization of (rem, inf) from `obj` starts with the next operation of thread `t`
pub open spec fn lin_via<T, R: SequentialSpec>(t: T, tail: Seq<(R::Op, R::Ret)>, obj: R, rem: Map<T, Seq<(usize, (BTreeMap<T, usize>, R::Op, R::Ret))>>, inf: Map<T, (BTreeMap<T, usize>, R::Op)>) -> bool {
    tail.len() > 0 && legal(obj, tail) && (
        (lin_head_completed(t, tail[0], rem) && lin_order(tail.drop_first(), rem.insert(t, rem[t].drop_first()), inf))
        || (lin_head_in_flight(t, tail[0], rem, inf) && lin_order(tail.drop_first(), rem, inf.remove(t))))
}

// every completed operation paired with its position in its thread's history (what `serialized_history`
// hands to `serialize`; the positions are what the recorded last-completed maps refer to)
pub open spec fn indexed<T, E>(hist: Map<T, Seq<E>>) -> Map<T, Seq<(usize, E)>> {
    Map::new(hist.dom(), |t: T| Seq::new(hist[t].len(), |j: int| (j as usize, hist[t][j])))
}


// ===== Part 4: the admissible orders in the WORDING of C08 / C14 (definitions only) =====
// A total order `tail` comes with an assignment `who` of every position to a thread. Position i is then
// the occurrence number `cnt(who, who[i], i)` (its rank) of that thread: the pair (thread, rank) tags the
// element, so equal (op, ret) values of different occurrences are distinguishable, no tagged occurrence
// appears twice, and the occurrences of one thread appear with ranks 0, 1, 2, .. in this order, i.e. in
// program order. `tail` is a permutation of "all completed operations plus the in-flight operations of
// a subset S of the threads" that respects program order iff
//   * every position holds the operation its tag names: the rank-th completed operation of the thread, or,
//     when the rank equals the number of completed operations, the thread's in-flight operation (which is
//     thereby after all completed ones of the thread; S = the threads whose in-flight operation occurs), and
//   * every completed operation occurs (each thread occurs at least as often as it has completed operations).
pub open spec fn cnt<T>(who: Seq<T>, t: T, n: int) -> nat
    decreases n
{
    if n <= 0 { 0 } else { cnt(who, t, n - 1) + if who[n - 1] == t { 1nat } else { 0nat } }
}
pub open spec fn len_of<T, E>(rem: Map<T, Seq<E>>, t: T) -> nat {
    if rem.contains_key(t) { rem[t].len() } else { 0 }
}
pub open spec fn sc_slot_ok<T, Op, Ret>(tail: Seq<(Op, Ret)>, who: Seq<T>, rem: Map<T, Seq<(Op, Ret)>>, inf: Map<T, Op>, i: int) -> bool {
    let t = who[i];
    let k = cnt(who, t, i);
    (k < len_of(rem, t) && tail[i] == rem[t][k as int]) || (k == len_of(rem, t) && inf.contains_key(t) && tail[i].0 == inf[t])
}
pub open spec fn sc_perm<T, Op, Ret>(tail: Seq<(Op, Ret)>, who: Seq<T>, rem: Map<T, Seq<(Op, Ret)>>, inf: Map<T, Op>) -> bool {
    &&& who.len() == tail.len()
    &&& forall|i: int| 0 <= i < tail.len() ==> #[trigger] sc_slot_ok(tail, who, rem, inf, i)
    &&& forall|t: T| rem.contains_key(t) ==> #[trigger] cnt(who, t, who.len() as int) >= rem[t].len()
}

pub proof fn lemma_cnt_drop_first<T>(who: Seq<T>, t: T, n: int)
    requires 0 <= n < who.len()
    ensures cnt(who.drop_first(), t, n) + (if who[0] == t { 1nat } else { 0nat }) == cnt(who, t, n + 1)
    decreases n
{
    reveal_with_fuel(cnt, 2);
    if n > 0 {
        lemma_cnt_drop_first(who, t, n - 1);
        assert(who.drop_first()[n - 1] == who[n]);
    }
}

// C08: the same with real-time precedence. `cs` is the last-completed map recorded at the invocation of
// the operation `o` tagged (t, k) that stands at position i: every OTHER operation (p, j) whose history
// index is <= cs[p] - i.e. every operation that had completed when `o` was invoked - stands before
// position i (its rank j is below the number of occurrences of p before i).
pub open spec fn rt_placed<T, Op, Ret>(who: Seq<T>, rem: Map<T, Seq<(usize, (BTreeMap<T, usize>, Op, Ret))>>, cs: Map<T, usize>, t: T, k: int, i: int) -> bool {
    forall|p: T, j: int| #![trigger rem[p][j]]
        cs.contains_key(p) && rem.contains_key(p) && 0 <= j < rem[p].len() && rem[p][j].0 <= cs[p] && !(p == t && j == k)
        ==> j < cnt(who, p, i)
}
pub open spec fn lin_slot_ok<T, Op, Ret>(tail: Seq<(Op, Ret)>, who: Seq<T>, rem: Map<T, Seq<(usize, (BTreeMap<T, usize>, Op, Ret))>>, inf: Map<T, (BTreeMap<T, usize>, Op)>, i: int) -> bool {
    let t = who[i];
    let k = cnt(who, t, i);
    (k < len_of(rem, t) && tail[i] == (rem[t][k as int].1.1, rem[t][k as int].1.2) && rt_placed(who, rem, rem[t][k as int].1.0@, t, k as int, i))
    || (k == len_of(rem, t) && inf.contains_key(t) && tail[i].0 == inf[t].1 && rt_placed(who, rem, inf[t].0@, t, k as int, i))
}
pub open spec fn lin_perm<T, Op, Ret>(tail: Seq<(Op, Ret)>, who: Seq<T>, rem: Map<T, Seq<(usize, (BTreeMap<T, usize>, Op, Ret))>>, inf: Map<T, (BTreeMap<T, usize>, Op)>) -> bool {
    &&& who.len() == tail.len()
    &&& forall|i: int| 0 <= i < tail.len() ==> #[trigger] lin_slot_ok(tail, who, rem, inf, i)
    &&& forall|t: T| rem.contains_key(t) ==> #[trigger] cnt(who, t, who.len() as int) >= rem[t].len()
}

// ===== Part 5: the event log (ghost) and the abstract transition systems of the two testers =====
// An event log is the sequence of calls made on a tester. `sc_next` / `lin_post` are the `on_invoke` /
// `on_return` contracts of the two units read as a transition function / relation on the abstract state
// (validity flag, per-thread completed operations, per-thread in-flight operation); the units prove
// `event-step` postconditions that tie the real functions to them.
pub enum Ev<T, Op, Ret> {
    Invoke(T, Op),
    Return(T, Ret),
}
pub open spec fn ev_thread<T, Op, Ret>(e: Ev<T, Op, Ret>) -> T {
    match e { Ev::Invoke(t, _) => t, Ev::Return(t, _) => t }
}
#[verifier::reject_recursive_types(T)]
pub ghost struct ScState<T, Op, Ret> {
    pub valid: bool,
    pub hist: Map<T, Seq<(Op, Ret)>>,
    pub inf: Map<T, Op>,
}
#[verifier::reject_recursive_types(T)]
pub ghost struct LinState<T, Op, Ret> {
    pub valid: bool,
    pub hist: Map<T, Seq<(BTreeMap<T, usize>, Op, Ret)>>,
    pub inf: Map<T, (BTreeMap<T, usize>, Op)>,
}
pub open spec fn with_entry<T, E>(hist: Map<T, Seq<E>>, t: T) -> Map<T, Seq<E>> {
    if hist.contains_key(t) { hist } else { hist.insert(t, Seq::empty()) }
}
// for every OTHER thread that has completed at least one operation, the index of its last completed operation
pub open spec fn last_completed_of<T, E>(hist: Map<T, Seq<E>>, me: T) -> Map<T, usize> {
    Map::new(hist.dom().filter(|t: T| t != me && hist[t].len() > 0), |t: T| (hist[t].len() - 1) as usize)
}
pub open spec fn sc_fresh<T, Op, Ret>() -> ScState<T, Op, Ret> {
    ScState { valid: true, hist: Map::empty(), inf: Map::empty() }
}
pub open spec fn sc_next<T, Op, Ret>(s: ScState<T, Op, Ret>, e: Ev<T, Op, Ret>) -> ScState<T, Op, Ret> {
    if !s.valid { s } else {
        match e {
            Ev::Invoke(t, op) =>
                if s.inf.contains_key(t) { ScState { valid: false, hist: s.hist, inf: s.inf } }
                else { ScState { valid: true, hist: with_entry(s.hist, t), inf: s.inf.insert(t, op) } },
            Ev::Return(t, ret) =>
                if !s.inf.contains_key(t) { ScState { valid: false, hist: with_entry(s.hist, t), inf: s.inf } }
                else { ScState { valid: true, hist: s.hist.insert(t, with_entry(s.hist, t)[t].push((s.inf[t], ret))), inf: s.inf.remove(t) } },
        }
    }
}
// the abstract state of an SC tester created by `new` and fed the events of `log` in order
pub open spec fn sc_run<T, Op, Ret>(log: Seq<Ev<T, Op, Ret>>) -> ScState<T, Op, Ret>
    decreases log.len()
{
    if log.len() == 0 { sc_fresh() } else { sc_next(sc_run(log.drop_last()), log.last()) }
}
pub open spec fn lin_fresh<T, Op, Ret>(s: LinState<T, Op, Ret>) -> bool {
    s.valid && s.hist =~= Map::<T, Seq<(BTreeMap<T, usize>, Op, Ret)>>::empty() && s.inf =~= Map::<T, (BTreeMap<T, usize>, Op)>::empty()
}
// a relation, not a function: the recorded last-completed map is a fresh BTreeMap of which only the view is known
pub open spec fn lin_post<T, Op, Ret>(s: LinState<T, Op, Ret>, e: Ev<T, Op, Ret>, s1: LinState<T, Op, Ret>) -> bool {
    if !s.valid { s1 =~= s } else {
        match e {
            Ev::Invoke(t, op) =>
                if s.inf.contains_key(t) { !s1.valid && s1.hist =~= s.hist && s1.inf =~= s.inf }
                else {
                    &&& s1.valid
                    &&& s1.hist =~= with_entry(s.hist, t)
                    &&& s1.inf.dom() =~= s.inf.dom().insert(t)
                    &&& forall|u: T| u != t && s.inf.contains_key(u) ==> #[trigger] s1.inf[u] == s.inf[u]
                    &&& s1.inf[t].1 == op
                    &&& s1.inf[t].0@ =~= last_completed_of(s.hist, t)
                },
            Ev::Return(t, ret) =>
                if !s.inf.contains_key(t) { !s1.valid && s1.hist =~= with_entry(s.hist, t) && s1.inf =~= s.inf }
                else {
                    &&& s1.valid
                    &&& s1.inf =~= s.inf.remove(t)
                    &&& s1.hist =~= s.hist.insert(t, with_entry(s.hist, t)[t].push((s.inf[t].0, s.inf[t].1, ret)))
                },
        }
    }
}
// `s` is an abstract state a linearizability tester created by `new` can be in after the events of `log`
pub open spec fn lin_reach<T, Op, Ret>(log: Seq<Ev<T, Op, Ret>>, s: LinState<T, Op, Ret>) -> bool
    decreases log.len()
{
    if log.len() == 0 { lin_fresh(s) } else {
        exists|s0: LinState<T, Op, Ret>| lin_reach(log.drop_last(), s0) && #[trigger] lin_post(s0, log.last(), s)
    }
}

// ---- what the log itself says, thread by thread (independent of any tester) ----
// the operation thread t has in flight after `log`: its last event is an invocation
pub open spec fn pending<T, Op, Ret>(log: Seq<Ev<T, Op, Ret>>, t: T) -> Option<Op>
    decreases log.len()
{
    if log.len() == 0 { None } else {
        match log.last() {
            Ev::Invoke(u, op) => if u == t { Some(op) } else { pending(log.drop_last(), t) },
            Ev::Return(u, _) => if u == t { None } else { pending(log.drop_last(), t) },
        }
    }
}
// the completed operations of thread t in `log`, in program order: every return paired with the invocation it answers
pub open spec fn completed<T, Op, Ret>(log: Seq<Ev<T, Op, Ret>>, t: T) -> Seq<(Op, Ret)>
    decreases log.len()
{
    if log.len() == 0 { Seq::empty() } else {
        match log.last() {
            Ev::Return(u, ret) =>
                if u == t && pending(log.drop_last(), t) is Some { completed(log.drop_last(), t).push((pending(log.drop_last(), t).unwrap(), ret)) }
                else { completed(log.drop_last(), t) },
            Ev::Invoke(_, _) => completed(log.drop_last(), t),
        }
    }
}
// well-formed: never a second invocation while one is in flight, never a return without an invocation
pub open spec fn wf_log<T, Op, Ret>(log: Seq<Ev<T, Op, Ret>>) -> bool
    decreases log.len()
{
    log.len() == 0 || (wf_log(log.drop_last()) && match log.last() {
        Ev::Invoke(u, _) => pending(log.drop_last(), u) is None,
        Ev::Return(u, _) => pending(log.drop_last(), u) is Some,
    })
}
pub open spec fn threads<T, Op, Ret>(log: Seq<Ev<T, Op, Ret>>) -> Set<T>
    decreases log.len()
{
    if log.len() == 0 { Set::empty() } else { threads(log.drop_last()).insert(ev_thread(log.last())) }
}
// the per-thread projections of a log, as the abstract state of an SC tester
pub open spec fn log_state<T, Op, Ret>(log: Seq<Ev<T, Op, Ret>>) -> ScState<T, Op, Ret> {
    ScState {
        valid: true,
        hist: Map::new(threads(log), |t: T| completed(log, t)),
        inf: Map::new(threads(log).filter(|t: T| pending(log, t) is Some), |t: T| pending(log, t).unwrap()),
    }
}
// real time: at an invocation by thread `me` made after the events of `pre`, peer p has
// `completed(pre, p).len()` returned operations; the map the linearizability tester must record then
pub open spec fn lc_map<T, Op, Ret>(pre: Seq<Ev<T, Op, Ret>>, me: T) -> Map<T, usize> {
    Map::new(threads(pre).filter(|p: T| p != me && completed(pre, p).len() > 0), |p: T| (completed(pre, p).len() - 1) as usize)
}
// the map in force for thread t's in-flight operation, and the maps of its completed operations, by the log alone
pub open spec fn pending_lc<T, Op, Ret>(log: Seq<Ev<T, Op, Ret>>, t: T) -> Option<Map<T, usize>>
    decreases log.len()
{
    if log.len() == 0 { None } else {
        match log.last() {
            Ev::Invoke(u, _) => if u == t { Some(lc_map(log.drop_last(), t)) } else { pending_lc(log.drop_last(), t) },
            Ev::Return(u, _) => if u == t { None } else { pending_lc(log.drop_last(), t) },
        }
    }
}
pub open spec fn completed_lc<T, Op, Ret>(log: Seq<Ev<T, Op, Ret>>, t: T) -> Seq<Map<T, usize>>
    decreases log.len()
{
    if log.len() == 0 { Seq::empty() } else {
        match log.last() {
            Ev::Return(u, _) =>
                if u == t && pending_lc(log.drop_last(), t) is Some { completed_lc(log.drop_last(), t).push(pending_lc(log.drop_last(), t).unwrap()) }
                else { completed_lc(log.drop_last(), t) },
            Ev::Invoke(_, _) => completed_lc(log.drop_last(), t),
        }
    }
}

// ===== Part 6: event-log lemmas shared by the two units (proved, nothing trusted) =====
// forgetting the real-time bookkeeping: linearizability-tester state -> SC-tester state
pub open spec fn strip_rem<T, Op, Ret>(rem: Map<T, Seq<(usize, (BTreeMap<T, usize>, Op, Ret))>>) -> Map<T, Seq<(Op, Ret)>> {
    Map::new(rem.dom(), |t: T| Seq::new(rem[t].len(), |j: int| (rem[t][j].1.1, rem[t][j].1.2)))
}
pub open spec fn strip_hist<T, Op, Ret>(hist: Map<T, Seq<(BTreeMap<T, usize>, Op, Ret)>>) -> Map<T, Seq<(Op, Ret)>> {
    Map::new(hist.dom(), |t: T| Seq::new(hist[t].len(), |j: int| (hist[t][j].1, hist[t][j].2)))
}
pub open spec fn strip_inf<T, Op>(inf: Map<T, (BTreeMap<T, usize>, Op)>) -> Map<T, Op> {
    Map::new(inf.dom(), |t: T| inf[t].1)
}

pub open spec fn strip_state<T, Op, Ret>(s: LinState<T, Op, Ret>) -> ScState<T, Op, Ret> {
    ScState { valid: s.valid, hist: strip_hist(s.hist), inf: strip_inf(s.inf) }
}

// ---- C14 over event logs: the tester's state IS the log's per-thread projection -----------------------
proof fn lemma_pending_in_threads<T, Op, Ret>(log: Seq<Ev<T, Op, Ret>>, t: T)
    ensures
        pending(log, t) is Some ==> threads(log).contains(t),
        completed(log, t).len() > 0 ==> threads(log).contains(t),
    decreases log.len()
{
    if log.len() > 0 {
        lemma_pending_in_threads(log.drop_last(), t);
    }
}

// Folding the on_invoke / on_return contracts (`sc_next`, tied to the real functions by the `event-step`
// postconditions) over a log: the tester is valid exactly for well-formed logs, and then its history and
// in-flight maps are the log's per-thread projections (domain: the threads that occur in the log).
//@props C14
proof fn sc_run_is_log_projection<T, Op, Ret>(log: Seq<Ev<T, Op, Ret>>)
    ensures
        sc_run(log).valid == wf_log(log),
        wf_log(log) ==> sc_run(log) == log_state(log),
    decreases log.len()
{
    if log.len() == 0 {
        assert(log_state(log).hist =~= Map::<T, Seq<(Op, Ret)>>::empty());
        assert(log_state(log).inf =~= Map::<T, Op>::empty());
    } else {
        let pre = log.drop_last();
        let e = log.last();
        sc_run_is_log_projection(pre);
        if wf_log(pre) {
            let s0 = sc_run(pre);
            let t = ev_thread(e);
            lemma_pending_in_threads(pre, t);
            assert(s0.inf.contains_key(t) == (pending(pre, t) is Some));
            if wf_log(log) {
                let s1 = sc_next(s0, e);
                assert(completed(pre, t).len() == 0 ==> completed(pre, t) =~= Seq::<(Op, Ret)>::empty());
                assert(s1.hist =~~= log_state(log).hist);
                assert(s1.inf =~= log_state(log).inf);
                assert(s1 =~= log_state(log));
            }
        }
    }
}


// (3) the glue: a linearizability tester and an SC tester fed the SAME log are always in related states -
// forgetting the bookkeeping of any state the linearizability tester can reach on `log` gives exactly the
// state of the SC tester on `log` (well-formed or not).
//@props C14
proof fn lin_reach_strips_to_sc_run<T, Op, Ret>(log: Seq<Ev<T, Op, Ret>>, s: LinState<T, Op, Ret>)
    requires lin_reach(log, s)
    ensures strip_state(s) == sc_run(log)
    decreases log.len()
{
    if log.len() == 0 {
        assert(lin_fresh(s));
        assert(s.hist =~= Map::<T, Seq<(BTreeMap<T, usize>, Op, Ret)>>::empty());
        assert(strip_state(s).hist =~~= sc_fresh::<T, Op, Ret>().hist);
        assert(strip_state(s).inf =~~= sc_fresh::<T, Op, Ret>().inf);
        assert(strip_state(s) =~~= sc_fresh());
    } else {
        let pre = log.drop_last();
        let e = log.last();
        assert(exists|s0: LinState<T, Op, Ret>| lin_reach(log.drop_last(), s0) && #[trigger] lin_post(s0, log.last(), s));
        let s0 = choose|s0: LinState<T, Op, Ret>| lin_reach(log.drop_last(), s0) && #[trigger] lin_post(s0, log.last(), s);
        lin_reach_strips_to_sc_run(pre, s0);
        let a0 = strip_state(s0);
        let a1 = sc_next(a0, e);
        if s0.valid {
            let t = ev_thread(e);
            assert(a0.inf.contains_key(t) == s0.inf.contains_key(t));
            assert(strip_hist(with_entry(s0.hist, t)) =~~= with_entry(a0.hist, t));
            match e {
                Ev::Invoke(_, op) => {
                    if !s0.inf.contains_key(t) {
                        assert(strip_state(s).inf =~= a1.inf);
                    }
                }
                Ev::Return(_, ret) => {
                    if s0.inf.contains_key(t) {
                        assert(strip_state(s).hist =~~= a1.hist);
                        assert(strip_state(s).inf =~= a1.inf);
                    }
                }
            }
        }
        assert(strip_state(s) =~~= a1);
    }
}
