// ---- prelude/lin.rs: trusted std specifications used by the LIN / SC units (DESIGN.md 3.4) ----
// Part 1 is TRUSTED (external_body / assume_specification; each item transcribes std documentation).
// Part 2 is plain spec vocabulary shared by the two units (definitions and proved lemmas, nothing assumed).

// ===== Part 1: trusted =====

// `VecDeque::is_empty`: "Returns `true` if the deque is empty."
pub assume_specification<T, A: std::alloc::Allocator>[VecDeque::<T, A>::is_empty](q: &VecDeque<T, A>) -> (r: bool)
    ensures r == (q@.len() == 0);

// `BTreeMap::iter`: "Gets an iterator over the entries of the map, sorted by key." / `BTreeMap::keys`:
// "Gets an iterator over the keys of the map, in sorted order." Every key exactly once; the order itself
// (ascending) is not exposed because no contract depends on it.
#[verifier::external_body]
pub fn btree_keys_vec<K: Copy + Ord, V>(m: &BTreeMap<K, V>) -> (r: Vec<K>)
    ensures
        r@.no_duplicates(),
        forall|k: K| #[trigger] r@.contains(k) <==> m@.contains_key(k),
{
    m.keys().copied().collect()
}

// `Iterator::enumerate`: "Creates an iterator which gives the current iteration count as well as the next
// value"; `VecDeque::into_iter` is front-to-back and `collect` into a `VecDeque` keeps the order
// (`FromIterator` pushes to the back).
#[verifier::external_body]
pub fn deque_enumerate<E>(q: VecDeque<E>) -> (r: VecDeque<(usize, E)>)
    ensures
        r@.len() == q@.len(),
        forall|i: int| 0 <= i < q@.len() ==> #[trigger] r@[i] == (i as usize, q@[i]),
{
    q.into_iter().enumerate().collect()
}

// Error texts (`format!(..)`, `"..".to_string()` inside `Err(..)`) are not part of any property: rule
// L_ERRSTR replaces them by this function, which returns an unspecified String (no postcondition).
#[verifier::external_body]
pub fn any_string() -> String {
    String::new()
}

// ===== Part 2: shared spec vocabulary (nothing trusted below this line) =====

// A-CLONE as an explicit precondition (not an axiom): `clone` returns an equal value.
pub open spec fn clone_eq<X: Clone>() -> bool {
    &&& forall|a: X, b: X| #[trigger] call_ensures(X::clone, (&a,), b) ==> a == b
    &&& forall|a: X, b: X| #[trigger] cloned::<X>(a, b) ==> a == b
}

// A-EQ for the thread-id type: `==` is equality of values (what `#[derive(PartialEq)]` gives).
pub open spec fn eq_is_eq<X: PartialEq>() -> bool {
    &&& X::obeys_eq_spec()
    &&& forall|a: X, b: X| #[trigger] a.eq_spec(&b) == (a == b)
}

// Model of trait `stateright::semantics::SequentialSpec` (src/semantics.rs), as DESIGN.md section 4
// does for Model/Actor: the reference object is a deterministic state machine `spec_invoke`; the exec
// methods are tied to it by `ensures`. The contract of `is_valid_step` is the documented default
// (`&self.invoke(op) == ret`); unit SEQ proves both contracts for Register and Vec.
pub trait SequentialSpec: Sized {
    type Op;
    type Ret: PartialEq;
    spec fn spec_invoke(self, op: Self::Op) -> (Self, Self::Ret);
    fn invoke(&mut self, op: &Self::Op) -> (r: Self::Ret)
        ensures (*final(self), r) == old(self).spec_invoke(*op);
    fn is_valid_step(&mut self, op: &Self::Op, ret: &Self::Ret) -> (r: bool)
        ensures
            r == (old(self).spec_invoke(*op).1 == *ret),
            r ==> *final(self) == old(self).spec_invoke(*op).0;
}

// `h` is legal for `obj`: replaying it on the sequential specification yields exactly the recorded returns.
pub open spec fn legal<R: SequentialSpec>(obj: R, h: Seq<(R::Op, R::Ret)>) -> bool
    decreases h.len()
{
    h.len() == 0 || (obj.spec_invoke(h[0].0).1 == h[0].1 && legal(obj.spec_invoke(h[0].0).0, h.drop_first()))
}

// the per-thread sequences of a history map, as a mathematical map of sequences
pub open spec fn hv<K, E>(m: BTreeMap<K, VecDeque<E>>) -> Map<K, Seq<E>> {
    Map::new(m@.dom(), |k: K| m@[k]@)
}

// number of operations in a map of sequences (vstd maps have finite domains)
pub open spec fn total<K, E>(m: Map<K, Seq<E>>) -> nat
    decreases m.dom().len()
{
    if m.dom().len() == 0 { 0 } else {
        let k = m.dom().choose();
        m[k].len() + total(m.remove(k))
    }
}

pub proof fn lemma_total_remove<K, E>(m: Map<K, Seq<E>>, k: K)
    requires m.contains_key(k)
    ensures total(m) == m[k].len() + total(m.remove(k))
    decreases m.dom().len()
{
    let c = m.dom().choose();
    if m.dom().len() == 0 {
        assert(false);
    } else if c != k {
        lemma_total_remove(m.remove(c), k);
        lemma_total_remove(m.remove(k), c);
        assert(m.remove(c).remove(k) =~= m.remove(k).remove(c));
    }
}

pub proof fn lemma_total_update<K, E>(m: Map<K, Seq<E>>, k: K, s: Seq<E>)
    requires m.contains_key(k)
    ensures total(m.insert(k, s)) + m[k].len() == total(m) + s.len()
{
    lemma_total_remove(m, k);
    lemma_total_remove(m.insert(k, s), k);
    assert(m.insert(k, s).remove(k) =~= m.remove(k));
}

pub broadcast proof fn lemma_skip_zero<A>(s: Seq<A>)
    ensures #[trigger] s.skip(0) == s
{
    assert(s.skip(0) =~= s);
}

// ===== Part 3: what a sequentially consistent / linearizable order is (C14 / C08 vocabulary, shared so that
// the inclusion lemma of C14 can speak about both; definitions only, nothing trusted) =====

// ---- C14 vocabulary: what a sequentially consistent order is ----------------------------------------
// `tail` is an interleaving of the per-thread sequences: for each thread, its completed operations
// `rem[t]` in program order, optionally followed by its in-flight operation `inf[t]` (whose return
// value is whatever the order assigns). Defined by the head of the order: the first element is the
// next operation of some thread `t`, and the rest is an interleaving of what is left.
pub open spec fn sc_head_completed<T, Op, Ret>(t: T, e: (Op, Ret), rem: Map<T, Seq<(Op, Ret)>>) -> bool {
    rem.contains_key(t) && rem[t].len() > 0 && rem[t][0] == e
}
pub open spec fn sc_head_in_flight<T, Op, Ret>(t: T, e: (Op, Ret), rem: Map<T, Seq<(Op, Ret)>>, inf: Map<T, Op>) -> bool {
    (!rem.contains_key(t) || rem[t].len() == 0) && inf.contains_key(t) && inf[t] == e.0
}
pub open spec fn sc_order<T, Op, Ret>(tail: Seq<(Op, Ret)>, rem: Map<T, Seq<(Op, Ret)>>, inf: Map<T, Op>) -> bool
    decreases tail.len()
{
    if tail.len() == 0 {
        forall|t: T| rem.contains_key(t) ==> #[trigger] rem[t].len() == 0
    } else {
        exists|t: T| #![trigger sc_head_completed(t, tail[0], rem)] #![trigger sc_head_in_flight(t, tail[0], rem, inf)]
            (sc_head_completed(t, tail[0], rem) && sc_order(tail.drop_first(), rem.insert(t, rem[t].drop_first()), inf))
            || (sc_head_in_flight(t, tail[0], rem, inf) && sc_order(tail.drop_first(), rem, inf.remove(t)))
    }
}


// some legal SC order of (rem, inf) from `obj` starts with the next operation of thread `t`
pub open spec fn sc_via<T, R: SequentialSpec>(t: T, tail: Seq<(R::Op, R::Ret)>, obj: R, rem: Map<T, Seq<(R::Op, R::Ret)>>, inf: Map<T, R::Op>) -> bool {
    tail.len() > 0 && legal(obj, tail) && (
        (sc_head_completed(t, tail[0], rem) && sc_order(tail.drop_first(), rem.insert(t, rem[t].drop_first()), inf))
        || (sc_head_in_flight(t, tail[0], rem, inf) && sc_order(tail.drop_first(), rem, inf.remove(t))))
}


// Real-time precedence, as the tester can see it: an operation that recorded `cs` at its invocation may
// be placed only when no peer operation with index <= cs[peer] is still waiting in `rem` (all of them
// completed before this operation was invoked, so all of them must come earlier in the total order).
pub open spec fn rt_ok<T, E>(cs: Map<T, usize>, rem: Map<T, Seq<(usize, E)>>) -> bool {
    forall|p: T, j: int| #![trigger rem[p][j]]
        cs.contains_key(p) && rem.contains_key(p) && 0 <= j < rem[p].len() ==> rem[p][j].0 > cs[p]
}
// the remaining operations of every thread carry strictly increasing history indices
pub open spec fn idx_sorted<T, E>(rem: Map<T, Seq<(usize, E)>>) -> bool {
    forall|p: T, i: int, j: int| #![trigger rem[p][i], rem[p][j]]
        rem.contains_key(p) && 0 <= i < j < rem[p].len() ==> rem[p][i].0 < rem[p][j].0
}
// what the tester tests per peer: the NEXT remaining operation of the peer (if any) is later than cs[peer]
pub open spec fn peer_ok<T, E>(p: T, cs: Map<T, usize>, rem: Map<T, Seq<(usize, E)>>) -> bool {
    cs.contains_key(p) && rem.contains_key(p) && rem[p].len() > 0 ==> rem[p][0].0 > cs[p]
}
pub open spec fn lin_head_completed<T, Op, Ret>(t: T, e: (Op, Ret), rem: Map<T, Seq<(usize, (BTreeMap<T, usize>, Op, Ret))>>) -> bool {
    rem.contains_key(t) && rem[t].len() > 0 && (rem[t][0].1.1, rem[t][0].1.2) == e
    && rt_ok(rem[t][0].1.0@, rem.insert(t, rem[t].drop_first()))
}
pub open spec fn lin_head_in_flight<T, Op, Ret>(t: T, e: (Op, Ret), rem: Map<T, Seq<(usize, (BTreeMap<T, usize>, Op, Ret))>>, inf: Map<T, (BTreeMap<T, usize>, Op)>) -> bool {
    (!rem.contains_key(t) || rem[t].len() == 0) && inf.contains_key(t) && inf[t].1 == e.0 && rt_ok(inf[t].0@, rem)
}
// `tail` is a linearization: an interleaving of the per-thread sequences (completed operations in
// program order, optionally followed by the thread's in-flight operation) in which every operation
// is placed after all peer operations that completed before its invocation.
pub open spec fn lin_order<T, Op, Ret>(tail: Seq<(Op, Ret)>, rem: Map<T, Seq<(usize, (BTreeMap<T, usize>, Op, Ret))>>, inf: Map<T, (BTreeMap<T, usize>, Op)>) -> bool
    decreases tail.len()
{
    if tail.len() == 0 {
        forall|t: T| rem.contains_key(t) ==> #[trigger] rem[t].len() == 0
    } else {
        exists|t: T| #![trigger lin_head_completed(t, tail[0], rem)] #![trigger lin_head_in_flight(t, tail[0], rem, inf)]
            (lin_head_completed(t, tail[0], rem) && lin_order(tail.drop_first(), rem.insert(t, rem[t].drop_first()), inf))
            || (lin_head_in_flight(t, tail[0], rem, inf) && lin_order(tail.drop_first(), rem, inf.remove(t)))
    }
}

// some legal linearization of (rem, inf) from `obj` starts with the next operation of thread `t`
pub open spec fn lin_via<T, R: SequentialSpec>(t: T, tail: Seq<(R::Op, R::Ret)>, obj: R, rem: Map<T, Seq<(usize, (BTreeMap<T, usize>, R::Op, R::Ret))>>, inf: Map<T, (BTreeMap<T, usize>, R::Op)>) -> bool {
    tail.len() > 0 && legal(obj, tail) && (
        (lin_head_completed(t, tail[0], rem) && lin_order(tail.drop_first(), rem.insert(t, rem[t].drop_first()), inf))
        || (lin_head_in_flight(t, tail[0], rem, inf) && lin_order(tail.drop_first(), rem, inf.remove(t))))
}

// every completed operation paired with its position in its thread's history (what `serialized_history`
// hands to `serialize`; the positions are what the recorded last-completed maps refer to)
pub open spec fn indexed<T, E>(hist: Map<T, Seq<E>>) -> Map<T, Seq<(usize, E)>> {
    Map::new(hist.dom(), |t: T| Seq::new(hist[t].len(), |j: int| (j as usize, hist[t][j])))
}

