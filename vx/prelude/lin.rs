// ---- prelude/lin.rs: trusted std specifications used by the LIN / SC units (DESIGN.md 3.4) ----
// Part 1 is TRUSTED (external_body / assume_specification; each item transcribes std documentation).
// Part 2 is plain spec vocabulary shared by the two units (definitions and proved lemmas, nothing assumed).

// ===== Part 1: trusted =====

// `VecDeque::is_empty`: "Returns `true` if the deque is empty."
pub assume_specification<T, A: std::alloc::Allocator>[VecDeque::<T, A>::is_empty](q: &VecDeque<T, A>) -> (r: bool)
    ensures r == (q@.len() == 0);

// `BTreeMap::iter`: "Gets an iterator over the entries of the map, sorted by key." / `BTreeMap::keys`:
// "Gets an iterator over the keys of the map, in sorted order." Every key exactly once; the order itself
// (ascending) is not exposed because no contract depends on it.
#[verifier::external_body]
pub fn btree_keys_vec<K: Copy + Ord, V>(m: &BTreeMap<K, V>) -> (r: Vec<K>)
    ensures
        r@.no_duplicates(),
        forall|k: K| #[trigger] r@.contains(k) <==> m@.contains_key(k),
{
    m.keys().copied().collect()
}

// `Iterator::enumerate`: "Creates an iterator which gives the current iteration count as well as the next
// value"; `VecDeque::into_iter` is front-to-back and `collect` into a `VecDeque` keeps the order
// (`FromIterator` pushes to the back).
#[verifier::external_body]
pub fn deque_enumerate<E>(q: VecDeque<E>) -> (r: VecDeque<(usize, E)>)
    ensures
        r@.len() == q@.len(),
        forall|i: int| 0 <= i < q@.len() ==> #[trigger] r@[i] == (i as usize, q@[i]),
{
    q.into_iter().enumerate().collect()
}

// Error texts (`format!(..)`, `"..".to_string()` inside `Err(..)`) are not part of any property: rule
// L_ERRSTR replaces them by this function, which returns an unspecified String (no postcondition).
#[verifier::external_body]
pub fn any_string() -> String {
    String::new()
}

// ===== Part 2: shared spec vocabulary (nothing trusted below this line) =====

// A-CLONE as an explicit precondition (not an axiom): `clone` returns an equal value.
pub open spec fn clone_eq<X: Clone>() -> bool {
    &&& forall|a: X, b: X| #[trigger] call_ensures(X::clone, (&a,), b) ==> a == b
    &&& forall|a: X, b: X| #[trigger] cloned::<X>(a, b) ==> a == b
}

// A-EQ for the thread-id type: `==` is equality of values (what `#[derive(PartialEq)]` gives).
pub open spec fn eq_is_eq<X: PartialEq>() -> bool {
    &&& X::obeys_eq_spec()
    &&& forall|a: X, b: X| #[trigger] a.eq_spec(&b) == (a == b)
}

// Model of trait `stateright::semantics::SequentialSpec` (src/semantics.rs), as DESIGN.md section 4
// does for Model/Actor: the reference object is a deterministic state machine `spec_invoke`; the exec
// methods are tied to it by `ensures`. The contract of `is_valid_step` is the documented default
// (`&self.invoke(op) == ret`); unit SEQ proves both contracts for Register and Vec.
pub trait SequentialSpec: Sized {
    type Op;
    type Ret: PartialEq;
    spec fn spec_invoke(self, op: Self::Op) -> (Self, Self::Ret);
    fn invoke(&mut self, op: &Self::Op) -> (r: Self::Ret)
        ensures (*final(self), r) == old(self).spec_invoke(*op);
    fn is_valid_step(&mut self, op: &Self::Op, ret: &Self::Ret) -> (r: bool)
        ensures
            r == (old(self).spec_invoke(*op).1 == *ret),
            r ==> *final(self) == old(self).spec_invoke(*op).0;
}

// `h` is legal for `obj`: replaying it on the sequential specification yields exactly the recorded returns.
pub open spec fn legal<R: SequentialSpec>(obj: R, h: Seq<(R::Op, R::Ret)>) -> bool
    decreases h.len()
{
    h.len() == 0 || (obj.spec_invoke(h[0].0).1 == h[0].1 && legal(obj.spec_invoke(h[0].0).0, h.drop_first()))
}

// the per-thread sequences of a history map, as a mathematical map of sequences
pub open spec fn hv<K, E>(m: BTreeMap<K, VecDeque<E>>) -> Map<K, Seq<E>> {
    Map::new(m@.dom(), |k: K| m@[k]@)
}

// number of operations in a map of sequences (vstd maps have finite domains)
pub open spec fn total<K, E>(m: Map<K, Seq<E>>) -> nat
    decreases m.dom().len()
{
    if m.dom().len() == 0 { 0 } else {
        let k = m.dom().choose();
        m[k].len() + total(m.remove(k))
    }
}

pub proof fn lemma_total_remove<K, E>(m: Map<K, Seq<E>>, k: K)
    requires m.contains_key(k)
    ensures total(m) == m[k].len() + total(m.remove(k))
    decreases m.dom().len()
{
    let c = m.dom().choose();
    if m.dom().len() == 0 {
        assert(false);
    } else if c != k {
        lemma_total_remove(m.remove(c), k);
        lemma_total_remove(m.remove(k), c);
        assert(m.remove(c).remove(k) =~= m.remove(k).remove(c));
    }
}

pub proof fn lemma_total_update<K, E>(m: Map<K, Seq<E>>, k: K, s: Seq<E>)
    requires m.contains_key(k)
    ensures total(m.insert(k, s)) + m[k].len() == total(m) + s.len()
{
    lemma_total_remove(m, k);
    lemma_total_remove(m.insert(k, s), k);
    assert(m.insert(k, s).remove(k) =~= m.remove(k));
}

pub broadcast proof fn lemma_skip_zero<A>(s: Seq<A>)
    ensures #[trigger] s.skip(0) == s
{
    assert(s.skip(0) =~= s);
}
