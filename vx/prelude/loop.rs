// ---- prelude/loop.rs: the externals of the per-actor thread body of /repo/src/actor/spawn.rs `spawn` (unit LOOP, C17) ----
// Included inside `verus! { }`, after prelude/actor.rs and prelude/spawn.rs (whose `Socket`, `IoError`, `FnRef1`, `inst_ns`,
// `dur_ns`, `call_instant` / `return_instant` are reused unchanged). Everything here is TRUSTED: each item transcribes the
// std documentation quoted above it. The including unit needs: use std::net::{SocketAddr, SocketAddrV4};
// use std::collections::HashMap; use std::time::{Duration, Instant};

// ---- glue for items of prelude/spawn.rs ----------------------------------------------------------------------------
// `Result::unwrap` / `Result::expect` are declared `where E: fmt::Debug` (they print the error before panicking);
// `std::io::Error` implements `Debug`. No contract: the formatter is never reached in a verified run.
impl std::fmt::Debug for IoError {
    #[verifier::external_body]
    fn fmt(&self, f: &mut std::fmt::Formatter<'_>) -> std::fmt::Result { unimplemented!() }
}
// Rust reference, "Function pointer types": fn pointers implement `Copy` and `Clone` - the model of a fn pointer
// (prelude/spawn.rs `FnRef1`, `FnSlice1` below) is copied the same way when the pointer is handed on.
impl<T, R> Clone for FnRef1<T, R> {
    #[verifier::external_body]
    fn clone(&self) -> (r: Self)
        ensures r == *self
    { FnRef1 { f: self.f } }
}
impl<T, R> Copy for FnRef1<T, R> {}

// ---- the `deserialize` fn pointer (rule FNPTR_VALUES, assumption A-PURE) ----------------------------------------------
// A parameter `fn(&[T]) -> R` (an unsized slice argument, which `FnRef1<[T], R>` cannot name) becomes the opaque
// `FnSlice1<T, R>`; calling it is a pure, deterministic, total function `apply(slice@)` of the elements of the slice
// (/repo `spawn` documents `deserialize` by the example `|bytes| serde_json::from_slice(bytes)`).
#[verifier::external_body]
#[verifier::reject_recursive_types(T)]
#[verifier::reject_recursive_types(R)]
pub struct FnSlice1<T, R> { f: fn(&[T]) -> R }
impl<T, R> FnSlice1<T, R> {
    pub uninterp spec fn apply(self, t: Seq<T>) -> R;
    #[verifier::external_body]
    fn call(&self, t: &[T]) -> (r: R)
        ensures r == self.apply(t@)
    { (self.f)(t) }
}
impl<T, R> Clone for FnSlice1<T, R> {
    #[verifier::external_body]
    fn clone(&self) -> (r: Self)
        ensures r == *self
    { FnSlice1 { f: self.f } }
}
impl<T, R> Copy for FnSlice1<T, R> {}

// ---- addresses ---------------------------------------------------------------------------------------------------
// `std::net::SocketAddrV6`: "An IPv6 socket address" - opaque. `std::net::SocketAddr`: "An internet socket address,
// either IPv4 or IPv6": `pub enum SocketAddr { V4(SocketAddrV4), V6(SocketAddrV6) }` - transparent (the loop matches on it).
#[verifier::external_type_specification]
#[verifier::external_body]
pub struct ExSocketAddrV6(std::net::SocketAddrV6);
#[verifier::external_type_specification]
pub struct ExSocketAddr(std::net::SocketAddr);
// /repo `impl From<SocketAddrV4> for Id` (spawn.rs): the Id that encodes an address. Uninterpreted, like `addr_of` in
// prelude/spawn.rs: that it is the inverse of `addr_of` on 48-bit ids is decided by the Kani harnesses `k_id_*`
// (C17, complete domain); callers reach it through `callmap: Id::from( => id_from_addr(`.
uninterp spec fn id_of(addr: SocketAddrV4) -> Id;
#[verifier::external_body]
fn id_from_addr(addr: SocketAddrV4) -> (r: Id)
    ensures r == id_of(addr)
{ unimplemented!() }

// ---- the socket, receiving side (assumption A-SOCK, continued from prelude/spawn.rs) -----------------------------------
// The opaque `Socket` value stands for the OS socket in its current state. As for `os_accepts` on the sending side, what
// the OS does next is an (uninterpreted) function of that value; every receive leaves a NEW value (only the log of sent
// datagrams is known to be kept), so no two receives are ever made on the same value.
// whether the OS lets `bind` succeed (address free, permitted, ..)
pub uninterp spec fn os_binds(addr: SocketAddrV4) -> bool;
// whether the OS accepts a (valid, non-zero) read timeout on this socket
pub uninterp spec fn os_sets_timeout(s: Socket) -> bool;
// the datagram the OS hands over at the next receive on this socket value: (payload bytes, origin), or None when the
// read times out / fails
pub uninterp spec fn os_delivers(s: Socket) -> Option<(Seq<u8>, SocketAddr)>;
impl Socket {
    // the address the socket is bound to
    pub uninterp spec fn local(&self) -> SocketAddrV4;

    // `UdpSocket::bind`: "Creates a UDP socket from the given address. The address type can be any implementor of
    // ToSocketAddrs trait." (here: a `SocketAddrV4`, which resolves to itself). A fresh socket has sent nothing.
    #[verifier::external_body]
    fn bind(addr: SocketAddrV4) -> (r: Result<Socket, IoError>)
        ensures
            r is Ok == os_binds(addr),
            r matches Ok(s) ==> s.local() == addr && s.sent() == Seq::<(Seq<u8>, SocketAddrV4)>::empty(),
    { unimplemented!() }

    // `UdpSocket::set_read_timeout`: "Sets the read timeout to the timeout specified. If the value specified is None,
    // then read calls will block indefinitely. An Err is returned if the zero Duration is passed to this method."
    // (`&self`: the timeout is not part of the modelled socket value; it only influences what `os_delivers` stands for.)
    #[verifier::external_body]
    fn set_read_timeout(&self, dur: Option<Duration>) -> (r: Result<(), IoError>)
        ensures
            (dur matches Some(d) && dur_ns(d) == 0) ==> r is Err,
            !(dur matches Some(d) && dur_ns(d) == 0) ==> (r is Ok == os_sets_timeout(*self)),
    { unimplemented!() }

    // `UdpSocket::recv_from`: "Receives a single datagram message on the socket. On success, returns the number of bytes
    // read and the origin. The function must be called with valid byte array buf of sufficient size to hold the message
    // bytes. If a message is too long to fit in the supplied buffer, excess bytes may be discarded."
    // Ok((count, origin)): count <= buf.len() and buf[..count] IS the datagram received (`os_delivers` of the socket value
    // the call was made on); Err (time-out = `WouldBlock` / `TimedOut`, or failure): nothing was received. The real
    // method takes `&self` and `&mut [u8]`; the caller's buffer is an array `[u8; N]`.
    #[verifier::external_body]
    fn recv_from<const N: usize>(&mut self, buf: &mut [u8; N]) -> (r: Result<(usize, SocketAddr), IoError>)
        ensures
            final(self).sent() == old(self).sent(),
            final(self).local() == old(self).local(),
            match r {
                Ok((count, origin)) => count <= N && os_delivers(*old(self)) == Some((final(buf)@.subrange(0, count as int), origin)),
                Err(_) => os_delivers(*old(self)) is None,
            },
    { unimplemented!() }
}

// ---- time ----------------------------------------------------------------------------------------------------------
// `Instant::checked_duration_since`: "Returns the amount of time elapsed from another instant to this one, or None if
// that instant is later than this one."
pub assume_specification[Instant::checked_duration_since](this: &Instant, earlier: Instant) -> (r: Option<Duration>)
    ensures
        r is Some <==> inst_ns(earlier) <= inst_ns(*this),
        r matches Some(d) ==> dur_ns(d) == inst_ns(*this) - inst_ns(earlier);

// `Duration::is_zero`: "Returns true if this Duration spans no time." (not used by /repo today; a guard
// `Some(w) if !w.is_zero()` is the obvious repair of finding candidate F-C17-LOOP-1 and must stay decidable)
pub assume_specification[Duration::is_zero](d: &Duration) -> (r: bool)
    ensures r == (dur_ns(*d) == 0);

// ---- `M.iter().min_by_key(|(_, v)| *v)` on a `HashMap<K, Instant>` (rule MIN_BY_VALUE) ------------------------------------
// `HashMap::iter`: "An iterator visiting all key-value pairs in arbitrary order. The iterator element type is
// (&'a K, &'a V)." `Iterator::min_by_key`: "Returns the element that gives the minimum value from the specified
// function. If several elements are equally minimum, the first element is returned. If the iterator is empty, None is
// returned." `impl Ord for Instant`: the order of the points in time (`inst_ns`). Which of several equally early
// entries is returned depends on the arbitrary iteration order: not specified.
#[verifier::external_body]
fn min_by_value<'a, K>(m: &'a HashMap<K, Instant>) -> (r: Option<(&'a K, &'a Instant)>)
    ensures
        r is None <==> (forall|k: K| !m@.contains_key(k)),
        r matches Some((k, v)) ==> m@.contains_key(*k) && m@[*k] == *v
            && (forall|k2: K| m@.contains_key(k2) ==> inst_ns(*v) <= inst_ns(#[trigger] m@[k2])),
{ unimplemented!() }

// ---- `R.expect("..")` read as "returns only for Ok" (rule EXPECT_EXIT) -------------------------------------------------------
// `Result::expect`: "Returns the contained Ok value, consuming the self value. Panics if the value is an Err". A panic ends
// the actor's thread: no further handler call, no datagram. C17 speaks about the calls that happen, so the panic path is an
// exit (partial correctness); that it cannot be taken is NOT claimed (see DESIGN 9.3, O-C17-1: a zero read timeout).
#[verifier::external_body]
fn expect_or_exit<T, E>(r: Result<T, E>) -> (v: T)
    ensures r == Ok::<T, E>(v)
{ unimplemented!() }
