// ---- prelude/adp.rs: what the adapter units (ADP: C15, RCL: C18) need beyond prelude/actor.rs ----
// Included inside `verus! { }`, after prelude/actor.rs.

// ---- MODEL of the external crate `choice` 0.0.2 (~/.cargo/registry/src/*/choice-0.0.2/src/lib.rs) ----
// /repo imports `choice::{Choice, Never}`; the crate is not part of /repo, so the extractor cannot copy it. The two
// types and the two functions /repo's adapters call are transcribed here by hand, TRANSPARENTLY (plain enums with
// the crate's variant names, bodies as in the crate), so that nothing about them is assumed beyond the
// correspondence of this text with the crate's:
//     pub enum Choice<L, R> { L(L), R(R) }                       #[derive(Clone, Copy, Eq, Hash, Ord, PartialEq, PartialOrd)]
//     pub enum Never { }                                         #[derive(Clone, Copy, Debug, Eq, Hash, Ord, PartialEq, PartialOrd)]
//     impl<A, B> Choice<A, B> { pub fn new(choice: A) -> Self { L(choice) } .. }
//     impl<A> Choice<A, Never> { pub fn get(&self) -> &A { match self { L(l) => l, R(_) => unreachable!() } } }
// (`or`, `Display`, `Debug`, the `choice!` macro are not used by the code under contract.)
// Only `Clone` is derived: the handlers' `Cow<State>` needs it, nothing under contract compares or hashes a `Choice`.
#[derive(Clone)]
pub enum Choice<L, R> {
    L(L),
    R(R),
}
// `pub enum Never { }` CANNOT be written as the crate writes it: Verus rejects an enum without variants ("datatype
// must have at least one non-recursive variant" - in its logic every type is inhabited, so "no value of type Never
// exists" must not be an axiom either: it would be inconsistent with `arbitrary::<Never>()`). `Never` is therefore
// an opaque type that nothing here constructs or inspects, and the one place where the crate uses its emptiness -
// the `R(_) => unreachable!()` arm of `get` - becomes the explicit precondition `self is L` of `get`: every caller
// under contract must establish it (it is part of `ok` of a `Choice<A, Never>` below). In the real crate the
// precondition is always true.
#[derive(Clone)]
pub struct Never {}

impl<A, B> Choice<A, B> {
    // crate: `pub fn new(choice: A) -> Self { L(choice) }`
    pub fn new(choice: A) -> (r: Self)
        ensures r == Choice::<A, B>::L(choice)
    {
        Choice::L(choice)
    }
}

impl<A> Choice<A, Never> {
    // crate: `pub fn get(&self) -> &A { match self { L(l) => l, R(_) => unreachable!() } }`
    pub fn get(&self) -> (r: &A)
        requires self is L
        ensures *self == Choice::<A, Never>::L(*r)
    {
        match self {
            Choice::L(l) => l,
            Choice::R(_) => unreachable!(),
        }
    }
}

// TRUSTED: `Cow::into_owned` (std::borrow::Cow): "Extracts the owned data. Clones the data if it is not already
// owned." The result is the owned form of the `Cow` (`cow_owned_spec` of prelude/actor.rs, which
// `axiom_cow_owned_clone` equates with the value `cv(c)` for `T: Clone` - A-CLONE). Not used by /repo's adapters
// as they stand; it is here so that an adapter that forces its state into the owned form is DECIDED (and fails
// `transparent`: ownership is part of the result) instead of being an unsupported construct.
pub assume_specification<'a, B: ?Sized + std::borrow::ToOwned>[std::borrow::Cow::<'a, B>::into_owned](c: std::borrow::Cow<'a, B>) -> (r: <B as std::borrow::ToOwned>::Owned)
    ensures r == cow_owned_spec(c);

// ---- `Out::append` (/repo/src/actor.rs), copied mechanically; obligation `<UNIT>.append.*` ----
// "Moves all Commands of other into Self, leaving other empty": the commands arrive behind the ones already
// recorded, in their recording order. (vstd specifies `Vec::append` exactly so.)
impl<A: ActorSig> Out<A> {
/*@fn src/actor.rs :: impl<A: Actor> Out<A> :: append
sigmap: `B: Actor<` => `B: ActorSig<`
ensures:
    [concat] final(self)@ == old(self)@ + old(other)@
    [drained] final(other)@ == Seq::<Command<A::Msg, A::Timer, A::Random>>::empty()
@*/
}

// TRUSTED (assumption A-PURE as in prelude/actor.rs `trait Actor`, in the form the adapters need: A-PURE-INV).
// The handlers of a generic wrapped actor are deterministic functions of their arguments, named by the spec
// functions `p_*`, exactly as in `trait Actor`. The only difference: a handler may rely on
//   * an invariant `ok` of its OWN states - it is only ever handed a state that this actor's `on_start` returned or
//     one of its handlers left behind (what `ActorModel::next_state` and `spawn` do) - which `on_start` establishes
//     and every handler preserves, and
//   * an invariant `wf` of the actor value itself (no handler can change `&self`).
// `trait Actor` is the special case `ok == wf == true`, so this is the WEAKER hypothesis about the wrapped actor.
// It is needed because /repo's `Choice<A1, A2>` handlers end in `_ => unreachable!()` when the state is of the other
// alternative (`ok`), and because the model of `choice::Never` above is not empty (`wf`: the last alternative of a
// chain is `L`): with them an adapter is itself an instance (proved in unit ADP, not assumed), so adapters nest.
// Nothing is assumed about WHAT the functions compute.
trait ActorP: ActorSig {
    spec fn wf(&self) -> bool;
    spec fn ok(&self, st: Self::State) -> bool;
    spec fn p_start(&self, id: Id) -> (Self::State, Seq<Command<Self::Msg, Self::Timer, Self::Random>>);
    spec fn p_msg(&self, id: Id, st: Self::State, src: Id, m: Self::Msg) -> (Option<Self::State>, Seq<Command<Self::Msg, Self::Timer, Self::Random>>);
    spec fn p_timeout(&self, id: Id, st: Self::State, t: Self::Timer) -> (Option<Self::State>, Seq<Command<Self::Msg, Self::Timer, Self::Random>>);
    spec fn p_random(&self, id: Id, st: Self::State, r: Self::Random) -> (Option<Self::State>, Seq<Command<Self::Msg, Self::Timer, Self::Random>>);

    fn on_start(&self, id: Id, o: &mut Out<Self>) -> (r: Self::State)
        requires
            self.wf(),
        ensures
            r == self.p_start(id).0,
            final(o)@ == old(o)@ + self.p_start(id).1,
            self.ok(r);

    fn on_msg(&self, id: Id, state: &mut std::borrow::Cow<Self::State>, src: Id, msg: Self::Msg, o: &mut Out<Self>)
        requires
            self.wf(),
            self.ok(cv(*old(state))),
        ensures
            handler_post(*old(state), *final(state), old(o)@, final(o)@, self.p_msg(id, cv(*old(state)), src, msg)),
            self.ok(cv(*final(state)));

    fn on_timeout(&self, id: Id, state: &mut std::borrow::Cow<Self::State>, timer: &Self::Timer, o: &mut Out<Self>)
        requires
            self.wf(),
            self.ok(cv(*old(state))),
        ensures
            handler_post(*old(state), *final(state), old(o)@, final(o)@, self.p_timeout(id, cv(*old(state)), *timer)),
            self.ok(cv(*final(state)));

    fn on_random(&self, id: Id, state: &mut std::borrow::Cow<Self::State>, random: &Self::Random, o: &mut Out<Self>)
        requires
            self.wf(),
            self.ok(cv(*old(state))),
        ensures
            handler_post(*old(state), *final(state), old(o)@, final(o)@, self.p_random(id, cv(*old(state)), *random)),
            self.ok(cv(*final(state)));
}
