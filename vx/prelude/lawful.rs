// ---- prelude/lawful.rs: A-CLONE / A-EQ as an explicit precondition on generic value types ----
// `clone` returns an equal value and `==` is equality of values: what `#[derive(Clone, PartialEq)]`
// gives. Not an axiom: every contract that needs it lists `lawful::<T>()` among its `requires`.
pub open spec fn lawful<T: Clone + PartialEq>() -> bool {
    &&& forall|a: T, b: T| #[trigger] call_ensures(T::clone, (&a,), b) ==> a == b
    &&& forall|a: T, b: T| #[trigger] cloned::<T>(a, b) ==> a == b
    &&& T::obeys_eq_spec()
    &&& forall|a: T, b: T| #[trigger] a.eq_spec(&b) == (a == b)
}
