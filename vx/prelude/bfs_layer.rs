// ---- prelude/bfs_layer.rs: the BFS layer argument (C13 shortest witnesses, C12 "every nearer state is
// evaluated") on top of bfs_inv.rs.  Used by unit CB only (single worker, one queue).
// Nothing here is trusted.  Every check_block clause built from these predicates is guarded by `layer_on`:
// fingerprints of reachable states are collision free (A-FP, explicit) and no early exit has happened before.
// (C11 completeness - `ev_complete`, `not_dead`, `ev_complete_step`, `ev_complete_mono`, `exact_on_forest` - needs no layer
// argument and no queue order: it lives in bfs_inv.rs, shared with unit OND; `unique_path`, `bits_recorded` in chk_common.rs.)

// the layer clauses are claimed under these two hypotheses only
#[verifier::opaque]
spec fn layer_on<M: Model>(m: M, unexp0: Set<Fingerprint>) -> bool { fp_inj_reach(m) && unexp0 =~= Set::<Fingerprint>::empty() }

// no model path ending in s has fewer than n states
spec fn no_shorter<M: Model>(m: M, s: M::State, n: int) -> bool {
    forall|ss: Seq<M::State>| #[trigger] is_path(m, ss) && ss.last() == s ==> n <= ss.len()
}
// `layer`: the generating path of every key is a shortest path, i.e. depth(k) == dist(st[k]) + 1
#[verifier::opaque]
spec fn short_ok<M: Model>(m: M, g: Gen, st: StMap<M::State>, pth: PthMap<M::State>) -> bool {
    forall|k: Fingerprint| #[trigger] g.contains_key(k) ==> no_shorter(m, st[k], pth[k].len() as int)
}
spec fn gen_at<S>(g: Gen, st: StMap<S>, s: S) -> bool { g.contains_key(fp_of(s)) && st[fp_of(s)] == s }
// every state that has a model path of at most l states is generated (and recorded under its own fingerprint)
#[verifier::opaque]
spec fn level_gen<M: Model>(m: M, g: Gen, st: StMap<M::State>, l: int) -> bool {
    forall|ss: Seq<M::State>| #[trigger] is_path(m, ss) && ss.len() <= l ==> gen_at(g, st, ss.last())
}
// ... for the level below every pending job
#[verifier::opaque]
spec fn level_ok<M: Model>(m: M, g: Gen, st: StMap<M::State>, p: Seq<Job<M::State>>) -> bool {
    forall|j: int| 0 <= j < p.len() ==> level_gen(m, g, st, (#[trigger] p[j]).3.get() - 1)
}
// only jobs at or beyond the depth limit were skipped
#[verifier::opaque]
spec fn skip_deep<S>(pth: PthMap<S>, skipped: Set<Fingerprint>, target: Option<NonZeroUsize>) -> bool {
    forall|k: Fingerprint| #[trigger] skipped.contains(k) ==> (match target { Some(t) => pth[k].len() >= t.get(), None => false })
}
// every key nearer than d has been expanded
#[verifier::opaque]
spec fn shallow_exp<S>(g: Gen, pth: PthMap<S>, expanded: Set<Fingerprint>, d: int) -> bool {
    forall|k: Fingerprint| #[trigger] g.contains_key(k) && pth[k].len() < d ==> expanded.contains(k)
}
// `shortest_witness`: no model path to a state that calls for a discovery of property i has fewer than n states
spec fn min_wit<M: Model>(m: M, i: int, n: int) -> bool {
    forall|ss: Seq<M::State>| #[trigger] is_path(m, ss) && !passes(m, i, ss.last()) ==> n <= ss.len()
}
#[verifier::opaque]
spec fn wit_min<M: Model>(m: M, d: Disc, st: StMap<M::State>, pth: PthMap<M::State>) -> bool {
    forall|name: &'static str| #[trigger] d.contains_key(name) ==> exists|i: int| #[trigger] named(m, i, name)
        && witness_ok(m, st, pth, i, d[name])
        && (!(m.props()[i].expectation is Eventually) ==> min_wit(m, i, pth[d[name]].len() as int))
}

// ---- step lemmas ----
proof fn level_mono<M: Model>(m: M, g: Gen, st: StMap<M::State>, l: int, l2: int)
    requires level_gen(m, g, st, l), l2 <= l
    ensures level_gen(m, g, st, l2)
{ reveal(level_gen); }

//@props C13
proof fn level_pop<M: Model>(m: M, g: Gen, st: StMap<M::State>, p: Seq<Job<M::State>>)
    requires p.len() > 0, level_ok(m, g, st, p)
    ensures level_ok(m, g, st, p.drop_last()), level_gen(m, g, st, p.last().3.get() - 1)
{
    reveal(level_ok);
    let q = p.drop_last();
    assert(p.last() == p[p.len() - 1]);
    assert forall|j: int| 0 <= j < q.len() implies level_gen(m, g, st, (#[trigger] q[j]).3.get() - 1) by { assert(q[j] == p[j]); }
}

// at the moment a job k of depth d (below the limit, no early exit so far) is dequeued, every nearer key is expanded
//@props C13
proof fn shallow_step<M: Model>(m: M, g: Gen, st: StMap<M::State>, pth: PthMap<M::State>, q: Seq<Job<M::State>>,
                                e: Set<Fingerprint>, s: Set<Fingerprint>, u: Set<Fingerprint>, k: Fingerprint, d: int, target: Option<NonZeroUsize>)
    requires
        pend_inv(m, g, st, pth, q), span_ok(q, d), partition_ok(g.dom(), q, (e + s + u).insert(k)), pth[k].len() == d,
        skip_deep(pth, s, target), (match target { Some(t) => d < t.get(), None => true }), layer_on(m, u),
    ensures shallow_exp(g, pth, e, d)
{
    reveal(layer_on); reveal(pend_inv); reveal(span_ok); reveal(partition_ok); reveal(skip_deep); reveal(shallow_exp);
    assert forall|x: Fingerprint| #[trigger] g.contains_key(x) && pth[x].len() < d implies e.contains(x) by {
        assert(g.dom().contains(x));
        if pend_has(q, x) {
            let j = choose|j: int| 0 <= j < q.len() && (#[trigger] q[j]).1 == x;
            assert(job_ok(m, g, st, pth, q[j]));
            assert(d <= q[j].3.get());
        }
        assert((e + s + u).insert(k).contains(x));
        if s.contains(x) { assert(pth[x].len() >= d); }
    }
}

// ... hence every state with a path of d states is generated too
//@props C13
proof fn level_up<M: Model>(m: M, g: Gen, st: StMap<M::State>, pth: PthMap<M::State>, expanded: Set<Fingerprint>, d: int, u: Set<Fingerprint>)
    requires
        gen_inv(m, g, st, pth), short_ok(m, g, st, pth), level_gen(m, g, st, d - 1), shallow_exp(g, pth, expanded, d),
        closed_ok(m, g, st, expanded), inits_generated(m, g), layer_on(m, u),
    ensures level_gen(m, g, st, d)
{
    reveal(level_gen); reveal(layer_on);
    assert forall|ss: Seq<M::State>| #[trigger] is_path(m, ss) && ss.len() <= d implies gen_at(g, st, ss.last()) by {
        if ss.len() == d { level_up_one(m, g, st, pth, expanded, d, ss); }
    }
}
proof fn level_up_one<M: Model>(m: M, g: Gen, st: StMap<M::State>, pth: PthMap<M::State>, expanded: Set<Fingerprint>, d: int, ss: Seq<M::State>)
    requires
        gen_inv(m, g, st, pth), short_ok(m, g, st, pth), level_gen(m, g, st, d - 1), shallow_exp(g, pth, expanded, d),
        closed_ok(m, g, st, expanded), inits_generated(m, g), fp_inj_reach(m), is_path(m, ss), ss.len() == d,
    ensures gen_at(g, st, ss.last())
{
    reveal(level_gen); reveal(short_ok); reveal(shallow_exp); reveal(closed_ok);
    let s = ss.last();
    path_reach(m, ss);
    if ss.len() == 1 {
        assert(is_init(m, s));
    } else {
        path_prefix(m, ss);
        let pre = ss.drop_last();
        let q = pre.last();
        assert(gen_at(g, st, q));
        let x = fp_of(q);
        assert(no_shorter(m, st[x], pth[x].len() as int));
        assert(pth[x].len() <= pre.len());
        assert(expanded.contains(x));
        assert(is_succ(m, st[x], s));
    }
    generated_are_reachable(m, g, st, pth, fp_of(s));
}

//@props C13
proof fn level_grow<M: Model>(m: M, g3: Gen, st3: StMap<M::State>, pth3: PthMap<M::State>, g: Gen, st: StMap<M::State>, pth: PthMap<M::State>, l: int)
    requires level_gen(m, g3, st3, l), extends(g3, st3, pth3, g, st, pth)
    ensures level_gen(m, g, st, l)
{
    reveal(level_gen); reveal(extends);
    assert forall|ss: Seq<M::State>| #[trigger] is_path(m, ss) && ss.len() <= l implies gen_at(g, st, ss.last()) by {
        assert(g3.contains_key(fp_of(ss.last())));
    }
}

// a new key c (state t) is inserted as a child of k (depth d) while every state with a path of at most d states
// is already generated: its generating path (d + 1 states) is a shortest one
//@props C13
proof fn child_short_step<M: Model>(m: M, g: Gen, st: StMap<M::State>, pth: PthMap<M::State>, k: Fingerprint, c: Fingerprint, t: M::State, d: int, g1: Gen)
    requires short_ok(m, g, st, pth), level_gen(m, g, st, d), !g.contains_key(c), fp_of(t) == c, pth[k].len() == d,
    ensures
        g1.dom() == g.dom().insert(c) ==> short_ok(m, g1, st.insert(c, t), pth.insert(c, pth[k].push(t))),
        g1.dom() == g.dom().insert(c) ==> level_gen(m, g1, st.insert(c, t), d),
{
    reveal(short_ok); reveal(level_gen);
    let st2 = st.insert(c, t);
    let pth2 = pth.insert(c, pth[k].push(t));
    if g1.dom() == g.dom().insert(c) {
        assert forall|x: Fingerprint| #[trigger] g1.contains_key(x) implies no_shorter(m, st2[x], pth2[x].len() as int) by {
            assert(g.dom().insert(c).contains(x));
            if x == c {
                assert forall|ss: Seq<M::State>| #[trigger] is_path(m, ss) && ss.last() == t implies d + 1 <= ss.len() by {
                    if ss.len() <= d { assert(gen_at(g, st, ss.last())); }
                }
            } else {
                assert(g.contains_key(x));
                assert(no_shorter(m, st[x], pth[x].len() as int));
            }
        }
        assert forall|ss: Seq<M::State>| #[trigger] is_path(m, ss) && ss.len() <= d implies gen_at(g1, st2, ss.last()) by {
            assert(gen_at(g, st, ss.last()));
            assert(g.dom().insert(c).contains(fp_of(ss.last())));
        }
    }
}

//@props C13
proof fn level_from_span<M: Model>(m: M, g: Gen, st: StMap<M::State>, p: Seq<Job<M::State>>, d: int)
    requires level_gen(m, g, st, d), span_ok(p, d)
    ensures level_ok(m, g, st, p)
{
    reveal(level_ok); reveal(span_ok);
    assert forall|j: int| 0 <= j < p.len() implies level_gen(m, g, st, (#[trigger] p[j]).3.get() - 1) by {
        level_mono(m, g, st, d, p[j].3.get() - 1);
    }
}

//@props C12 C13
proof fn skip_step<S>(pth: PthMap<S>, s: Set<Fingerprint>, target: Option<NonZeroUsize>, k: Fingerprint)
    requires skip_deep(pth, s, target), (match target { Some(t) => pth[k].len() >= t.get(), None => false })
    ensures skip_deep(pth, s.insert(k), target)
{ reveal(skip_deep); }
//@props C12 C13
proof fn skip_grow<S>(g3: Gen, st3: StMap<S>, pth3: PthMap<S>, g: Gen, st: StMap<S>, pth: PthMap<S>, s: Set<Fingerprint>, target: Option<NonZeroUsize>)
    requires skip_deep(pth3, s, target), extends(g3, st3, pth3, g, st, pth), forall|x: Fingerprint| s.contains(x) ==> g3.contains_key(x)
    ensures skip_deep(pth, s, target)
{
    reveal(skip_deep); reveal(extends);
    assert forall|k: Fingerprint| #[trigger] s.contains(k) implies (match target { Some(t) => pth[k].len() >= t.get(), None => false }) by {
        assert(g3.contains_key(k));
    }
}

// `discoveries.insert(name, k)` for property i at the evaluated job k of depth dd: every nearer state was
// evaluated before and passed (the property had no discovery), so k is a nearest witness
//@props C13
proof fn wit_min_step<M: Model>(m: M, g: Gen, st: StMap<M::State>, pth: PthMap<M::State>, dh: Disc, d: Disc, expanded: Set<Fingerprint>, evaluated: Set<Fingerprint>,
                                i: int, name: &'static str, k: Fingerprint, dd: int)
    requires
        wit_min(m, d, st, pth), named(m, i, name), witness_ok(m, st, pth, i, k), pth[k].len() == dd,
        !d.contains_key(name), !(m.props()[i].expectation is Eventually),
        short_ok(m, g, st, pth), level_gen(m, g, st, dd - 1), shallow_exp(g, pth, expanded, dd),
        tested_ok(m, dh, st, evaluated), dh.dom().subset_of(d.dom()), expanded.subset_of(evaluated),
    ensures wit_min(m, d.insert(name, k), st, pth)
{
    reveal(wit_min);
    let d2 = d.insert(name, k);
    if !(m.props()[i].expectation is Eventually) {
        assert(!dh.dom().contains(name)) by { assert(dh.dom().contains(name) ==> d.dom().contains(name)); }
        assert forall|ss: Seq<M::State>| #[trigger] is_path(m, ss) && !passes(m, i, ss.last()) implies dd <= ss.len() by {
            if ss.len() < dd { wit_min_one(m, g, st, pth, dh, expanded, evaluated, i, name, dd, ss); }
        }
    }
    assert forall|nm: &'static str| #[trigger] d2.contains_key(nm) implies exists|i2: int| #[trigger] named(m, i2, nm)
        && witness_ok(m, st, pth, i2, d2[nm])
        && (!(m.props()[i2].expectation is Eventually) ==> min_wit(m, i2, pth[d2[nm]].len() as int)) by {
        if nm == name {
            assert(named(m, i, nm) && witness_ok(m, st, pth, i, d2[nm]));
        } else {
            assert(d.contains_key(nm));
            let i2 = choose|i2: int| #[trigger] named(m, i2, nm) && witness_ok(m, st, pth, i2, d[nm])
                && (!(m.props()[i2].expectation is Eventually) ==> min_wit(m, i2, pth[d[nm]].len() as int));
            assert(named(m, i2, nm));
        }
    }
}
proof fn wit_min_one<M: Model>(m: M, g: Gen, st: StMap<M::State>, pth: PthMap<M::State>, dh: Disc, expanded: Set<Fingerprint>, evaluated: Set<Fingerprint>,
                               i: int, name: &'static str, dd: int, ss: Seq<M::State>)
    requires
        named(m, i, name), !dh.contains_key(name), short_ok(m, g, st, pth), level_gen(m, g, st, dd - 1), shallow_exp(g, pth, expanded, dd),
        tested_ok(m, dh, st, evaluated), expanded.subset_of(evaluated), is_path(m, ss), ss.len() < dd,
    ensures passes(m, i, ss.last())
{
    reveal(short_ok); reveal(level_gen); reveal(shallow_exp); reveal(tested_ok);
    assert(gen_at(g, st, ss.last()));
    let x = fp_of(ss.last());
    assert(no_shorter(m, st[x], pth[x].len() as int));
    assert(pth[x].len() <= ss.len());
    assert(expanded.contains(x));
    assert(evaluated.contains(x));
    assert(passes(m, i, st[x]));
}
// an eventually discovery replaces / adds an entry: nothing is claimed about its depth
//@props C13
proof fn wit_min_step_ev<M: Model>(m: M, st: StMap<M::State>, pth: PthMap<M::State>, d: Disc, i: int, name: &'static str, k: Fingerprint)
    requires wit_min(m, d, st, pth), named(m, i, name), witness_ok(m, st, pth, i, k), m.props()[i].expectation is Eventually
    ensures wit_min(m, d.insert(name, k), st, pth)
{
    reveal(wit_min);
    let d2 = d.insert(name, k);
    assert forall|nm: &'static str| #[trigger] d2.contains_key(nm) implies exists|i2: int| #[trigger] named(m, i2, nm)
        && witness_ok(m, st, pth, i2, d2[nm])
        && (!(m.props()[i2].expectation is Eventually) ==> min_wit(m, i2, pth[d2[nm]].len() as int)) by {
        if nm == name {
            assert(named(m, i, nm) && witness_ok(m, st, pth, i, d2[nm]));
        } else {
            assert(d.contains_key(nm));
            let i2 = choose|i2: int| #[trigger] named(m, i2, nm) && witness_ok(m, st, pth, i2, d[nm])
                && (!(m.props()[i2].expectation is Eventually) ==> min_wit(m, i2, pth[d[nm]].len() as int));
            assert(named(m, i2, nm));
        }
    }
}
//@props C13
proof fn wit_min_extends<M: Model>(m: M, d: Disc, g3: Gen, st3: StMap<M::State>, pth3: PthMap<M::State>, g: Gen, st: StMap<M::State>, pth: PthMap<M::State>)
    requires wit_min(m, d, st3, pth3), disc_ok(m, g3, d, st3, pth3), extends(g3, st3, pth3, g, st, pth)
    ensures wit_min(m, d, st, pth)
{
    reveal(wit_min); reveal(disc_ok); reveal(extends);
    assert forall|nm: &'static str| #[trigger] d.contains_key(nm) implies exists|i2: int| #[trigger] named(m, i2, nm)
        && witness_ok(m, st, pth, i2, d[nm])
        && (!(m.props()[i2].expectation is Eventually) ==> min_wit(m, i2, pth[d[nm]].len() as int)) by {
        assert(g3.contains_key(d[nm]));
        let i2 = choose|i2: int| #[trigger] named(m, i2, nm) && witness_ok(m, st3, pth3, i2, d[nm])
            && (!(m.props()[i2].expectation is Eventually) ==> min_wit(m, i2, pth3[d[nm]].len() as int));
        assert(named(m, i2, nm) && witness_ok(m, st, pth, i2, d[nm]));
    }
}
//@props C13
proof fn inits_grow<M: Model>(m: M, g3: Gen, st3: StMap<M::State>, pth3: PthMap<M::State>, g: Gen, st: StMap<M::State>, pth: PthMap<M::State>)
    requires inits_generated(m, g3), extends(g3, st3, pth3, g, st, pth)
    ensures inits_generated(m, g)
{
    reveal(extends);
    assert forall|s: M::State| #[trigger] is_init(m, s) implies g.contains_key(fp_of(s)) by { assert(g3.contains_key(fp_of(s))); }
}

// ---- the explicit starting fact: a queue that holds exactly the initial jobs (every key has a path of one state)
// satisfies the layer invariants ----
//@props C13
proof fn layer_init<M: Model>(m: M, g: Gen, st: StMap<M::State>, pth: PthMap<M::State>, p: Seq<Job<M::State>>)
    requires
        gen_inv(m, g, st, pth),
        forall|k: Fingerprint| g.contains_key(k) ==> pth[k].len() == 1,
        forall|j: int| 0 <= j < p.len() ==> (#[trigger] p[j]).3.get() == 1,
    ensures
        short_ok(m, g, st, pth), level_ok(m, g, st, p),
        skip_deep(pth, Set::<Fingerprint>::empty(), None), wit_min(m, Map::<&'static str, Fingerprint>::empty(), st, pth),
{
    reveal(short_ok); reveal(level_ok); reveal(level_gen); reveal(skip_deep); reveal(wit_min);
    assert forall|k: Fingerprint| #[trigger] g.contains_key(k) implies no_shorter(m, st[k], pth[k].len() as int) by {}
}

// =====================================================================================================
// Property lemmas
// =====================================================================================================

// C13: the discovery of an always / sometimes property points to a nearest witness: no reachable state that
// calls for the discovery has a shorter path; the path reconstruct_path returns has the fingerprints of pth[k]
// (`same_fps`), hence depth - 1 transitions, and no witness path has fewer
//@props C13
proof fn shortest_witness<M: Model>(m: M, g: Gen, st: StMap<M::State>, pth: PthMap<M::State>, d: Disc, i: int, p: Path<M::State, M::Action>)
    requires
        wit_min(m, d, st, pth), names_distinct(m), 0 <= i < m.props().len(), !(m.props()[i].expectation is Eventually),
        d.contains_key(m.props()[i].name), same_fps(path_states(p), pth[d[m.props()[i].name]]),
    ensures
        witness_ok(m, st, pth, i, d[m.props()[i].name]),
        min_wit(m, i, pth[d[m.props()[i].name]].len() as int),
        forall|ss: Seq<M::State>| #[trigger] is_path(m, ss) && !passes(m, i, ss.last()) ==> p.0@.len() - 1 <= ss.len() - 1,
{
    reveal(wit_min);
    let name = m.props()[i].name;
    let i2 = choose|i2: int| #[trigger] named(m, i2, name) && witness_ok(m, st, pth, i2, d[name])
        && (!(m.props()[i2].expectation is Eventually) ==> min_wit(m, i2, pth[d[name]].len() as int));
    assert(i2 == i);
    assert(path_states(p).len() == p.0@.len());
}

// C12: after a run without early exit (pending empty, nothing stopped at), every reachable state nearer than the
// depth limit has been evaluated (expanded); nothing nearer was skipped
//@props C12
proof fn evaluated_below_limit<M: Model>(m: M, g: Gen, st: StMap<M::State>, pth: PthMap<M::State>, gh: Gh<M>, pending: Seq<Job<M::State>>,
                                         target: Option<NonZeroUsize>, ss: Seq<M::State>)
    requires
        gen_inv(m, g, st, pth), closed_ok(m, g, st, gh.expanded), short_ok(m, g, st, pth), skip_deep(pth, gh.skipped, target),
        partition_ok(g.dom(), pending, gh.expanded + gh.skipped + gh.unexp), pending.len() == 0, gh.unexp =~= Set::<Fingerprint>::empty(),
        inits_generated(m, g), fp_inj_reach(m), is_path(m, ss), (match target { Some(t) => ss.len() < t.get(), None => true }),
    ensures gen_at(g, st, ss.last()), gh.expanded.contains(fp_of(ss.last()))
    decreases ss.len()
{
    reveal(closed_ok); reveal(short_ok); reveal(skip_deep); reveal(partition_ok);
    let s = ss.last();
    path_reach(m, ss);
    if ss.len() == 1 {
        assert(is_init(m, s));
    } else {
        path_prefix(m, ss);
        evaluated_below_limit(m, g, st, pth, gh, pending, target, ss.drop_last());
        assert(is_succ(m, st[fp_of(ss.drop_last().last())], s));
    }
    let x = fp_of(s);
    generated_are_reachable(m, g, st, pth, x);
    assert(st[x] == s);
    assert(g.dom().contains(x));
    assert(!pend_has(pending, x));
    assert(no_shorter(m, st[x], pth[x].len() as int));
    assert(pth[x].len() <= ss.len());
    if gh.skipped.contains(x) { assert(false); }
}

// C01: after `closure`, `unique_state_count` (= generated.len()) is the number of reachable in-boundary states
//@props C01
proof fn unique_state_count_exact<M: Model>(m: M, g: Gen, st: StMap<M::State>, pth: PthMap<M::State>, reach_set: Set<M::State>)
    requires
        gen_inv(m, g, st, pth), fp_inj_reach(m),
        forall|s: M::State| #[trigger] reach(m, s) ==> g.contains_key(fp_of(s)) && st[fp_of(s)] == s,
        forall|s: M::State| #[trigger] reach_set.contains(s) <==> reach(m, s),
    ensures g.dom().len() == reach_set.len()
{
    assert forall|k: Fingerprint| #[trigger] g.dom().contains(k) implies exists|a: M::State| reach_set.contains(a) && #[trigger] fp_of(a) == k by {
        generated_are_reachable(m, g, st, pth, k);
        assert(reach_set.contains(st[k]) && fp_of(st[k]) == k);
    }
    assert forall|a: M::State| #[trigger] reach_set.contains(a) implies g.dom().contains(fp_of(a)) by { assert(reach(m, a)); }
    bij_len(reach_set, g.dom());
}
