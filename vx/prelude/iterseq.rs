// ---- prelude/iterseq.rs: iteration order of std collections as a sequence (for rule R11_iter_any_all) ----
// `iter_seq(c)` returns references to the elements of `c` in the order `c.iter()` yields them.
pub trait IterSeq {
    type Item;
    spec fn seq_view(&self) -> Seq<Self::Item>;
}
impl<T> IterSeq for [T] {
    type Item = T;
    // std: slice::iter "returns an iterator over the slice ... from start to end"
    open spec fn seq_view(&self) -> Seq<T> { self@ }
}
impl<T> IterSeq for BTreeSet<T> {
    type Item = T;
    // std: BTreeSet::iter "gets an iterator that visits the elements in the BTreeSet in ascending order":
    // each element exactly once (axiom_btreeset_seq)
    uninterp spec fn seq_view(&self) -> Seq<T>;
}
#[verifier::external_body]
pub proof fn axiom_btreeset_seq<T>(s: BTreeSet<T>)
    ensures
        s.seq_view().no_duplicates(),
        forall|x: T| s.seq_view().contains(x) <==> s@.contains(x),
{}

#[verifier::external_body]
pub fn iter_seq<'a, C: IterSeqExec + ?Sized>(c: &'a C) -> (v: Vec<&'a <C as IterSeq>::Item>)
    ensures
        v@.len() == c.seq_view().len(),
        forall|i: int| 0 <= i < v@.len() ==> *#[trigger] v@[i] == c.seq_view()[i],
{
    c.iter_seq_exec()
}
#[verifier::external]
pub trait IterSeqExec: IterSeq {
    fn iter_seq_exec(&self) -> Vec<&<Self as IterSeq>::Item>;
}
#[verifier::external]
impl<T> IterSeqExec for [T] { fn iter_seq_exec(&self) -> Vec<&T> { self.iter().collect() } }
#[verifier::external]
impl<T> IterSeqExec for BTreeSet<T> { fn iter_seq_exec(&self) -> Vec<&T> { self.iter().collect() } }

// std: HashSet::iter / HashMap::iter visit every element exactly once "in arbitrary order": some
// duplicate-free sequence whose elements are exactly the collection's (axiom_hash_*_seq).
impl<T, S> IterSeq for HashSet<T, S> {
    type Item = T;
    uninterp spec fn seq_view(&self) -> Seq<T>;
}
#[verifier::external_body]
pub proof fn axiom_hashset_seq<T, S>(s: HashSet<T, S>)
    ensures s.seq_view().no_duplicates(), s.seq_view().to_set() == s@,
{}
#[verifier::external]
impl<T, S> IterSeqExec for HashSet<T, S> { fn iter_seq_exec(&self) -> Vec<&T> { self.iter().collect() } }

pub uninterp spec fn map_seq_view<K, V, S>(m: HashMap<K, V, S>) -> Seq<(K, V)>;
#[verifier::external_body]
pub proof fn axiom_hashmap_seq<K, V, S>(m: HashMap<K, V, S>)
    ensures
        map_seq_view(m).map_values(|p: (K, V)| p.0).no_duplicates(),
        forall|k: K, v: V| map_seq_view(m).contains((k, v)) <==> (m@.contains_key(k) && m@[k] == v),
{}
#[verifier::external_body]
pub fn iter_seq_pairs<'a, K, V, S>(m: &'a HashMap<K, V, S>) -> (v: Vec<(&'a K, &'a V)>)
    ensures
        v@.len() == map_seq_view(*m).len(),
        forall|i: int| 0 <= i < v@.len() ==> (*(#[trigger] v@[i]).0, *v@[i].1) == map_seq_view(*m)[i],
{ unimplemented!() }
