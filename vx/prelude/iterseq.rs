// ---- prelude/iterseq.rs: iteration order of std collections as a sequence (for rule R11_iter_any_all) ----
// `iter_seq(c)` returns references to the elements of `c` in the order `c.iter()` yields them.
pub trait IterSeq {
    type Item;
    spec fn seq_view(&self) -> Seq<Self::Item>;
}
impl<T> IterSeq for [T] {
    type Item = T;
    // std: slice::iter "returns an iterator over the slice ... from start to end"
    open spec fn seq_view(&self) -> Seq<T> { self@ }
}
impl<T> IterSeq for BTreeSet<T> {
    type Item = T;
    // std: BTreeSet::iter "gets an iterator that visits the elements in the BTreeSet in ascending order":
    // each element exactly once (axiom_btreeset_seq)
    uninterp spec fn seq_view(&self) -> Seq<T>;
}
#[verifier::external_body]
pub proof fn axiom_btreeset_seq<T>(s: BTreeSet<T>)
    ensures
        s.seq_view().no_duplicates(),
        forall|x: T| s.seq_view().contains(x) <==> s@.contains(x),
{}

#[verifier::external_body]
pub fn iter_seq<'a, C: IterSeqExec + ?Sized>(c: &'a C) -> (v: Vec<&'a <C as IterSeq>::Item>)
    ensures
        v@.len() == c.seq_view().len(),
        forall|i: int| 0 <= i < v@.len() ==> *#[trigger] v@[i] == c.seq_view()[i],
{
    c.iter_seq_exec()
}
#[verifier::external]
pub trait IterSeqExec: IterSeq {
    fn iter_seq_exec(&self) -> Vec<&<Self as IterSeq>::Item>;
}
#[verifier::external]
impl<T> IterSeqExec for [T] { fn iter_seq_exec(&self) -> Vec<&T> { self.iter().collect() } }
#[verifier::external]
impl<T> IterSeqExec for BTreeSet<T> { fn iter_seq_exec(&self) -> Vec<&T> { self.iter().collect() } }

// std: HashSet::iter / HashMap::iter visit every element exactly once "in arbitrary order": some
// duplicate-free sequence whose elements are exactly the collection's (axiom_hash_*_seq).
impl<T, S> IterSeq for HashSet<T, S> {
    type Item = T;
    uninterp spec fn seq_view(&self) -> Seq<T>;
}
#[verifier::external_body]
pub proof fn axiom_hashset_seq<T, S>(s: HashSet<T, S>)
    ensures s.seq_view().no_duplicates(), s.seq_view().to_set() == s@,
{}
#[verifier::external]
impl<T, S> IterSeqExec for HashSet<T, S> { fn iter_seq_exec(&self) -> Vec<&T> { self.iter().collect() } }

pub uninterp spec fn map_seq_view<K, V, S>(m: HashMap<K, V, S>) -> Seq<(K, V)>;
#[verifier::external_body]
pub proof fn axiom_hashmap_seq<K, V, S>(m: HashMap<K, V, S>)
    ensures
        map_seq_view(m).map_values(|p: (K, V)| p.0).no_duplicates(),
        forall|k: K, v: V| map_seq_view(m).contains((k, v)) <==> (m@.contains_key(k) && m@[k] == v),
{}
#[verifier::external_body]
pub fn iter_seq_pairs<'a, K, V, S>(m: &'a HashMap<K, V, S>) -> (v: Vec<(&'a K, &'a V)>)
    ensures
        v@.len() == map_seq_view(*m).len(),
        forall|i: int| 0 <= i < v@.len() ==> (*(#[trigger] v@[i]).0, *v@[i].1) == map_seq_view(*m)[i],
{ unimplemented!() }

// ---- additions for unit RW (rules C_MAP_COLLECT_*); full paths: including units need no new `use` ----
// `Vec<T>` derefs to `[T]`: `v.iter()` is slice::iter, "from start to end"
impl<T> IterSeq for Vec<T> {
    type Item = T;
    open spec fn seq_view(&self) -> Seq<T> { self@ }
}
#[verifier::external]
impl<T> IterSeqExec for Vec<T> { fn iter_seq_exec(&self) -> Vec<&T> { self.iter().collect() } }
// std: VecDeque::iter "Returns a front-to-back iterator."
impl<T> IterSeq for std::collections::VecDeque<T> {
    type Item = T;
    open spec fn seq_view(&self) -> Seq<T> { self@ }
}
#[verifier::external]
impl<T> IterSeqExec for std::collections::VecDeque<T> { fn iter_seq_exec(&self) -> Vec<&T> { self.iter().collect() } }

// entries of a map in the order `m.iter()` yields them
pub trait IterPairs {
    type K;
    type V;
    spec fn pair_view(&self) -> Seq<(Self::K, Self::V)>;
}
impl<K, V> IterPairs for std::collections::BTreeMap<K, V> {
    type K = K;
    type V = V;
    // std: BTreeMap::iter "Gets an iterator over the entries of the map, sorted by key.": every entry
    // exactly once (axiom_btreemap_seq; the order itself is not used)
    uninterp spec fn pair_view(&self) -> Seq<(K, V)>;
}
#[verifier::external_body]
pub proof fn axiom_btreemap_seq<K, V>(m: std::collections::BTreeMap<K, V>)
    ensures
        m.pair_view().map_values(|p: (K, V)| p.0).no_duplicates(),
        forall|k: K, v: V| m.pair_view().contains((k, v)) <==> (m@.contains_key(k) && m@[k] == v),
{}
#[verifier::external_body]
pub fn iter_pairs<'a, C: IterPairs>(m: &'a C) -> (v: Vec<(&'a <C as IterPairs>::K, &'a <C as IterPairs>::V)>)
    ensures
        v@.len() == m.pair_view().len(),
        forall|i: int| 0 <= i < v@.len() ==> (*(#[trigger] v@[i]).0, *v@[i].1) == m.pair_view()[i],
{ unimplemented!() }
impl<K, V, S> IterPairs for HashMap<K, V, S> {
    type K = K;
    type V = V;
    // HashMap::iter: "arbitrary order" - the sequence `map_seq_view` above (axiom_hashmap_seq)
    open spec fn pair_view(&self) -> Seq<(K, V)> { map_seq_view(*self) }
}

// std, `impl FromIterator<T> for HashSet<T, S> where S: BuildHasher + Default`: the set of the items
// (rule C_STD_FROM_ITER; like every vstd HashSet spec, under the key-model preconditions)
#[verifier::external_body]
pub fn hashset_from_vec<T: Eq + core::hash::Hash, S: core::hash::BuildHasher + Default>(items: Vec<T>) -> (r: HashSet<T, S>)
    ensures vstd::std_specs::hash::obeys_key_model::<T>() && vstd::std_specs::hash::builds_valid_hashers::<S>() ==> r@ == items@.to_set()
{ items.into_iter().collect() }
// std, `impl FromIterator<(K, V)> for HashMap<K, V, S>`: "If the iterator produces any pairs with equal
// keys, all but one of the corresponding values will be dropped": specified only for pairwise
// different keys, where every pair is kept
#[verifier::external_body]
pub fn hashmap_from_vec<K: Eq + core::hash::Hash, V, S: core::hash::BuildHasher + Default>(items: Vec<(K, V)>) -> (r: HashMap<K, V, S>)
    ensures vstd::std_specs::hash::obeys_key_model::<K>() && vstd::std_specs::hash::builds_valid_hashers::<S>()
        && items@.map_values(|p: (K, V)| p.0).no_duplicates() ==> {
            &&& r@.dom() == items@.map_values(|p: (K, V)| p.0).to_set()
            &&& forall|i: int| 0 <= i < items@.len() ==> r@[(#[trigger] items@[i]).0] == items@[i].1
        }
{ items.into_iter().collect() }
