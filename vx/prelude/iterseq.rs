// ---- prelude/iterseq.rs: iteration order of std collections as a sequence (for rule R11_iter_any_all) ----
// `iter_seq(c)` returns references to the elements of `c` in the order `c.iter()` yields them.
pub trait IterSeq {
    type Item;
    spec fn seq_view(&self) -> Seq<Self::Item>;
}
impl<T> IterSeq for [T] {
    type Item = T;
    // std: slice::iter "returns an iterator over the slice ... from start to end"
    open spec fn seq_view(&self) -> Seq<T> { self@ }
}
impl<T> IterSeq for BTreeSet<T> {
    type Item = T;
    // std: BTreeSet::iter "gets an iterator that visits the elements in the BTreeSet in ascending order":
    // each element exactly once (axiom_btreeset_seq)
    uninterp spec fn seq_view(&self) -> Seq<T>;
}
#[verifier::external_body]
pub proof fn axiom_btreeset_seq<T>(s: BTreeSet<T>)
    ensures
        s.seq_view().no_duplicates(),
        forall|x: T| s.seq_view().contains(x) <==> s@.contains(x),
{}

#[verifier::external_body]
pub fn iter_seq<'a, C: IterSeqExec + ?Sized>(c: &'a C) -> (v: Vec<&'a <C as IterSeq>::Item>)
    ensures
        v@.len() == c.seq_view().len(),
        forall|i: int| 0 <= i < v@.len() ==> *#[trigger] v@[i] == c.seq_view()[i],
{
    c.iter_seq_exec()
}
#[verifier::external]
pub trait IterSeqExec: IterSeq {
    fn iter_seq_exec(&self) -> Vec<&<Self as IterSeq>::Item>;
}
#[verifier::external]
impl<T> IterSeqExec for [T] { fn iter_seq_exec(&self) -> Vec<&T> { self.iter().collect() } }
#[verifier::external]
impl<T> IterSeqExec for BTreeSet<T> { fn iter_seq_exec(&self) -> Vec<&T> { self.iter().collect() } }
