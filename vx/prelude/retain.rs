// ---- prelude/retain.rs: `HashMap::retain` with a predicate that only reads (rule C_RETAIN_MAP of rules.py) ----
// std, HashMap::retain: "Retains only the elements specified by the predicate. In other words, remove all pairs
// (k, v) for which f(&k, &mut v) returns false. The elements are visited in unsorted (and unspecified) order."
// Transcribed for a predicate `f(&k, &v)` that cannot modify the value: every pair that stays was in the map, is
// unchanged and satisfies f; every pair that goes does not satisfy f.  What f says about a pair is the closure's own
// specification (`call_ensures`), which rule C_RETAIN_MAP writes next to the closure: its result is its body.
#[verifier::external_body]
pub fn map_retain<K: Eq + core::hash::Hash, V, S: core::hash::BuildHasher, F: Fn(&K, &V) -> bool>(m: &mut HashMap<K, V, S>, f: F)
    requires
        forall|k: K, v: V| call_requires(f, (&k, &v)),
    ensures
        forall|k: K| #[trigger] final(m)@.contains_key(k) ==> old(m)@.contains_key(k) && final(m)@[k] == old(m)@[k]
            && call_ensures(f, (&k, &old(m)@[k]), true),
        forall|k: K| #[trigger] old(m)@.contains_key(k) && !final(m)@.contains_key(k) ==> call_ensures(f, (&k, &old(m)@[k]), false),
{
    m.retain(|k, v| f(k, v))
}
