// ---- prelude/net.rs: trusted std specifications used by unit NET (DESIGN.md 3.4) ----
//
// MODELLING ASSUMPTION A-NET-WRAP: `stateright::util::HashableHashSet<V>` / `HashableHashMap<K, V>` are
// newtypes over `std::collections::HashSet<V, S>` / `HashMap<K, V, S>` with a fixed-seed hasher; they
// implement `Deref` / `DerefMut` to the std collection and add no method that `Network` uses. Unit NET
// therefore maps the two field types to the std collections (`map:` lines of the `/*@item` directive) and
// reasons with vstd's specifications of `HashSet` / `HashMap` (which need `obeys_key_model::<K>()`).

// `Option::replace`: "Replaces the actual value in the option by the value given in parameter, returning
// the old value if present, leaving a `Some` in its place without deinitializing either one."
pub assume_specification<T>[Option::<T>::replace](o: &mut Option<T>, v: T) -> (r: Option<T>)
    ensures
        r == *old(o),
        *final(o) == Some(v);

// `Iterator::position` over `VecDeque::iter()` with the predicate `|x| x == needle`:
// `VecDeque::iter`: "Returns a front-to-back iterator."  `Iterator::position`: "Searches for an element in
// an iterator, returning its index. [...] position() is short-circuiting; in other words, it will stop
// processing as soon as it finds a true. [...] If none of the elements return true, returns None."
// Hence: the least index whose element satisfies `x == needle` (PartialEq::eq, modelled by `eq_spec`).
#[verifier::external_body] pub fn deque_position_eq<T: PartialEq>(q: &VecDeque<T>, needle: &T) -> (r: Option<usize>)
    ensures
        T::obeys_eq_spec() ==> match r {
            Some(i) => i < q@.len() && q@[i as int].eq_spec(needle)
                && forall|j: int| 0 <= j < i ==> !(#[trigger] q@[j]).eq_spec(needle),
            None => forall|j: int| 0 <= j < q@.len() ==> !(#[trigger] q@[j]).eq_spec(needle),
        },
{
    q.iter().position(|x| x == needle)
}

// `VecDeque::get`: "Provides a reference to the element at the given index. Element at index 0 is the front
// of the queue." (None if out of bounds).
pub assume_specification<T, A: std::alloc::Allocator>[VecDeque::<T, A>::get](q: &VecDeque<T, A>, i: usize) -> (r: Option<&T>)
    ensures
        r == (if i < q@.len() { Some(&q@[i as int]) } else { None::<&T> });

// `VecDeque::front`: "Provides a reference to the front element, or None if the deque is empty."
pub assume_specification<T, A: std::alloc::Allocator>[VecDeque::<T, A>::front](q: &VecDeque<T, A>) -> (r: Option<&T>)
    ensures
        r == (if q@.len() > 0 { Some(&q@[0]) } else { None::<&T> });

// ---- further `VecDeque` operations a flow can be edited / inspected with (std::collections::VecDeque) ----
// `VecDeque::swap_remove_back`: "Removes an element from anywhere in the deque and returns it, replacing it with the
// last element. This does not preserve ordering, but is O(1). Returns None if index is out of bounds. Element at
// index 0 is the front of the queue."
pub assume_specification<T, A: std::alloc::Allocator>[VecDeque::<T, A>::swap_remove_back](q: &mut VecDeque<T, A>, index: usize) -> (r: Option<T>)
    ensures
        index < old(q)@.len() ==> r == Some(old(q)@[index as int])
            && final(q)@ == old(q)@.update(index as int, old(q)@.last()).drop_last(),
        index >= old(q)@.len() ==> r is None && final(q)@ == old(q)@;

// `VecDeque::swap_remove_front`: "Removes an element from anywhere in the deque and returns it, replacing it with the
// first element. This does not preserve ordering, but is O(1). Returns None if index is out of bounds. Element at
// index 0 is the front of the queue."
pub assume_specification<T, A: std::alloc::Allocator>[VecDeque::<T, A>::swap_remove_front](q: &mut VecDeque<T, A>, index: usize) -> (r: Option<T>)
    ensures
        index < old(q)@.len() ==> r == Some(old(q)@[index as int])
            && final(q)@ == old(q)@.update(index as int, old(q)@.first()).drop_first(),
        index >= old(q)@.len() ==> r is None && final(q)@ == old(q)@;

// `VecDeque::back`: "Provides a reference to the back element, or None if the deque is empty."
pub assume_specification<T, A: std::alloc::Allocator>[VecDeque::<T, A>::back](q: &VecDeque<T, A>) -> (r: Option<&T>)
    ensures
        r == (if q@.len() > 0 { Some(&q@[q@.len() - 1]) } else { None::<&T> });

// `VecDeque::is_empty`: "Returns true if the deque is empty."
pub assume_specification<T, A: std::alloc::Allocator>[VecDeque::<T, A>::is_empty](q: &VecDeque<T, A>) -> (r: bool)
    ensures
        r == (q@.len() == 0);

// `VecDeque::contains`: "Returns true if the deque contains an element equal to the given value." (equality is
// `PartialEq::eq`, modelled by `eq_spec` exactly as in `deque_position_eq` above)
pub assume_specification<T: PartialEq, A: std::alloc::Allocator>[VecDeque::<T, A>::contains](q: &VecDeque<T, A>, x: &T) -> (r: bool)
    ensures
        T::obeys_eq_spec() ==> r == (exists|j: int| 0 <= j < q@.len() && (#[trigger] q@[j]).eq_spec(x));

// ---- constructors (`Network::new_*`) ----
// `crate::stable::build_hasher()` of /repo returns the fixed-seed `BuildHasher` of the Hashable* wrappers. Under
// A-NET-WRAP the collections are std collections with the default hasher type, so the call is kept and given an
// opaque stand-in; no contract mentions the hasher (vstd's `builds_valid_hashers` holds for `RandomState`).
pub mod stable {
    use super::*;
    #[verifier::external_body] pub fn build_hasher() -> std::collections::hash_map::RandomState { std::collections::hash_map::RandomState::new() }
}

// `HashSet::with_hasher`: "Creates a new empty hash set which will use the given hasher to hash keys."
pub assume_specification<T, S>[HashSet::<T, S>::with_hasher](hasher: S) -> (r: HashSet<T, S>)
    ensures
        r@ == Set::<T>::empty();

// `HashMap::with_hasher`: "Creates an empty HashMap which will use the given hash builder to hash keys."
pub assume_specification<K, V, S>[HashMap::<K, V, S>::with_hasher](hash_builder: S) -> (r: HashMap<K, V, S>)
    ensures
        r@ == Map::<K, V>::empty();
