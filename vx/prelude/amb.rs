// ---- prelude/amb.rs: what unit AMB (the builder methods of `ActorModel`, /repo/src/actor/model.rs) adds to
// prelude/am.rs. Included inside `verus! { }`, after prelude/actor.rs and prelude/am.rs (which give `Id`, `Actor`,
// `Envelope`, `Network`, `RecordFn`, `BoundaryFn`). Everything marked TRUSTED is an assumption of AMB.
// The including unit needs what prelude/am.rs needs, and `use std::fmt::Debug;`.

// `enum Expectation { Always, Eventually, Sometimes }` (copied from /repo; derives dropped)
/*@item src/lib.rs :: enum Expectation
@*/

// `Property<M>.condition: fn(&M, &M::State) -> bool` at `M = ActorModel<A, C, H>`. `ActorModel` holds a
// `Vec<Property<ActorModel<..>>>`, i.e. the model type occurs in its own definition under a fn-pointer argument (a
// negative position), which Verus rejects for any datatype. The unit therefore copies `Property` with `M` FLATTENED to
// the three parameters of the model (`Property<A, C, H>` stands for `Property<ActorModel<A, C, H>>`), and the pointer
// becomes this opaque type: a value that can be stored, moved and compared, never called by a function under
// contract in AMB (the builder only stores it). Nothing is assumed about it.
#[verifier::external_body]
#[verifier::reject_recursive_types(A)]
#[verifier::reject_recursive_types(C)]
#[verifier::reject_recursive_types(H)]
struct PropCondFn<A: Actor, C, H: Clone + Debug + Hash> { f: fn(&ActorModel<A, C, H>, &ActorModelState<A, H>) -> bool }

// `within_boundary` as a function of its arguments (A-PURE, as `record_apply` of prelude/am.rs): only used to say
// which function `ActorModel::new` installs; no exec function calls a `BoundaryFn` in AMB.
uninterp spec fn boundary_apply<C, S>(f: BoundaryFn<C, S>, cfg: C, s: S) -> bool;

// Rule WILD_FNPTR: a closure all of whose parameters are `_` and whose body is a literal / constant path `K`,
// coerced to a fn-pointer field that the unit maps to an opaque type, is the constant function `K`. The opaque
// types say what "is the constant function" means in terms of their `*_apply` functions.
trait ConstFnPtr: Sized {
    type Out;
    spec fn always_returns(&self, v: Self::Out) -> bool;
    // TRUSTED in each impl (Rust reference, closure types: "A closure expression `|_, ..| K` ignores its
    // arguments and evaluates `K`"; non-capturing closures coerce to `fn` pointers with the same behaviour)
    fn from_const(v: Self::Out) -> (r: Self)
        ensures r.always_returns(v);
}
impl<C, H, Msg> ConstFnPtr for RecordFn<C, H, Msg> {
    type Out = Option<H>;
    spec fn always_returns(&self, v: Option<H>) -> bool {
        forall|cfg: C, history: H, e: Envelope<Msg>| #[trigger] record_apply(*self, cfg, history, e) == v
    }
    #[verifier::external_body]
    fn from_const(v: Option<H>) -> (r: Self) { unimplemented!() }
}
impl<C, S> ConstFnPtr for BoundaryFn<C, S> {
    type Out = bool;
    spec fn always_returns(&self, v: bool) -> bool {
        forall|cfg: C, s: S| #[trigger] boundary_apply(*self, cfg, s) == v
    }
    #[verifier::external_body]
    fn from_const(v: bool) -> (r: Self) { unimplemented!() }
}

// MODULAR CONTRACT of the three `Network` constructors (/repo/src/actor/network.rs; unit NET proves
// `new_*.ensures.view`: the result is the fold of `send` over the envelopes, from `UnorderedDuplicating(<empty set>,
// None)` / `UnorderedNonDuplicating(<empty map>)` / `Ordered(<empty map>)`). AMB only needs the case of NO envelopes
// (`ActorModel::new` passes `[]`): the fold over nothing is the start value. Nothing is said for N > 0. The two
// constructors that `new` does not call are listed (with the variant only) so that a `new` that picks another network
// kind fails `new.ensures.init-network` instead of leaving the unit undecided.
impl<Msg: Eq + Hash> Network<Msg> {
    #[verifier::external_body]
    fn new_unordered_duplicating<const N: usize>(envelopes: [Envelope<Msg>; N]) -> (r: Self)
        ensures N == 0 ==> (r matches Network::UnorderedDuplicating(set, last) && set@ == Set::<Envelope<Msg>>::empty() && last is None)
    { unimplemented!() }
    #[verifier::external_body]
    fn new_unordered_nonduplicating<const N: usize>(envelopes: [Envelope<Msg>; N]) -> (r: Self)
        ensures N == 0 ==> r is UnorderedNonDuplicating
    { unimplemented!() }
    #[verifier::external_body]
    fn new_ordered<const N: usize>(envelopes: [Envelope<Msg>; N]) -> (r: Self)
        ensures N == 0 ==> r is Ordered
    { unimplemented!() }
}
