// ---- prelude/model_path_assumed.rs: split out of prelude/model.rs (include it right after model.rs) ----
// For the units that CALL `Path::from_fingerprints` (CB, OND).  Unit PATH proves this contract for the real
// function of /repo/src/checker/path.rs (`PATH.from_fingerprints.*`); the precondition PATH needs is the one
// below PLUS collision freedom of fingerprints on the states the walk meets (`fp_inj_walk`), and lemma
// `PATH.lemma.assumed_contract_derivable` shows that the precondition below implies PATH's precondition when
// `fp_of` is injective (A-FP collision freedom, DESIGN.md 3.4 item 2).  The four postconditions are the same.
//
// `Path::from_fingerprints` is verified in unit PATH; here it is an external function with the
// contract of DESIGN.md C03(a).  It panics when no init state / no successor has the wanted
// fingerprint, hence the precondition: some run of the model has these fingerprints (with A-FP and
// A-PURE the greedy search of the real function then finds one).  The result is such a run.
impl<State, Action> Path<State, Action> {
    #[verifier::external_body]
    fn from_fingerprints<M>(model: &M, fingerprints: VecDeque<Fingerprint>) -> (p: Self)
        where M: Model<State = State, Action = Action>, M::State: Hash
        requires
            exists|ss: Seq<State>| is_chain(*model, ss) && #[trigger] has_fps(ss, fingerprints@),
        ensures
            is_chain(*model, path_states(p)),
            has_fps(path_states(p), fingerprints@),
            forall|i: int| 0 <= i < p.0@.len() - 1 ==> (#[trigger] p.0@[i]).1.is_some()
                && model.acts(p.0@[i].0).contains(p.0@[i].1.unwrap())
                && model.nxt(p.0@[i].0, p.0@[i].1.unwrap()) == Some(p.0@[i + 1].0),
            p.0@.last().1.is_none(),
    { unimplemented!() }
}
