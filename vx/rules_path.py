"""Desugaring rules for unit PATH (checker/path.rs).  DESIGN.md 3.2, family R11 (iterator consumers
Verus lacks) plus two small ones.

Every rule is a generic syntactic idiom with captures; the captured sub-expressions (receiver,
closure pattern, closure body, loop body) are re-emitted unchanged, so an edit inside them reaches
the verifier.  A rule returns (new_body, times_fired); 0 for a rule listed in the unit = lost anchor
(UNDECIDED), and a shape the rule cannot translate faithfully raises LostAnchor - never a guess.

  P_UNWRAP_PANIC   `.unwrap_or_else(|| panic!(..))`            -> `.unwrap()`      (message arguments dropped)
  P_FIND           `E.into_iter().find(|P| C)`                 -> front-to-back loop over the vector E
  P_FIND_MAP       `E.into_iter().find_map(|PAT| BODY)`        -> front-to-back loop over the vector E
  P_MAP_COLLECT    `E.into_iter().map(|PAT| BODY).collect()`   -> front-to-back loop pushing BODY
  P_FMAP_COLLECT   `E.into_iter().filter_map(|PAT| BODY).collect()` -> the same, pushing the `Some` results
  P_VEC_CONTAINS   `E.contains(&X)`                            -> `vec_contains(&E, &X)`   (prelude/path.rs)
  P_PROVIDED       `X.next_steps(A)` / `X.next_states(A)`      -> `next_steps(X, A)` / `next_states(X, A)` (prelude/path.rs)
  P_FOR_REFS       parameter `P: impl IntoIterator<Item = &'a T>` consumed by `for X in P { B }`
                                                               -> `P: &[&'a T]` and an index loop
  P_MUT_PARAM      `fn f(mut X: T, ..) { B }`                  -> `fn f(X: T, ..) { let mut X = X; B }`

The loops consume the vector with `remove(0)` (std: "Removes and returns the element at position
index within the vector, shifting all elements after it to the left"), which is what
`Vec::into_iter()` + a short-circuiting consumer do: elements are visited front to back, the search
stops at the first hit, and the elements not visited are dropped without being looked at.
"""
import re

from extract import LostAnchor, code_mask, match_close
from rules import IDENT

WS = ' \t\r\n'


def _skip_ws(text, k):
    while k < len(text) and text[k] in WS:
        k += 1
    return k


def _skip_ws_back(text, k):
    while k > 0 and text[k - 1] in WS:
        k -= 1
    return k


def _match_open(text, k, mask):
    """text[k] is a closing bracket; index of its opening partner (scanning backwards)."""
    depth = 0
    for j in range(k, -1, -1):
        if not mask[j]:
            continue
        c = text[j]
        if c in ')]}':
            depth += 1
        elif c in '([{':
            depth -= 1
            if depth == 0:
                return j
    raise LostAnchor('unbalanced bracket (backwards)')


def _postfix_start(text, end, mask):
    """Start of the postfix expression (identifiers, `.`, `::`, call / index brackets; white space
    around `.`) that ends at `end` (exclusive).  Prefix operators and keywords are not part of it."""
    k = end
    while True:
        j = _skip_ws_back(text, k)
        if j == 0:
            return k
        c = text[j - 1]
        if c in ')]' and mask[j - 1]:
            k = _match_open(text, j - 1, mask)
            jj = _skip_ws_back(text, k)
            if jj > 0 and jj == k and (text[jj - 1].isalnum() or text[jj - 1] in '_)]'):
                continue            # a call / index: the callee is in front of it
            return k                # a parenthesised expression
        if c.isalnum() or c == '_':
            while j > 0 and (text[j - 1].isalnum() or text[j - 1] == '_'):
                j -= 1
            k = j
            jj = _skip_ws_back(text, k)
            if jj > 0 and text[jj - 1] == '.' and not (jj > 1 and text[jj - 2] == '.'):
                k = jj - 1
                continue
            if jj > 1 and text[jj - 2:jj] == '::':
                k = jj - 2
                continue
            return k
        return k


def _closure(body, po, mask, what):
    """body[po] is the `(` of an adapter call whose only argument is a closure `|PAT| BODY`.
    -> (PAT, BODY, index of the closing paren)."""
    pc = match_close(body, po, mask)
    k = _skip_ws(body, po + 1)
    if body[k] != '|':
        raise LostAnchor('%s: the argument is not a closure' % what)
    k2 = body.find('|', k + 1)
    if k2 < 0 or k2 > pc:
        raise LostAnchor('%s: closure parameter list not closed' % what)
    pat = body[k + 1:k2].strip()
    if not pat or ':' in pat or '|' in pat:
        raise LostAnchor('%s: closure parameter `%s` is not a plain pattern' % (what, pat))
    expr = body[k2 + 1:pc].strip().rstrip(',').strip()
    if not expr:
        raise LostAnchor('%s: empty closure body' % what)
    # `return` / `?` inside the closure would leave the closure, not the function: not translatable
    m = code_mask(expr)
    for mm in re.finditer(r'(?<![A-Za-z0-9_])return(?![A-Za-z0-9_])|\?', expr):
        if m[mm.start()]:
            raise LostAnchor('%s: `return` / `?` inside the closure body' % what)
    return pat, expr, pc


def _adapter(body, name_rx, what, build):
    """Rewrite every `E.into_iter().NAME(|PAT| BODY)TAIL` (first to last).  `build(E, PAT, BODY)` gives the
    replacement block; `name_rx` matches from `.into_iter()` up to and including the `(` of the consumer
    and may be followed by a fixed TAIL regex (group 'tail') that must follow the closing paren."""
    n = 0
    head_rx = re.compile(r'\.\s*into_iter\s*\(\s*\)\s*\.\s*' + name_rx[0] + r'\s*\(')
    tail_rx = re.compile(name_rx[1]) if name_rx[1] else None
    start = 0
    while True:
        mask = code_mask(body)
        hit = None
        for m in head_rx.finditer(body, start):
            if mask[m.start()]:
                hit = m
                break
        if not hit:
            break
        po = hit.end() - 1
        pat, expr, pc = _closure(body, po, mask, what)
        end = pc + 1
        if tail_rx:
            mt = tail_rx.match(body, end)
            if not mt:
                start = hit.end()       # another consumer of the same adapter (e.g. `.map(..).sum()`): not ours
                continue
            end = mt.end()
        k = _postfix_start(body, hit.start(), mask)
        recv = body[k:hit.start()].strip()
        if not recv:
            raise LostAnchor('%s: no receiver expression' % what)
        new = build(recv, pat, expr)
        body = body[:k] + new + body[end:]
        start = k + len(new)
        n += 1
    return body, n


def P_FIND(body, ctx):
    """`E.into_iter().find(|P| C)`   (E a `Vec`; the closure sees `&Item`)
    -> `{ let mut v_ = E; let mut r_ = None;
          while v_.len() > 0 { let x_ = v_.remove(0); let hit_ = { let P = &x_; C }; if hit_ { r_ = Some(x_); break; } }
          r_ }`
    std `Iterator::find`: "Searches for an element of an iterator that satisfies a predicate ... applies
    the closure to each element ... if any of them return true, then find() returns Some(element) ...
    short-circuiting".  `let P = &x_;` binds exactly as the closure parameter does (default binding modes
    for a tuple pattern against a reference).  E, P and C are re-emitted unchanged."""
    def build(recv, pat, expr):
        return ('{ let mut v_ = %s; let mut r_ = None;\n'
                '            while v_.len() > 0 { let x_ = v_.remove(0); let hit_ = { let %s = &x_; %s }; if hit_ { r_ = Some(x_); break; } }\n'
                '            r_ }' % (recv, pat, expr))
    return _adapter(body, (r'find', None), 'P_FIND', build)


def P_FIND_MAP(body, ctx):
    """`E.into_iter().find_map(|PAT| BODY)`   (E a `Vec`; the closure takes the item by value)
    -> `{ let mut v_ = E; let mut r_ = None;
          while v_.len() > 0 { let PAT = v_.remove(0); let o_ = BODY; if o_.is_some() { r_ = o_; break; } }
          r_ }`
    std `Iterator::find_map`: "Applies function to the elements of iterator and returns the first
    non-none result".  E, PAT and BODY are re-emitted unchanged."""
    def build(recv, pat, expr):
        return ('{ let mut v_ = %s; let mut r_ = None;\n'
                '            while v_.len() > 0 { let %s = v_.remove(0); let o_ = %s; if o_.is_some() { r_ = o_; break; } }\n'
                '            r_ }' % (recv, pat, expr))
    return _adapter(body, (r'find_map', None), 'P_FIND_MAP', build)


def P_MAP_COLLECT(body, ctx):
    """`E.into_iter().map(|PAT| BODY).collect()`   (E a `Vec`, collected into a `Vec` by the return type)
    -> `{ let mut v_ = E; let mut out_ = Vec::new();
          while v_.len() > 0 { let PAT = v_.remove(0); let y_ = BODY; out_.push(y_); } out_ }`"""
    def build(recv, pat, expr):
        return ('{ let mut v_ = %s; let mut out_ = Vec::new();\n'
                '            while v_.len() > 0 { let %s = v_.remove(0); let y_ = %s; out_.push(y_); }\n'
                '            out_ }' % (recv, pat, expr))
    return _adapter(body, (r'map', r'\s*\.\s*collect\s*\(\s*\)'), 'P_MAP_COLLECT', build)


def P_FMAP_COLLECT(body, ctx):
    """`E.into_iter().filter_map(|PAT| BODY).collect()`   (E a `Vec`, collected into a `Vec`)
    -> `{ let mut v_ = E; let mut out_ = Vec::new();
          while v_.len() > 0 { let PAT = v_.remove(0); let y_ = BODY; if let Some(z_) = y_ { out_.push(z_); } } out_ }`"""
    def build(recv, pat, expr):
        return ('{ let mut v_ = %s; let mut out_ = Vec::new();\n'
                '            while v_.len() > 0 { let %s = v_.remove(0); let y_ = %s; if let Some(z_) = y_ { out_.push(z_); } }\n'
                '            out_ }' % (recv, pat, expr))
    return _adapter(body, (r'filter_map', r'\s*\.\s*collect\s*\(\s*\)'), 'P_FMAP_COLLECT', build)


def P_UNWRAP_PANIC(body, ctx):
    """`.unwrap_or_else(|| panic!(ARGS))` / `.unwrap_or_else(|| { panic!(ARGS); })`  ->  `.unwrap()`
    Both panic exactly when the option is `None`, and Verus turns the panic into the obligation
    "unreachable" (here: the precondition of `unwrap`).  DROPPED: the panic message ARGS.  The closure is
    only run on the panic path, so its arguments (which may call model callbacks to build the message)
    never influence a run that does not panic."""
    n = 0
    rx = re.compile(r'\.\s*unwrap_or_else\s*\(')
    start = 0
    while True:
        mask = code_mask(body)
        hit = None
        for m in rx.finditer(body, start):
            if mask[m.start()]:
                hit = m
                break
        if not hit:
            break
        po = hit.end() - 1
        pc = match_close(body, po, mask)
        start = hit.end()
        k = _skip_ws(body, po + 1)
        mm = re.match(r'\|\s*\|', body[k:])
        if not mm:
            continue
        k = _skip_ws(body, k + mm.end())
        e = _skip_ws_back(body, pc)
        if body[k] == '{' and match_close(body, k, mask) == e - 1:
            k = _skip_ws(body, k + 1)
            e = _skip_ws_back(body, e - 1)
            if body[e - 1] == ';':
                e = _skip_ws_back(body, e - 1)
        mp = re.match(r'panic\s*!\s*\(', body[k:])
        if not mp:
            continue
        if match_close(body, k + mp.end() - 1, mask) != e - 1:
            continue            # something besides the single panic!: not this idiom
        body = body[:hit.start()] + '.unwrap()' + body[pc + 1:]
        start = hit.start()
        n += 1
    return body, n


def P_VEC_CONTAINS(body, ctx):
    """`E.contains(&X)`  (E a `Vec<T>`, `T: PartialEq`)  ->  `vec_contains(&E, &X)`  (prelude/path.rs, requires
    `eq_lawful::<T>()`; std: "Returns true if the slice contains an element with the given value").
    E and X are re-emitted unchanged."""
    n = 0
    rx = re.compile(r'\.\s*contains\s*\(')
    start = 0
    while True:
        mask = code_mask(body)
        hit = None
        for m in rx.finditer(body, start):
            if mask[m.start()]:
                hit = m
                break
        if not hit:
            break
        po = hit.end() - 1
        pc = match_close(body, po, mask)
        arg = body[po + 1:pc].strip()
        k = _postfix_start(body, hit.start(), mask)
        recv = body[k:hit.start()].strip()
        if not recv or not arg.startswith('&'):
            raise LostAnchor('P_VEC_CONTAINS: not of the form `E.contains(&X)`')
        new = 'vec_contains(&%s, %s)' % (recv, arg)
        body = body[:k] + new + body[pc + 1:]
        start = k + len(new)
        n += 1
    return body, n


PROVIDED = ('next_steps', 'next_states')


def P_PROVIDED(body, ctx):
    """`X.next_steps(ARGS)` / `X.next_states(ARGS)` (provided methods of `trait Model`, X an identifier)
    -> `next_steps(X, ARGS)` / `next_states(X, ARGS)`: the prelude functions that carry the contract of
    the default method bodies (prelude/path.rs).  X and ARGS are re-emitted unchanged."""
    n = 0
    rx = re.compile(r'(?<![A-Za-z0-9_.])(%s)\s*\.\s*(%s)\s*\(' % (IDENT, '|'.join(PROVIDED)))
    start = 0
    while True:
        mask = code_mask(body)
        hit = None
        for m in rx.finditer(body, start):
            if mask[m.start()]:
                hit = m
                break
        if not hit:
            break
        new = '%s(%s, ' % (hit.group(2), hit.group(1))
        po = hit.end() - 1
        pc = match_close(body, po, mask)
        if not body[po + 1:pc].strip():
            new = '%s(%s' % (hit.group(2), hit.group(1))
        body = body[:hit.start()] + new + body[hit.end():]
        start = hit.start() + len(new)
        n += 1
    return body, n


def P_FOR_REFS(body, ctx):
    """A parameter `P: impl IntoIterator<Item = &'a T>` whose only use is `for X in P { B }` (a method or field
    that happens to have the parameter's name, `m.P(..)`, is not a use of the parameter)
    -> `P: &[&'a T]` and `{ let mut k_: usize = 0; while k_ < P.len() { let X = P[k_]; k_ += 1; B } }`.
    The function consumes the iterable once, front to back; a slice of references is the finite sequence
    of items any such iterable yields (iterables that never end or have side effects are outside the
    contract).  The counter is bumped before B so that a `continue` in B keeps the order.  X and B are
    re-emitted unchanged."""
    n = 0
    rxp = re.compile(r'(?<![A-Za-z0-9_])(%s)\s*:\s*impl\s+IntoIterator\s*<\s*Item\s*=\s*(&\s*(?:\'%s\s+)?[^>]*?)\s*>' % (IDENT, IDENT))
    while True:
        m = rxp.search(ctx['params'])
        if not m:
            break
        p, item = m.group(1), m.group(2).strip()
        mask = code_mask(body)
        # uses of the parameter: the identifier P, not a method / field of the same name (`x.P(..)`, `x.P`; `a..P` is a use)
        def _is_member(k):
            j = _skip_ws_back(body, k)
            return j > 0 and body[j - 1] == '.' and not (j > 1 and body[j - 2] == '.')
        uses = [u for u in re.finditer(r'(?<![A-Za-z0-9_])' + re.escape(p) + r'(?![A-Za-z0-9_])', body)
                if mask[u.start()] and not _is_member(u.start())]
        mf = None
        for f in re.finditer(r'(?<![A-Za-z0-9_.])for\s+(.+?)\s+in\s+' + re.escape(p) + r'\s*\{', body):
            if mask[f.start()]:
                mf = f
                break
        if not mf or len(uses) != 1:
            raise LostAnchor('P_FOR_REFS: parameter `%s` is not consumed by exactly one `for X in %s`' % (p, p))
        ob = mf.end() - 1
        cb = match_close(body, ob, mask)
        new = ('{ let mut k_: usize = 0;\n        while k_ < %s.len() { let %s = %s[k_]; k_ += 1;' % (p, mf.group(1), p)
               + body[ob + 1:cb] + '} }')
        body = body[:mf.start()] + new + body[cb + 1:]
        ctx['params'] = ctx['params'][:m.start()] + '%s: &[%s]' % (p, item) + ctx['params'][m.end():]
        n += 1
    return body, n


def P_MUT_PARAM(body, ctx):
    """`fn f(.., mut X: T, ..) { B }` -> `fn f(.., X: T, ..) { let mut X = X; B }` (what `mut` on a by-value
    parameter means).  Contracts name the parameter, i.e. the value passed in."""
    n = 0
    lets = []
    while True:
        m = re.search(r'(^|,)\s*mut\s+(%s)\s*:' % IDENT, ctx['params'])
        if not m:
            break
        x = m.group(2)
        ctx['params'] = ctx['params'][:m.start()] + m.group(1) + ' ' + x + ':' + ctx['params'][m.end():]
        lets.append('\n        let mut %s = %s;' % (x, x))
        n += 1
    return ''.join(lets) + body, n
