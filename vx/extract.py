#!/usr/bin/env python3
"""VX extractor: builds one Verus file (a *unit*) from a unit template plus function / item text
copied mechanically from the current /repo working tree.

Template directives (see DESIGN.md 3.2/3.3):

  //@unit NAME props: C20 C04
  /*@item FILE :: struct Foo
  prefix: #[verifier::reject_recursive_types(T)]
  @*/
  /*@fn FILE :: IMPL-HEADER-or-"-" :: NAME
  props: C20
  rename: new_name
  rules: R1 R4 R11|R11E      (`A|B`: alternative spellings of one idiom; together they must fire at least once)
  sig: <replacement signature up to (not including) the body>      (only for documented drops)
  requires:
      [label] expr
  ensures:
      [label] expr
  loop K:
      invariant [label] expr
      decreases expr
  hint <where>:
      verus statements
  @*/
  where <where> is one of: start | end | loop K before | loop K start | loop K end | loop K after | loop K continue
  | [in loop K] before|after [stmt] `text` [#n|#*]   (#* = every occurrence, at least one)
    loop K continue : before every unlabelled `continue` whose innermost loop is loop K (none = nothing to say)
    in loop K       : the text is looked for (and counted) inside the body of loop K only
    stmt            : before / after the whole STATEMENT that contains the text - the statement of the top level of
                      the scope (the fn body, or the body of loop K with `in loop K`), whatever it binds or tests
  `$guard(K)` in a loop clause or a hint stands for `(COND)` of the `if COND {` whose block is the innermost block around
  loop K: the decision whether loop K runs, whatever temporaries it is computed from (see guard_of).

  /*@fnrange FILE :: IMPL-HEADER-or-"-" :: NAME          a contiguous range of top-level statements of fn NAME
  from: `text the first statement of the range starts with`
  to: `text the first statement AFTER the range starts with`     (exclusive)
  as: fn new_name<G>(params) -> RetType where ..               signature of the free function the range is wrapped in
  returns: (local_a, local_b)                                  tail expression appended after the range (locals of the range)
  ... every other key of /*@fn (props, rules, requires, ensures, loop K, hint ..)
  @*/
  The statements of the range are copied verbatim (then treated exactly like a /*@fn body); everything of NAME
  before `from` and from `to` on is NOT part of the verified text.  Either anchor missing / ambiguous = LostAnchor.
  Further keys of /*@fnrange (unit LOOP):
  in: `text that ends with {`      (repeatable, applied in order) BEFORE the range is cut, descend into the block opened by the
                                   `{` that ends the given text: the text must occur exactly once (white space ignored, code only)
                                   in the current block - the fn body at first, then the block of the previous `in:`.  The
                                   range is then a range of the top-level statements of THAT block (a closure body, a loop
                                   body, ..).  Everything outside the block is NOT verified; per step the report records the
                                   enclosing statement and the number of statements before / after it (`range.descents`).
  from: <start-of-block>           the range starts with the first statement of the block
  to: <end-of-block>               the range extends to the last statement of the block
  expect_before: N / expect_after: N    shape guards: the block has exactly N statements before `from` / from `to` on
                                   (e.g. `expect_before: 0` = the range starts the block; anything else = LostAnchor)

  check [label] <where>:           in /*@fn and /*@fnrange: like `hint <where>:`, but the inserted `assert(..)` lines are an
      assert(expr);                obligation of their own, NAME.<fn>.check.<label> (a failing assert is reported under this
                                   name instead of NAME.<fn>.body; Verus assumes the asserted fact afterwards, so `.body`
                                   is the no-panic obligation of the rest).  For a panic condition that is a finding of its own.
  check [label] at `text`:         (no lines) nothing is inserted: the errors Verus reports on the LINE of `text` (failed
                                   preconditions of the calls made there) are the obligation NAME.<fn>.check.<label>

  /*@stub ../units/U.vrs :: fn_name @*/   the contract of the `/*@fn .. :: fn_name` directive of ANOTHER unit's template, emitted
                                   as a callee-side contract stub: signature built from /repo exactly as unit U builds it (its
                                   rules / sigmap), U's `requires:` / `ensures:` text verbatim, body `unimplemented!()`, marked
                                   `// PROVED-IN: U.fn_name` + `#[verifier::external_body]`.  No obligation here: the real body
                                   is proved against the same text by unit U.

  //@usespec FILE :: name1 name2 ..   (FILE relative to vx/) copies the named `spec fn` / `type` / `struct` items, with
  their attributes, verbatim from another template or prelude file (`*` = every such item of the file): the vocabulary
  of another unit can be talked about without re-typing it.  No `proof fn` is ever copied (no obligation is duplicated).

  //@uselemma FILE :: lemma1 lemma2 ..   copies the named `proof fn` items (with the comment lines above them) verbatim
  from another template: a pure lemma of another unit (e.g. a fact about permutations) is PROVED AGAIN in the including
  unit, as that unit's own obligation `UNIT.lemma.<name>`; the other unit's obligations are untouched.

The body text of every function is copied verbatim; only the generic rules of rules.py touch it.
Everything the extractor cannot place is a LostAnchor (exit 2 = undecided), never a violation.
"""
import hashlib
import json
import os
import re
import sys

sys.path.insert(0, os.path.dirname(os.path.abspath(__file__)))


class LostAnchor(Exception):
    pass


# --------------------------------------------------------------------------------------------
# Lexing helpers: a token stream that knows comments, strings, chars and lifetimes.
# --------------------------------------------------------------------------------------------

def scan(text):
    """Yield (kind, start, end) for kind in code|comment|string|char over `text`.
    'code' chunks are maximal runs of non-literal, non-comment text (single chars are fine)."""
    i, n = 0, len(text)
    while i < n:
        c = text[i]
        if text.startswith('//', i):
            j = text.find('\n', i)
            j = n if j < 0 else j
            yield ('comment', i, j)
            i = j
        elif text.startswith('/*', i):
            depth, j = 1, i + 2
            while j < n and depth:
                if text.startswith('/*', j):
                    depth += 1
                    j += 2
                elif text.startswith('*/', j):
                    depth -= 1
                    j += 2
                else:
                    j += 1
            yield ('comment', i, j)
            i = j
        elif c == '"' or (c in 'br' and re.match(r'(b?r#*"|b")', text[i:i + 12]) and (i == 0 or not (text[i - 1].isalnum() or text[i - 1] == '_'))):
            m = re.match(r'b?r(#*)"', text[i:])
            if m:
                close = '"' + m.group(1)
                j = text.find(close, i + m.end())
                j = n if j < 0 else j + len(close)
            else:
                j = i + (2 if c == 'b' else 1)
                while j < n and text[j] != '"':
                    j += 2 if text[j] == '\\' else 1
                j += 1
            yield ('string', i, j)
            i = j
        elif c == "'":
            # char literal or lifetime
            m = re.match(r"'(\\.[^']*|[^\\'])'", text[i:])
            if m:
                yield ('char', i, i + m.end())
                i += m.end()
            else:
                yield ('code', i, i + 1)
                i += 1
        else:
            yield ('code', i, i + 1)
            i += 1


def code_mask(text):
    """bytearray: 1 where the character is code (not in comment / string / char literal)."""
    mask = bytearray(len(text))
    for kind, a, b in scan(text):
        if kind == 'code':
            for k in range(a, b):
                mask[k] = 1
    return mask


def strip_comments(text):
    out = []
    for kind, a, b in scan(text):
        if kind == 'comment':
            # keep a newline-preserving blank so tokens do not fuse
            out.append(' ' if '\n' not in text[a:b] else '\n')
        else:
            out.append(text[a:b])
    return ''.join(out)


OPEN = {'(': ')', '[': ']', '{': '}'}
CLOSE = {v: k for k, v in OPEN.items()}


def match_close(text, i, mask=None):
    """text[i] is an opening bracket; return index of its matching close."""
    if mask is None:
        mask = code_mask(text)
    depth = 0
    for k in range(i, len(text)):
        if not mask[k]:
            continue
        c = text[k]
        if c in OPEN:
            depth += 1
        elif c in CLOSE:
            depth -= 1
            if depth == 0:
                return k
    raise LostAnchor('unbalanced bracket')


def find_top(text, pat, start=0, mask=None, end=None):
    """first index >= start of regex `pat` at bracket depth 0 (relative to start) in code."""
    if mask is None:
        mask = code_mask(text)
    rx = re.compile(pat)
    depth = 0
    end = len(text) if end is None else end
    k = start
    while k < end:
        if mask[k]:
            c = text[k]
            if depth == 0:
                m = rx.match(text, k)
                if m:
                    return m
            if c in OPEN:
                depth += 1
            elif c in CLOSE:
                depth -= 1
        k += 1
    return None


def norm_ws(s):
    return re.sub(r'\s+', ' ', s).strip()


# --------------------------------------------------------------------------------------------
# Item location
# --------------------------------------------------------------------------------------------

def find_header(text, header, mask):
    """Find an item whose header (text before its `{`), whitespace-normalised and with attributes
    removed, starts with `header`. Returns (start_of_header, index_of_open_brace)."""
    want = norm_ws(header)
    first = re.escape(re.match(r'[A-Za-z_]+', want).group(0))
    hits = []
    for m in re.finditer(r'(?<![A-Za-z0-9_])' + first + r'\b', text):
        s = m.start()
        if not mask[s]:
            continue
        # header ends at first `{` or `;` at depth 0 (parens, brackets, angle brackets ignored)
        mo = find_top(text, r'[{;]', s, mask)
        if not mo:
            continue
        got = norm_ws(strip_comments(text[s:mo.start()]))
        # tolerate `pub ` etc. before: we matched at the keyword itself
        if got == want or got.startswith(want + ' ') or got.startswith(want + '<') or got.startswith(want + '(') or got.startswith(want + '\n'):
            hits.append((s, mo.start(), got))
    exact = [h for h in hits if h[2] == want]
    if len(exact) == 1:
        hits = exact
    if not hits:
        raise LostAnchor('item not found: %s' % header)
    if len(hits) > 1:
        raise LostAnchor('item ambiguous (%d matches): %s' % (len(hits), header))
    return hits[0][0], hits[0][1]


def extract_item(repo, relfile, header, within=None):
    path = os.path.join(repo, relfile)
    try:
        text = open(path).read()
    except OSError:
        raise LostAnchor('file missing: %s' % relfile)
    mask = code_mask(text)
    if within:
        # `in:` of an /*@item: the item is looked for inside the brace block of that (impl) header only; everything
        # outside the block is blanked in the mask, so offsets stay those of the file
        ws, wob = find_header(text, within, mask)
        wcb = match_close(text, wob, mask)
        mask = bytearray(1 if (m and wob < k < wcb) else 0 for k, m in enumerate(mask))
    s, ob = find_header(text, header, mask)
    if text[ob] == ';':
        return text, s, ob, ob
    cb = match_close(text, ob, mask)
    return text, s, ob, cb


def extract_fn(repo, relfile, impl_header, name):
    """Return dict(sig=..., body=..., span=(line_a,line_b), raw=...) for fn `name`."""
    path = os.path.join(repo, relfile)
    try:
        text = open(path).read()
    except OSError:
        raise LostAnchor('file missing: %s' % relfile)
    mask = code_mask(text)
    lo, hi = 0, len(text)
    if impl_header.strip() not in ('-', ''):
        s, ob = find_header(text, impl_header, mask)
        cb = match_close(text, ob, mask)
        lo, hi = ob + 1, cb
    # find `fn name` at depth 0 relative to lo
    depth = 0
    k = lo
    rx = re.compile(r'fn\s+' + re.escape(name) + r'\b')
    found = []
    while k < hi:
        if mask[k]:
            c = text[k]
            if depth == 0 and c == 'f' and (k == 0 or not (text[k - 1].isalnum() or text[k - 1] == '_')):
                m = rx.match(text, k)
                if m:
                    found.append(k)
            if c in OPEN:
                depth += 1
            elif c in CLOSE:
                depth -= 1
        k += 1
    if len(found) != 1:
        raise LostAnchor('fn %s in `%s` of %s: %d matches' % (name, impl_header, relfile, len(found)))
    fs = found[0]
    mo = find_top(text, r'[{;]', fs, mask)
    if not mo or text[mo.start()] != '{':
        raise LostAnchor('fn %s has no body' % name)
    ob = mo.start()
    cb = match_close(text, ob, mask)
    sig = norm_ws(strip_comments(text[fs:ob]))
    body = text[ob + 1:cb]
    line_a = text.count('\n', 0, fs) + 1
    line_b = text.count('\n', 0, cb) + 1
    raw = text[fs:cb + 1]
    return dict(sig=sig, body=body, span=(line_a, line_b), raw=raw, file=relfile)


# --------------------------------------------------------------------------------------------
# Signature handling
# --------------------------------------------------------------------------------------------

def split_sig(sig):
    """sig = 'fn name<..>(params) -> Ret where ..' ->  (head 'fn name<..>', params, ret, where)"""
    mask = code_mask(sig)
    po = sig.index('(', sig.index('fn '))
    # generics may contain parens only in Fn(..) bounds; find the first '(' at angle depth 0
    depth = 0
    po = None
    for k, c in enumerate(sig):
        if c == '<':
            depth += 1
        elif c == '>' and k > 0 and sig[k - 1] != '-':
            depth -= 1
        elif c == '(' and depth == 0:
            po = k
            break
    pc = match_close(sig, po, mask)
    head = sig[:po]
    params = sig[po + 1:pc]
    rest = sig[pc + 1:].strip()
    ret, where = None, ''
    mw = find_top(rest, r'\bwhere\b')
    if mw:
        where = rest[mw.start():].strip()
        rest = rest[:mw.start()].strip()
    if rest.startswith('->'):
        ret = rest[2:].strip()
    return head.strip(), params.strip(), ret, where


def build_sig(head, params, ret, where, retname):
    s = '%s(%s)' % (head, params)
    if ret is not None:
        s += ' -> (%s: %s)' % (retname, ret)
    if where:
        s += '\n    ' + where
    return s


# --------------------------------------------------------------------------------------------
# Body surgery: comments, loops, hints
# --------------------------------------------------------------------------------------------

LOOP_RX = re.compile(r'(?<![A-Za-z0-9_.])(for|while|loop)\b')


def loop_heads(body):
    """[(kw_index, open_brace_index, close_brace_index)] for each loop keyword in code order."""
    mask = code_mask(body)
    out = []
    for m in LOOP_RX.finditer(body):
        k = m.start()
        if not mask[k]:
            continue
        # `for<'a>` HRTB or `impl X for Y` do not occur inside fn bodies we extract; guard anyway
        after = body[m.end():m.end() + 1]
        if m.group(1) == 'for' and after == '<':
            continue
        mo = find_top(body, r'\{', m.end(), mask)
        if not mo:
            raise LostAnchor('loop without body')
        ob = mo.start()
        cb = match_close(body, ob, mask)
        out.append((k, ob, cb))
    return out


def nth_occurrence(body, needle, n, what):
    mask = code_mask(body)
    idx, start = -1, 0
    count = 0
    while True:
        idx = body.find(needle, start)
        if idx < 0:
            break
        if mask[idx]:
            count += 1
            if count == n:
                return idx
        start = idx + 1
    raise LostAnchor('hint anchor %s `%s` #%d not found' % (what, needle, n))


def _nows(s):
    return re.sub(r'\s+', '', s)


def stmt_starts(body):
    """Offsets at which a top-level statement of `body` (a fn body without its braces, comments already stripped)
    may start: the first code character of the body and the first one after every `;` or `}` at bracket depth 0."""
    mask = code_mask(body)
    out, depth, want = [], 0, True
    for k, c in enumerate(body):
        if want and depth == 0 and c not in ' \t\r\n':
            if c not in ';':
                out.append(k)
            want = False
        if not mask[k]:
            continue
        if c in OPEN:
            depth += 1
        elif c in CLOSE:
            depth -= 1
            if depth == 0 and c == '}':
                want = True
        elif c == ';' and depth == 0:
            want = True
    return out


END_OF_BLOCK = '<end-of-block>'
START_OF_BLOCK = '<start-of-block>'


def descend_block(body, anchor, what):
    """`in:` step of /*@fnrange.  `body` is the text of a block (comments stripped); `anchor` must end with `{` and occur
    exactly once in the code of `body` (white space ignored).  Returns (text inside the braces of that `{`, record), the
    record naming what is left out: the top-level statement of `body` that contains the anchor and the number of
    statements before / after it."""
    want = _nows(anchor)
    if not want.endswith('{'):
        raise SystemExit('template error: fnrange `in:` anchor must end with `{`: ' + anchor)
    mask = code_mask(body)
    idx = [k for k, c in enumerate(body) if mask[k] and c not in ' \t\r\n']
    flat = ''.join(body[k] for k in idx)
    hits, start = [], 0
    while True:
        j = flat.find(want, start)
        if j < 0:
            break
        hits.append(j)
        start = j + 1
    starts = stmt_starts(body)
    # a top-level statement of the block that STARTS with the text is preferred over occurrences nested deeper
    at_stmt = [j for j in hits if idx[j] in starts]
    if len(at_stmt) == 1:
        hits = at_stmt
    if len(hits) != 1:
        raise LostAnchor('fnrange in: anchor `%s` of %s: %d occurrences in the enclosing block (%d at a statement start)' % (anchor, what, len(hits), len(at_stmt)))
    ob = idx[hits[0] + len(want) - 1]
    cb = match_close(body, ob, mask)
    owner = max([p for p in starts if p <= idx[hits[0]]], default=None)
    if owner is None:
        raise LostAnchor('fnrange in: anchor `%s` of %s is not inside a statement' % (anchor, what))
    later = [p for p in starts if p > cb]
    rec = dict(anchor=anchor, enclosing_statement=norm_ws(body[owner:ob + 1])[:200],
               statements_before=sum(1 for p in starts if p < owner),
               statements_after=len(later),
               # what follows the block inside its own statement (e.g. `)` `.expect(..);` of a call it is an argument of)
               stmt_tail=norm_ws(body[cb:later[0] if later else len(body)])[:300])
    return body[ob + 1:cb], rec


def cut_range(body, first, last, what):
    """The text of the top-level statements of `body` from the one that starts with `first` up to, excluding, the one
    that starts with `last` (both compared without white space).  Returns (text, statements_before, statements_in,
    statements_after); a missing, ambiguous or misordered anchor is a LostAnchor."""
    starts = stmt_starts(body)

    def locate(anchor, which):
        want = _nows(anchor)
        if not want:
            raise SystemExit('template error: empty fnrange anchor in ' + what)
        hits = [p for p in starts if _nows(body[p:p + 8 * len(anchor) + 400]).startswith(want)]
        if len(hits) != 1:
            raise LostAnchor('fnrange %s anchor `%s` of %s: %d top-level statements start with it' % (which, anchor, what, len(hits)))
        return hits[0]

    if first.strip() == START_OF_BLOCK and not starts:
        raise LostAnchor('fnrange of %s: empty block' % what)
    a = starts[0] if first.strip() == START_OF_BLOCK else locate(first, 'from')
    b = len(body) if last.strip() == END_OF_BLOCK else locate(last, 'to')
    if not a < b:
        raise LostAnchor('fnrange anchors of %s are out of order (shape changed)' % what)
    return body[a:b], sum(1 for p in starts if p < a), sum(1 for p in starts if a <= p < b), sum(1 for p in starts if p >= b)


CHECK_MARK = '/*@@check:%s*/'
CHECK_MARK_RX = re.compile(r'\s*/\*@@check:([A-Za-z0-9_.\-]+)\*/')


class Emitter:
    """Collects output lines and remembers which obligation each line belongs to."""

    def __init__(self):
        self.lines = []
        self.linemap = {}      # 1-based line -> obligation name (clause lines)
        self.fnranges = []     # (line_a, line_b, fn-obligation-prefix)

    def emit(self, text, tag=None, check_prefix=None):
        for ln in text.split('\n'):
            mc = CHECK_MARK_RX.search(ln) if check_prefix else None
            if mc:
                # a line of a `check [label] ..:` section: an obligation of its own
                ln = ln[:mc.start()] + ln[mc.end():]
            self.lines.append(ln)
            if tag:
                self.linemap[len(self.lines)] = tag
            elif mc:
                self.linemap[len(self.lines)] = '%s.check.%s' % (check_prefix, mc.group(1))

    def lineno(self):
        return len(self.lines)


def parse_clauses(block_lines, what):
    """lines -> [(label, expr)]; a clause starts with `[label]`; other lines continue it."""
    out = []
    for ln in block_lines:
        s = ln.strip()
        if not s:
            continue
        m = re.match(r'\[([A-Za-z0-9_.\-]+)\]\s*(.*)$', s)
        if m:
            out.append([m.group(1), m.group(2)])
        else:
            if not out:
                raise SystemExit('template error: %s clause without [label]: %s' % (what, s))
            out[-1][1] += '\n        ' + s
    return [(a, b.rstrip().rstrip(',')) for a, b in out]


def parse_fn_directive(text):
    """Parse the inside of a /*@fn ... @*/ block."""
    lines = text.split('\n')
    head = lines[0].strip()
    parts = [p.strip() for p in head.split('::', 2)]
    # the impl header may itself contain `::`; the file is first and fn name is last
    allparts = [p.strip() for p in head.split(' :: ')]
    if len(allparts) < 3:
        raise SystemExit('template error: bad @fn header: ' + head)
    d = dict(file=allparts[0], impl=' :: '.join(allparts[1:-1]), name=allparts[-1], props=None, rename=None,
             rules=[], norm=[], sig=None, requires=[], ensures=[], loops={}, hints=[], ret='r', attrs=[], mode=None,
             decreases=None, nloops=None, sigmap=[], callmap=[], range=False, checks=[], expect_before=None, expect_after=None)
    d['in'] = []
    d['from'] = d['to'] = d['as'] = d['returns'] = None
    sec, buf, arg = None, [], None

    def flush():
        nonlocal sec, buf, arg
        if sec == 'requires':
            d['requires'] += parse_clauses(buf, 'requires')
        elif sec == 'ensures':
            d['ensures'] += parse_clauses(buf, 'ensures')
        elif sec == 'loop':
            inv, dec, ens, invx = [], None, [], []
            cur = None
            groups = {'invariant': [], 'invariant_except_break': [], 'ensures': []}
            for ln in buf:
                s = ln.strip()
                if not s:
                    continue
                m = re.match(r'(invariant_except_break|invariant|ensures|decreases)\b\s*(.*)$', s)
                if m:
                    cur = m.group(1)
                    if cur == 'decreases':
                        dec = m.group(2)
                    else:
                        groups[cur].append(m.group(2))
                else:
                    if cur == 'decreases':
                        dec += ' ' + s
                    elif cur:
                        groups[cur].append(s)
            d['loops'][arg] = dict(
                invariant=parse_clauses(groups['invariant'], 'invariant'),
                invariant_except_break=parse_clauses(groups['invariant_except_break'], 'invariant_except_break'),
                ensures=parse_clauses(groups['ensures'], 'loop ensures'),
                decreases=dec)
        elif sec == 'hint':
            d['hints'].append((arg, '\n'.join(buf)))
        elif sec == 'check':
            lab, where = arg
            # every line of a named check carries a marker; Emitter.emit turns it into a line -> obligation entry
            d['checks'].append(lab)
            if where.startswith('at '):
                # `check [label] at `text`:` (no lines): errors Verus reports ON THE LINE of the anchor (a precondition of a
                # call made there) are this obligation; nothing is inserted but the marker
                if any(ln.strip() for ln in buf):
                    raise SystemExit('template error: `check [%s] at ..:` takes no lines' % lab)
                d['hints'].append((where, CHECK_MARK % lab))
            else:
                d['hints'].append((where, '\n'.join(ln + ' ' + CHECK_MARK % lab if ln.strip() else ln for ln in buf)))
        sec, buf, arg = None, [], None

    for ln in lines[1:]:
        s = ln.strip()
        m = re.match(r'(props|rename|rules|norm|sig|ret|attr|mode|decreases|nloops|sigmap|callmap|from|to|as|returns|in|expect_before|expect_after):\s*(.*)$', s) if not ln.startswith((' ', '\t')) else None
        if m:
            flush()
            k, v = m.group(1), m.group(2).strip()
            if k == 'props':
                d['props'] = v.split()
            elif k == 'rules':
                d['rules'] += v.split()
            elif k == 'norm':
                d['norm'] += v.split()
            elif k == 'attr':
                d['attrs'].append(v)
            elif k == 'nloops':
                d['nloops'] = int(v)
            elif k in ('sigmap', 'callmap'):
                a, b = v.split('=>')
                d[k].append((a.strip().strip('`'), b.strip().strip('`')))
            elif k in ('from', 'to'):
                d[k] = v.strip().strip('`')
            elif k == 'in':
                d['in'].append(v.strip().strip('`'))
            elif k in ('expect_before', 'expect_after'):
                d[k] = int(v)
            else:
                d[k] = v
            continue
        m = re.match(r'(requires|ensures):\s*$', s) if not ln.startswith((' ', '\t')) else None
        if m:
            flush()
            sec = m.group(1)
            continue
        m = re.match(r'loop\s+(\d+):\s*$', s) if not ln.startswith((' ', '\t')) else None
        if m:
            flush()
            sec, arg = 'loop', int(m.group(1))
            continue
        m = re.match(r'hint\s+(.*):\s*$', s) if not ln.startswith((' ', '\t')) else None
        if m:
            flush()
            sec, arg = 'hint', m.group(1).strip()
            continue
        m = re.match(r'check\s+\[([A-Za-z0-9_.\-]+)\]\s+(.*):\s*$', s) if not ln.startswith((' ', '\t')) else None
        if m:
            flush()
            sec, arg = 'check', (m.group(1), m.group(2).strip())
            continue
        if sec:
            buf.append(ln)
        elif s:
            raise SystemExit('template error: unexpected line in @fn %s: %s' % (d['name'], s))
    flush()
    return d



def stmt_span(body, lo, hi, pos, mask=None):
    """(start, end) of the statement of the block body[lo:hi] (the text between a block's braces) that contains
    offset `pos`.  As in the Rust grammar: a statement that starts with a block-like expression (`if`, `match`, `while`,
    `for`, `loop`, `unsafe`, a label or `{`) ends with its closing `}` at the block's bracket depth unless `else`
    follows; every other statement (`let`, assignment, call, `return` ..) ends with the next `;` at that depth.
    end is exclusive and includes the statement's own `;`."""
    if mask is None:
        mask = code_mask(body)
    starts, ends = [], []
    depth, want, k = 0, True, lo
    block_like = False
    while k < hi:
        c = body[k]
        if want and depth == 0 and mask[k] and c not in ' \t\r\n':
            starts.append(k)
            want = False
            block_like = re.match(r"(if|match|while|for|loop|unsafe)\b|\{|'[A-Za-z_][A-Za-z0-9_]*\s*:", body[k:k + 40]) is not None
        if mask[k]:
            if c in OPEN:
                depth += 1
            elif c in CLOSE:
                depth -= 1
                if depth == 0 and c == '}' and not want and block_like:
                    if not re.match(r'\s*else\b', body[k + 1:hi][:200]):
                        ends.append(k + 1)
                        want = True
            elif c == ';' and depth == 0 and not want:
                ends.append(k + 1)
                want = True
        k += 1
    if len(ends) < len(starts):
        ends.append(hi)     # tail expression
    for a, b in zip(starts, ends):
        if a <= pos < b:
            return a, b
    raise LostAnchor('no statement at offset %d' % pos)


def continues_of(body, heads, k):
    """offsets of every unlabelled `continue` whose innermost enclosing loop is the k-th loop (1-based)."""
    mask = code_mask(body)
    kw, ob, cb = heads[k - 1]
    out = []
    for m in re.finditer(r'(?<![A-Za-z0-9_])continue(?![A-Za-z0-9_])', body):
        p = m.start()
        if not mask[p] or not (ob < p < cb):
            continue
        if re.match(r"\s*'", body[m.end():]):
            continue        # labelled: names its loop itself
        inner = [h for h in heads if h[1] < p < h[2]]
        if min(inner, key=lambda h: h[2] - h[1]) == heads[k - 1]:
            out.append(p)
    return out


def guard_of(body, heads, k):
    """The condition text COND of the `if COND {` whose block is the innermost block around the k-th loop (1-based): what
    decides whether the loop runs at all.  `$guard(k)` in a clause or hint stands for `(COND)`, so that a contract can
    speak about that decision without naming the temporaries it is computed from.  Anything else around the loop (`else`
    branch, `if let`, `match` arm, a condition with braces) is a LostAnchor."""
    mask = code_mask(body)
    if k > len(heads):
        raise LostAnchor('$guard(%d): loop %d missing' % (k, k))
    kw = heads[k - 1][0]
    depth, j = 0, kw - 1
    while j >= 0:
        if mask[j]:
            if body[j] in CLOSE:
                depth += 1
            elif body[j] in OPEN:
                if depth == 0:
                    break
                depth -= 1
        j -= 1
    if j < 0 or body[j] != '{':
        raise LostAnchor('$guard(%d): the loop is not inside a block' % k)
    # the block's header: back to the previous `;`, `{` or `}` at this level
    h = j - 1
    depth = 0
    while h >= 0:
        if mask[h]:
            c = body[h]
            if c in ')]':
                depth += 1
            elif c in '([':
                depth -= 1
            elif depth == 0 and c in ';{}':
                break
        h -= 1
    header = body[h + 1:j].strip()
    m = re.match(r'if\s+(?!let\b)(.+)$', header, re.S)
    # (`else if COND {` / `else {`: the header then starts with `else`; a condition with braces cuts the header short)
    if not m:
        raise LostAnchor('$guard(%d): the block around the loop is not the then-branch of a plain `if COND` (found `%s`)' % (k, norm_ws(header)[:60]))
    return norm_ws(m.group(1))


def subst_guards(text, body, heads):
    return re.sub(r'\$guard\((\d+)\)', lambda m: '(' + guard_of(body, heads, int(m.group(1))) + ')', text)


def apply_hints(body, hints):
    """Insert hint text at structural / textual anchors. Insertions are computed on the original
    body and applied back to front so indices stay valid."""
    ins = []  # (index, text)
    heads = None
    for where, text in hints:
        m = re.match(r'loop\s+(\d+)\s+(start|end|before|after)$', where)
        if where == 'start':
            ins.append((0, '\n' + text + '\n'))
        elif where == 'end':
            ins.append((len(body), '\n' + text + '\n'))
        elif m:
            if heads is None:
                heads = loop_heads(body)
            k = int(m.group(1))
            if k > len(heads):
                raise LostAnchor('hint anchor: loop %d missing' % k)
            kw, ob, cb = heads[k - 1]
            if m.group(2) == 'before':
                ins.append((kw, '\n' + text + '\n'))
            elif m.group(2) == 'after':
                ins.append((cb + 1, '\n' + text + '\n'))
            else:
                ins.append((ob + 1, '\n' + text + '\n') if m.group(2) == 'start' else (cb, '\n' + text + '\n'))
        elif re.match(r'loop\s+(\d+)\s+continue$', where):
            # before every `continue` of loop K; in expression position (`None => continue,`) the keyword is wrapped
            # into a block so that the hint is a statement
            if heads is None:
                heads = loop_heads(body)
            k = int(re.match(r'loop\s+(\d+)', where).group(1))
            if k > len(heads):
                raise LostAnchor('hint anchor: loop %d missing' % k)
            for p in continues_of(body, heads, k):
                q = p - 1
                while q >= 0 and body[q] in ' \t\r\n':
                    q -= 1
                if q >= 0 and body[q] in '{;}':
                    ins.append((p, '\n' + text + '\n'))
                else:
                    ins.append((p, '{\n' + text + '\n'))
                    ins.append((p + len('continue'), ' }'))
        else:
            m = re.match(r'(?:in\s+loop\s+(\d+)\s+)?(before|after|at)\s+(stmt\s+)?`(.*)`(?:\s+#(\d+|\*))?$', where, re.S)
            if not m:
                raise SystemExit('template error: bad hint anchor: ' + where)
            scope_k, side, is_stmt, lit, nth = m.group(1), m.group(2), bool(m.group(3)), m.group(4), m.group(5)
            lo, hi = 0, len(body)
            if scope_k:
                if heads is None:
                    heads = loop_heads(body)
                if int(scope_k) > len(heads):
                    raise LostAnchor('hint anchor: loop %s missing' % scope_k)
                _, ob, cb = heads[int(scope_k) - 1]
                lo, hi = ob + 1, cb
            what = side + (' stmt' if is_stmt else '') + (' (in loop %s)' % scope_k if scope_k else '')

            def place(idx):
                if is_stmt:
                    a, b = stmt_span(body, lo, hi, idx)
                    return a if side == 'before' else b
                return idx if side == 'before' else idx + len(lit)

            def nth_in_scope(n):
                return lo + nth_occurrence(body[lo:hi], lit, n, what)

            if side == 'at':
                # `check [label] at `text`:` - a marker on the line of the anchor, nothing else inserted
                idx = nth_in_scope(int(nth) if nth and nth != '*' else 1)
                ins.append((idx + len(lit), ' ' + text + ' '))
                continue
            if nth == '*':
                # EVERY occurrence (at least one): an obligation stated at each exit of a kind, so that an exit
                # added later carries it too
                k, seen = 1, set()
                while True:
                    try:
                        idx = nth_in_scope(k)
                    except LostAnchor:
                        if k == 1:
                            raise
                        break
                    at = place(idx)
                    if at not in seen:
                        seen.add(at)
                        ins.append((at, '\n' + text + '\n'))
                    k += 1
                continue
            ins.append((place(nth_in_scope(int(nth or 1))), '\n' + text + '\n'))
    for idx, text in sorted(ins, key=lambda t: -t[0]):
        body = body[:idx] + text + body[idx:]
    return body


_RULE_MODS = None
_RULE_LOCK = __import__('threading').Lock()


def find_rule(name):
    """Rules live in vx/rules.py and vx/rules_*.py (one file per unit family)."""
    global _RULE_MODS
    with _RULE_LOCK:
        if _RULE_MODS is None:
            import glob
            import importlib
            here = os.path.dirname(os.path.abspath(__file__))
            mods = []
            for f in sorted(glob.glob(os.path.join(here, 'rules*.py'))):
                mods.append(importlib.import_module(os.path.basename(f)[:-3]))
            _RULE_MODS = mods
    for m in _RULE_MODS:
        fn = getattr(m, name, None)
        if callable(fn):
            return fn
    return None


def build_function(repo, d, unit, em, report, vac=False, stub_of=None):
    import rules as R
    fx = extract_fn(repo, d['file'], d['impl'], d['name'])
    body = strip_comments(fx['body'])
    rng = None
    descents = []
    if d['range']:
        for anchor in d['in']:
            body, rec = descend_block(body, anchor, '%s::%s' % (d['file'], d['name']))
            descents.append(rec)
        # /*@fnrange: the verified text is a contiguous range of the top-level statements of the real function,
        # wrapped in a free function with the signature given by `as:` and the tail expression given by `returns:`
        if d['in']:
            # after a descent the range defaults to the whole innermost block
            d['from'] = d['from'] or START_OF_BLOCK
            d['to'] = d['to'] or END_OF_BLOCK
        if not (d['from'] and d['to'] and d['as'] and d['returns']):
            raise SystemExit('template error: @fnrange %s needs from: / to: (or in:) / as: / returns:' % d['name'])
        cut, nb, ni, na = cut_range(body, d['from'], d['to'], '%s::%s' % (d['file'], d['name']))
        body = '\n        ' + cut.rstrip() + '\n        ' + d['returns'].strip() + '\n    '
        head, params, ret, where = split_sig(norm_ws(d['as']))
        mname = re.match(r'fn\s+([A-Za-z0-9_]+)', head)
        if not mname:
            raise SystemExit('template error: @fnrange `as:` is not a fn signature: ' + d['as'])
        for key, got in (('expect_before', nb), ('expect_after', na)):
            if d[key] is not None and d[key] != got:
                raise LostAnchor('fnrange %s of %s::%s: %d statements, %d expected (shape changed)' % (key, d['file'], d['name'], got, d[key]))
        rng = dict(name=mname.group(1), statements_before=nb, statements_in=ni, statements_after=na,
                   sha256=hashlib.sha256(cut.encode()).hexdigest())
        rng['from'], rng['to'] = d['from'], d['to']
        if descents:
            rng['descents'] = descents
            rng['in'] = descents          # the name rules (W_FLOW) read
    else:
        head, params, ret, where = split_sig(fx['sig'])
    fired = {}
    ctx = dict(head=head, params=params, ret=ret, where=where, returns=(d['returns'] or '').strip() if d['range'] else None, range=rng)
    # always-on drops
    body = R.drop_logging(body, fired)
    # normalisations: rewrite an EQUIVALENT SPELLING of an idiom into the spelling the rules / contracts below
    # were written against. Unlike `rules:` they may fire zero times (the canonical spelling is the normal case);
    # they raise LostAnchor on a shape of their idiom they do not cover, exactly like a rule.
    for r in d['norm']:
        fn = find_rule(r)
        if fn is None:
            raise SystemExit('template error: unknown rule ' + r)
        body, n = fn(body, ctx)
        if n:
            fired[r] = fired.get(r, 0) + n
    # always-on normalisations: spellings Verus does not take, rewritten into the equivalent one it does (0 or more times)
    body = R.norm_bool_op_assign(body, fired)
    for r in d['rules']:
        # `RULE?`: the idiom is desugared IF PRESENT.  Only for rules that re-spell an expression without dropping or
        # assuming anything: when such a rule does not fire the text reaches Verus verbatim, which either accepts it
        # or rejects it (undecided) - so a change that removes the idiom is still verified against the contract
        # instead of being lost as an anchor.  Shape guards stay with `nloops:` and the must-fire rules.
        optional = r.endswith('?')
        r = r.rstrip('?')
        # `A|B`: alternative spellings of one idiom, each with its own rule; together they must fire at least once
        total = 0
        for name in r.split('|'):
            fn = find_rule(name)
            if fn is None:
                raise SystemExit('template error: unknown rule ' + name)
            body, n = fn(body, ctx)
            if n:
                fired[name] = fired.get(name, 0) + n
            total += n
        if total == 0:
            if optional:
                continue
            raise LostAnchor('rule %s expected in %s::%s did not match' % (r, d['file'], d['name']))
    head, params, ret, where = ctx['head'], ctx['params'], ctx['ret'], ctx['where']
    # callmap: a call path that resolves to a trait impl in /repo is redirected to the inherent copy
    # of that same impl method extracted in this unit (trait impls are verified as inherent methods)
    for a, b in d['callmap']:
        if a not in body:
            raise LostAnchor('callmap `%s` not in body of %s' % (a, d['name']))
        fired['callmap'] = fired.get('callmap', 0) + body.count(a)
        body = body.replace(a, b)
    for a, b in d['sigmap']:
        whole = ' || '.join([head, params, ret or '', where])
        if a not in whole:
            raise LostAnchor('sigmap `%s` not in signature of %s' % (a, d['name']))
        head, params, where = head.replace(a, b), params.replace(a, b), where.replace(a, b)
        ret = ret.replace(a, b) if ret is not None else None
        fired['sigmap'] = fired.get('sigmap', 0) + 1
    if d['rename'] and not rng:
        head = re.sub(r'fn\s+' + re.escape(d['name']) + r'\b', 'fn ' + d['rename'], head, count=1)
    name = rng['name'] if rng else (d['rename'] or d['name'])
    oblig = '%s.%s' % (unit, name)
    if stub_of:
        # /*@stub: the contract of unit `stub_of`, callee side.  The body is not emitted (it is that unit's business).
        em.emit('// PROVED-IN: %s.%s' % (stub_of, name))
        em.emit('#[verifier::external_body]')
        em.emit(d['sig'] if d['sig'] else build_sig(head, params, ret, where, d['ret']))
        for kind in ('requires', 'ensures'):
            if d[kind]:
                em.emit('    ' + kind)
                for lab, e in d[kind]:
                    em.emit('        %s,' % e)
        em.emit('{ unimplemented!() }')
        text = '\n'.join('%s [%s] %s' % (kind, lab, e) for kind in ('requires', 'ensures') for lab, e in d[kind])
        report.setdefault('stubs', []).append(dict(proved_in='%s.%s' % (stub_of, name), file=d['file'], name=d['name'],
                                                   contract_sha256=hashlib.sha256(text.encode()).hexdigest(),
                                                   clauses=['%s.%s.ensures.%s' % (stub_of, name, lab) for lab, _ in d['ensures']]))
        return []
    heads = loop_heads(body)
    if d['nloops'] is not None and len(heads) != d['nloops']:
        raise LostAnchor('%s: expected %d loops, found %d (shape changed)' % (oblig, d['nloops'], len(heads)))
    for k in d['loops']:
        if k > len(heads):
            raise LostAnchor('%s: loop %d missing (shape changed)' % (oblig, k))
    # `$guard(k)` in loop clauses and hints: the condition of the `if` that decides whether loop k runs (read off the
    # code as it is before the hints go in)
    hints = [(w, subst_guards(t, body, heads)) for w, t in d['hints']]
    loops_spec = {}
    for k, lp in d['loops'].items():
        loops_spec[k] = dict(lp)
        for kind in ('invariant_except_break', 'invariant', 'ensures'):
            loops_spec[k][kind] = [(lab, subst_guards(e, body, heads)) for lab, e in lp[kind]]
        if lp['decreases']:
            loops_spec[k]['decreases'] = subst_guards(lp['decreases'], body, heads)
    body = apply_hints(body, hints)
    heads = loop_heads(body)  # recompute after insertion (hints contain no loops by convention)
    def emit_fn(vac_copy):
        # ---- emit
        start_line = em.lineno() + 1
        for a in d['attrs']:
            em.emit(a)
        head2 = head
        if vac_copy:
            head2 = re.sub(r'fn\s+' + re.escape(name) + r'\b', 'fn ' + name + '__vac', head, count=1)
        sig = d['sig'] if d['sig'] else build_sig(head2, params, ret, where, d['ret'])
        if vac_copy and d['sig']:
            sig = re.sub(r'fn\s+' + re.escape(name) + r'\b', 'fn ' + name + '__vac', sig, count=1)
        if d['mode']:
            sig = d['mode'] + ' ' + sig
        em.emit(sig)
        if d['requires']:
            em.emit('    requires')
            for lab, e in d['requires']:
                em.emit('        %s,' % e, '%s.requires.%s' % (oblig, lab))
        if d['ensures'] or vac_copy:
            em.emit('    ensures')
            for lab, e in d['ensures']:
                em.emit('        %s,' % e, '%s.ensures.%s' % (oblig, lab))
            if vac_copy:
                em.emit('        false,', '%s.ensures.__vac' % oblig)
        if d['decreases']:
            em.emit('    decreases %s,' % d['decreases'])
        em.emit('{')
        # body with loop contracts spliced before each loop's `{`
        pos = 0
        pieces = []
        for k, (kw, ob, cb) in enumerate(heads, 1):
            if k in d['loops']:
                pieces.append((body[pos:ob], None))
                pieces.append(('LOOPSPEC', k))
                pos = ob
        pieces.append((body[pos:], None))
        for text, k in pieces:
            if text == 'LOOPSPEC':
                lp = loops_spec[k]
                em.emit('')
                for kind in ('invariant_except_break', 'invariant', 'ensures'):
                    if lp[kind]:
                        em.emit('        ' + kind)
                        for lab, e in lp[kind]:
                            em.emit('            %s,' % e, '%s.loop%d.%s.%s' % (oblig, k, kind, lab))
                if lp['decreases']:
                    em.emit('        decreases %s,' % lp['decreases'])
            else:
                em.emit(text, check_prefix=oblig)
        em.emit('}')
        return start_line, sig

    start_line, sig = emit_fn(False)
    em.fnranges.append((start_line, em.lineno(), oblig))
    if vac and d['requires']:
        # vacuity guard: a COPY of the function (callees keep their real contracts) that must fail `ensures false`
        vstart, _ = emit_fn(True)
        em.fnranges.append((vstart, em.lineno(), oblig + '.__vac'))
    obls = [oblig + '.body']
    obls += ['%s.check.%s' % (oblig, lab) for lab in d['checks']]
    obls += ['%s.ensures.%s' % (oblig, lab) for lab, _ in d['ensures']]
    for k, lp in sorted(d['loops'].items()):
        for kind in ('invariant_except_break', 'invariant', 'ensures'):
            obls += ['%s.loop%d.%s.%s' % (oblig, k, kind, lab) for lab, _ in lp[kind]]
    report['functions'].append(dict(
        obligation_prefix=oblig, file=d['file'], impl=d['impl'], name=d['name'], lines=list(fx['span']),
        sha256=hashlib.sha256(fx['raw'].encode()).hexdigest(), rules_fired=fired,
        props=d['props'], obligations=obls, range=rng,
        requires=[e for _, e in d['requires']], has_requires=bool(d['requires']),
        vac=dict(sig=sig, requires=[e for _, e in d['requires']]) if d['requires'] else None))
    return obls


def build_item(repo, text, em, report):
    lines = text.split('\n')
    head = lines[0].strip()
    relfile, header = [p.strip() for p in head.split(' :: ', 1)]
    prefix, drops, maps = [], [], []
    within = None
    for ln in lines[1:]:
        s = ln.strip()
        if s.startswith('in:'):
            within = s[len('in:'):].strip()
        elif s.startswith('prefix:'):
            prefix.append(s[len('prefix:'):].strip())
        elif s.startswith('dropfield:'):
            drops.append(s[len('dropfield:'):].strip())
        elif s.startswith('map:'):
            a, b = s[len('map:'):].split('=>')
            maps.append((a.strip().strip('`'), b.strip().strip('`')))
    src, s, ob, cb = extract_item(repo, relfile, header, within)
    item = strip_comments(src[s:cb + 1])
    # drop attributes on fields/variants and visibility
    item = re.sub(r'#\[[^\]]*\]\s*', '', item)
    item = re.sub(r'\bpub(\([a-z:A-Z_ ]+\))?\s+', '', item)
    for f in drops:
        new = re.sub(r'(?m)^\s*' + re.escape(f) + r'\s*:[^\n]*\n', '', item)
        if new == item:
            raise LostAnchor('dropfield %s not found in %s' % (f, header))
        item = new
    for a, b in maps:
        if a not in item:
            raise LostAnchor('map `%s` not found in %s' % (a, header))
        item = item.replace(a, b)
    for p in prefix:
        em.emit(p)
    em.emit(item)
    fields = re.findall(r'(?m)^\s*([a-z_][A-Za-z0-9_]*)\s*:', item[item.find('{'):]) if '{' in item else []
    report['items'].append(dict(file=relfile, header=header, fields=fields,
                                sha256=hashlib.sha256(src[s:cb + 1].encode()).hexdigest(),
                                dropped_fields=drops, maps=maps))
    return fields


SPEC_ITEM_RX = re.compile(r'(?m)^((?:[ \t]*#\[[^\n]*\]\s*\n)*)[ \t]*(?:pub\s+)?(?:open\s+|closed\s+|uninterp\s+)?(spec\s+fn|type|struct)\s+([A-Za-z0-9_]+)\b')


def use_spec(path, names):
    """`//@usespec FILE :: n1 n2 ..`: the named spec-fn / type-alias / struct items of FILE (a template or prelude of
    THIS harness), attributes included, copied verbatim.  `*` = all of them.  Proof fns are never copied."""
    text = open(path).read()
    mask = code_mask(text)
    found, order = {}, []
    for m in SPEC_ITEM_RX.finditer(text):
        if not mask[m.start(2)]:
            continue
        mo = find_top(text, r'[{;]', m.end(), mask)
        if not mo:
            continue
        end = mo.start() if text[mo.start()] == ';' else match_close(text, mo.start(), mask)
        if m.group(3) not in found:
            found[m.group(3)] = text[m.start():end + 1]
            order.append(m.group(3))
    want = order if names == ['*'] else names
    missing = [n for n in want if n not in found]
    if missing:
        raise SystemExit('template error: usespec %s: no spec fn / type / struct named %s' % (path, ', '.join(missing)))
    return '\n'.join(found[n] for n in want)


LEMMA_ITEM_RX = re.compile(r'(?m)^((?:[ \t]*//[^\n]*\n)*)[ \t]*(?:pub\s+)?proof\s+fn\s+([A-Za-z0-9_]+)\b')


def use_lemma(path, names):
    """`//@uselemma FILE :: l1 l2 ..`: the named `proof fn` items of FILE (a template of THIS harness), with the
    comment lines directly above them, copied verbatim.  The copies are ordinary template text of the including unit:
    each one is verified again there and is an obligation `UNIT.lemma.<name>` of THAT unit (nothing is trusted, nothing
    is re-typed).  Items marked `external_body` (axioms of a prelude) are refused: they are included, never copied."""
    text = open(path).read()
    mask = code_mask(text)
    found = {}
    for m in LEMMA_ITEM_RX.finditer(text):
        if not mask[m.start(2)]:
            continue
        mo = find_top(text, r'[{;]', m.end(), mask)
        if not mo or text[mo.start()] != '{':
            continue
        before = text[:m.start()].rstrip().split('\n')[-1]
        if 'external_body' in before or 'external_body' in m.group(1):
            continue
        item = text[m.start():match_close(text, mo.start(), mask) + 1]
        # directive comments (`//@props ..`) of the other unit are not copied: the including unit sets its own
        item = '\n'.join(ln for ln in item.split('\n') if not ln.lstrip().startswith('//@'))
        found.setdefault(m.group(2), item)
    missing = [n for n in names if n not in found]
    if missing:
        raise SystemExit('template error: uselemma %s: no proof fn named %s' % (path, ', '.join(missing)))
    return '\n'.join(found[n] for n in names)


def build_stub(repo, text, vxdir, unit, em, report):
    """`/*@stub ../units/U.vrs :: name @*/`: find the `/*@fn FILE :: IMPL :: name` directive of template U and emit its
    contract as an external_body stub (see build_function, stub_of)."""
    parts = [p.strip() for p in text.strip().split('\n')[0].split(' :: ')]
    if len(parts) != 2:
        raise SystemExit('template error: bad @stub header: ' + text.strip())
    other = open(os.path.join(vxdir, parts[0])).read()
    mu = re.search(r'(?m)^//@unit\s+(\S+)', other)
    hits = []
    for dm in re.finditer(r'/\*@fn\s+(.*?)@\*/', other, re.S):
        d = parse_fn_directive(dm.group(1))
        if (d['rename'] or d['name']) == parts[1]:
            hits.append(d)
    if not mu or len(hits) != 1:
        raise SystemExit('template error: @stub %s: %d /*@fn directives named %s' % (parts[0], len(hits), parts[1]))
    d = hits[0]
    d['range'] = False
    build_function(repo, d, unit, em, report, stub_of=mu.group(1))


def use_contract(path, name, opts):
    """`//@usecontract FILE :: NAME [guarded] [only=l1,l2]`: the requires / ensures text of the directive of template
    FILE that emits function NAME (its `rename:` / the `as:` name of a range / its own name), clause by clause."""
    text = open(path).read()
    hits = []
    for dm in re.finditer(r'/\*@(fnrange|fn)\s+(.*?)@\*/', text, re.S):
        d = parse_fn_directive(dm.group(2))
        emitted = d['rename'] or d['name']
        if dm.group(1) == 'fnrange' and d['as']:
            m = re.match(r'\s*fn\s+([A-Za-z0-9_]+)', d['as'])
            emitted = m.group(1) if m else emitted
        if emitted == name:
            hits.append(d)
    if len(hits) != 1:
        raise SystemExit('template error: usecontract %s :: %s: %d directives emit that function' % (path, name, len(hits)))
    d = hits[0]
    guarded, only = False, None
    for o in opts:
        if o == 'guarded':
            guarded = True
        elif o.startswith('only='):
            only = [x for x in o[len('only='):].split(',') if x]
        else:
            raise SystemExit('template error: usecontract option ' + o)
    ens = d['ensures']
    if only is not None:
        missing = [l for l in only if l not in [lab for lab, _ in ens]]
        if missing:
            raise SystemExit('template error: usecontract %s :: %s: no ensures clause labelled %s' % (path, name, ', '.join(missing)))
        ens = [(lab, e) for lab, e in ens if lab in only]
    out = []
    if d['requires'] and not guarded:
        out.append('    requires')
        out += ['        %s,   // [%s]' % (e, lab) if '\n' not in e else '        %s,' % e for lab, e in d['requires']]
    if ens:
        out.append('    ensures')
        pre = ' && '.join('(%s)' % e for _, e in d['requires']) if guarded and d['requires'] else ''
        for lab, e in ens:
            e2 = '%s ==> (%s)' % (pre, e) if pre else e
            out.append('        %s,   // [%s]' % (e2, lab) if '\n' not in e2 else '        %s,' % e2)
    return '\n'.join(out)


def build_unit(template_path, repo, vac=False):
    tpl = open(template_path).read()
    vxdir = os.path.dirname(os.path.abspath(__file__))
    tpl = re.sub(r'(?m)^//@include\s+(\S+)\s*$', lambda m: open(os.path.join(vxdir, m.group(1))).read(), tpl)
    tpl = re.sub(r'(?m)^[ \t]*//@usespec\s+(\S+)\s+::\s+(.*?)\s*$', lambda m: use_spec(os.path.join(vxdir, m.group(1)), m.group(2).split()), tpl)
    tpl = re.sub(r'(?m)^[ \t]*//@usecontract\s+(\S+)\s+::\s+(\S+)(.*?)\s*$', lambda m: use_contract(os.path.join(vxdir, m.group(1)), m.group(2), m.group(3).split()), tpl)
    tpl = re.sub(r'(?m)^[ \t]*//@uselemma\s+(\S+)\s+::\s+(.*?)\s*$', lambda m: use_lemma(os.path.join(vxdir, m.group(1)), m.group(2).split()), tpl)
    em = Emitter()
    report = dict(unit=None, props=[], functions=[], items=[], lemmas=[], template=os.path.basename(template_path))
    m = re.search(r'(?m)^//@unit\s+(\S+)\s+props:\s*(.*)$', tpl)
    if not m:
        raise SystemExit('template error: missing //@unit line')
    unit = m.group(1)
    report['unit'] = unit
    report['props'] = m.group(2).split()
    pos = 0
    rx = re.compile(r'/\*@(fnrange|fn|item|stub)\s+(.*?)@\*/', re.S)
    pending_props = None
    for dm in rx.finditer(tpl):
        _emit_template_text(tpl[pos:dm.start()], em, report, unit)
        if dm.group(1) in ('fn', 'fnrange'):
            d = parse_fn_directive(dm.group(2))
            d['range'] = dm.group(1) == 'fnrange'
            if d['props'] is None:
                d['props'] = report['props']
            build_function(repo, d, unit, em, report, vac)
        elif dm.group(1) == 'stub':
            build_stub(repo, dm.group(2), vxdir, unit, em, report)
        else:
            build_item(repo, dm.group(2), em, report)
        pos = dm.end()
    _emit_template_text(tpl[pos:], em, report, unit)
    return em, report


LEMMA_RX = re.compile(r'^\s*(?:pub\s+)?(?:broadcast\s+)?(proof|exec)?\s*fn\s+([A-Za-z0-9_]+)')


def _emit_template_text(text, em, report, unit):
    """Template text is emitted as is; proof fns in it become lemma obligations."""
    props = None
    lines = text.split('\n')
    i = 0
    while i < len(lines):
        ln = lines[i]
        mp = re.match(r'\s*//@props\s+(.*)$', ln)
        if mp:
            props = mp.group(1).split()
            em.emit(ln)
            i += 1
            continue
        ml = LEMMA_RX.match(ln)
        prev = lines[i - 1] if i > 0 else ''
        # obligations are the template's own `proof fn` lemmas; prelude items marked external_body /
        # axiom are trusted (scanned separately), plain exec fns in templates are helpers or `main`
        if ml and 'proof fn' in ln and 'external_body' not in prev and 'axiom fn' not in ln:
            # find the end of this fn by brace matching on the remaining text
            rest = '\n'.join(lines[i:])
            mask = code_mask(rest)
            mo = find_top(rest, r'[{;]', 0, mask)
            if mo and rest[mo.start()] == '{':
                cb = match_close(rest, mo.start(), mask)
                nl = rest.count('\n', 0, cb) + 1
                a = em.lineno() + 1
                for j in range(nl):
                    em.emit(lines[i + j])
                kind = 'lemma' if 'proof fn' in ln else 'tfn'
                name = '%s.%s.%s' % (unit, kind, ml.group(2))
                em.fnranges.append((a, em.lineno(), name))
                report['lemmas'].append(dict(obligation=name, props=props or report['props'], kind=kind))
                props = None
                i += nl
                continue
        em.emit(ln)
        i += 1


def main():
    import argparse
    ap = argparse.ArgumentParser()
    ap.add_argument('template')
    ap.add_argument('--repo', default='/repo')
    ap.add_argument('--out', required=True)
    a = ap.parse_args()
    try:
        em, report = build_unit(a.template, a.repo)
    except LostAnchor as e:
        print('UNDECIDED reason=lost-anchor %s' % e)
        sys.exit(2)
    open(a.out, 'w').write('\n'.join(em.lines) + '\n')
    report['linemap'] = {str(k): v for k, v in em.linemap.items()}
    report['fnranges'] = em.fnranges
    open(a.out + '.map.json', 'w').write(json.dumps(report, indent=1))
    print('generated %s: %d functions, %d lemmas' % (a.out, len(report['functions']), len(report['lemmas'])))


if __name__ == '__main__':
    main()
