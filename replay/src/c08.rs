//! C08: the REAL `LinearizabilityTester` against a brute-force reference on ALL histories (ill-formed
//! ones included) of at most N events over 2 threads and the register alphabet
//! {Write('A'), Write('B'), Read} x {WriteOk, ReadOk('A'), ReadOk('B')}, reference object Register('A').
//! N = 5 by default (271453 histories, under a second); VERIF_ORACLE_EVENTS=<n> overrides it (4: 22621
//! histories; 6: 3257437 histories, a few seconds). 5 is the smallest bound at which an off-by-one in the
//! recorded last-completed index (`cs.len()` for `cs.len() - 1`) becomes visible.
//!
//! The reference never shares an algorithm with the tester: it enumerates every subset of the
//! in-flight operations and every permutation of (completed + subset) and filters the full
//! permutations by program order, (C08 only) real-time precedence and legality.
//!
//! The shared pieces (event alphabet, case ids, well-formedness model, brute force, the four checks)
//! are `pub(crate)` and reused by c14.rs.
use crate::Ctx;
use stateright::semantics::register::*;
use stateright::semantics::{ConsistencyTester, LinearizabilityTester, SequentialSpec};
use std::panic::{catch_unwind, AssertUnwindSafe};

pub(crate) type Op = RegisterOp<char>;
pub(crate) type Ret = RegisterRet<char>;
pub(crate) type Ser = Vec<(Op, Ret)>;

#[derive(Clone, Debug, PartialEq)]
pub(crate) enum Ev {
    Inv(u8, Op),
    Ret(u8, Ret),
}

/// The 12 possible events.
pub(crate) fn alphabet() -> Vec<Ev> {
    let mut v = Vec::new();
    for t in 0..2u8 {
        for op in [RegisterOp::Write('A'), RegisterOp::Write('B'), RegisterOp::Read] {
            v.push(Ev::Inv(t, op));
        }
        for r in [RegisterRet::WriteOk, RegisterRet::ReadOk('A'), RegisterRet::ReadOk('B')] {
            v.push(Ev::Ret(t, r));
        }
    }
    v
}

/// Compact token of one event: I0WA I0WB I0R R0ok R0=A R0=B (no quotes: ids go through the shell).
pub(crate) fn token(e: &Ev) -> String {
    match e {
        Ev::Inv(t, RegisterOp::Write(c)) => format!("I{}W{}", t, c),
        Ev::Inv(t, RegisterOp::Read) => format!("I{}R", t),
        Ev::Ret(t, RegisterRet::WriteOk) => format!("R{}ok", t),
        Ev::Ret(t, RegisterRet::ReadOk(c)) => format!("R{}={}", t, c),
    }
}

pub(crate) fn max_events() -> usize {
    std::env::var("VERIF_ORACLE_EVENTS").ok().and_then(|s| s.parse().ok()).unwrap_or(5)
}

/// Depth-first, pre-order enumeration of all histories of at most `max` events. `f(base_id, events)`.
/// With `--only`, subtrees whose id is not a prefix of the wanted case are pruned (and the bound is
/// raised to the length of the wanted history, so a case found with a larger bound replays as is).
pub(crate) fn for_each_history(prefix: &str, only: &Option<String>, f: &mut dyn FnMut(&str, &[Ev])) {
    let mut max = max_events();
    if let Some(o) = only {
        max = max.max(o.matches('|').count() + 1);
    }
    let alpha = alphabet();
    let toks: Vec<String> = alpha.iter().map(token).collect();
    fn rec(id: &mut String, evs: &mut Vec<Ev>, max: usize, alpha: &[Ev], toks: &[String], only: &Option<String>, f: &mut dyn FnMut(&str, &[Ev])) {
        if let Some(o) = only {
            if !o.starts_with(id.as_str()) {
                return;
            }
        }
        f(id, evs);
        if evs.len() == max {
            return;
        }
        let len = id.len();
        for (e, t) in alpha.iter().zip(toks) {
            if !evs.is_empty() {
                id.push('|');
            }
            id.push_str(t);
            evs.push(e.clone());
            rec(id, evs, max, alpha, toks, only, f);
            evs.pop();
            id.truncate(len);
        }
    }
    let mut id = format!("{}:", prefix);
    rec(&mut id, &mut Vec::new(), max, &alpha, &toks, only, f);
}

/// Second enumeration: all WELL-FORMED histories over THREE threads of at most `max3_events()` events (an
/// invocation only on an idle thread, a return only for the operation in flight and of its kind). Two threads
/// cannot show a fault that needs a prerequisite on two different peers, or a peer with a smaller id whose
/// operations are already placed while a larger one's are not. Ids: `<prefix>3:I0WB|R0ok|I1WA|..`.
pub(crate) fn max3_events() -> usize {
    std::env::var("VERIF_ORACLE_EVENTS3").ok().and_then(|s| s.parse().ok()).unwrap_or(6)
}

pub(crate) fn for_each_wf_history3(prefix: &str, only: &Option<String>, f: &mut dyn FnMut(&str, &[Ev])) {
    let mut max = max3_events();
    if let Some(o) = only {
        if !o.starts_with(&format!("{}3:", prefix)) {
            return;
        }
        max = max.max(o.matches('|').count() + 1);
    }
    fn rec(id: &mut String, evs: &mut Vec<Ev>, fl: &mut [Option<Op>; 3], max: usize, only: &Option<String>, f: &mut dyn FnMut(&str, &[Ev])) {
        if let Some(o) = only {
            if !o.starts_with(id.as_str()) {
                return;
            }
        }
        if !evs.is_empty() {
            f(id, evs);
        }
        if evs.len() == max {
            return;
        }
        let len = id.len();
        for t in 0..3u8 {
            let choices: Vec<Ev> = match &fl[t as usize] {
                None => vec![Ev::Inv(t, RegisterOp::Write('A')), Ev::Inv(t, RegisterOp::Write('B')), Ev::Inv(t, RegisterOp::Read)],
                Some(RegisterOp::Write(_)) => vec![Ev::Ret(t, RegisterRet::WriteOk)],
                Some(RegisterOp::Read) => vec![Ev::Ret(t, RegisterRet::ReadOk('A')), Ev::Ret(t, RegisterRet::ReadOk('B'))],
            };
            for e in choices {
                let saved = fl[t as usize].clone();
                fl[t as usize] = match &e {
                    Ev::Inv(_, op) => Some(op.clone()),
                    Ev::Ret(..) => None,
                };
                if !evs.is_empty() {
                    id.push('|');
                }
                id.push_str(&token(&e));
                evs.push(e);
                rec(id, evs, fl, max, only, f);
                evs.pop();
                id.truncate(len);
                fl[t as usize] = saved;
            }
        }
    }
    let mut id = format!("{}3:", prefix);
    rec(&mut id, &mut Vec::new(), &mut [None, None, None], max, only, f);
}

// ------------------------------------------------------------------------------------------------
// Reference model
// ------------------------------------------------------------------------------------------------

#[derive(Clone, Debug)]
pub(crate) struct OpRec {
    pub thread: u8,
    pub op: Op,
    pub inv: usize,                // event index of the invocation
    pub ret: Option<(usize, Ret)>, // event index of the return and the recorded value
}

/// Well-formedness: per thread at most one operation in flight. Returns the operations of the
/// well-formed prefix and the index of the first ill-formed event, if any.
pub(crate) fn model(events: &[Ev]) -> (Vec<OpRec>, Option<usize>) {
    let mut ops: Vec<OpRec> = Vec::new();
    let mut in_flight: [Option<usize>; 3] = [None, None, None];
    for (i, e) in events.iter().enumerate() {
        match e {
            Ev::Inv(t, op) => {
                if in_flight[*t as usize].is_some() {
                    return (ops, Some(i));
                }
                in_flight[*t as usize] = Some(ops.len());
                ops.push(OpRec { thread: *t, op: op.clone(), inv: i, ret: None });
            }
            Ev::Ret(t, r) => match in_flight[*t as usize].take() {
                None => return (ops, Some(i)),
                Some(k) => ops[k].ret = Some((i, r.clone())),
            },
        }
    }
    (ops, None)
}

fn permute(v: &mut Vec<usize>, k: usize, f: &mut dyn FnMut(&[usize])) {
    if k >= v.len() {
        f(v);
        return;
    }
    for i in k..v.len() {
        v.swap(k, i);
        permute(v, k + 1, f);
        v.swap(k, i);
    }
}

/// Whether the total order `perm` (indices into `ops`) is admissible; if so its (op, ret) vector.
fn admissible_order(ops: &[OpRec], perm: &[usize], real_time: bool) -> Option<Ser> {
    for i in 0..perm.len() {
        for j in i + 1..perm.len() {
            let (a, b) = (&ops[perm[i]], &ops[perm[j]]); // a is placed before b
            // (1) program order: b must not be an earlier operation of the same thread
            if a.thread == b.thread && b.inv < a.inv {
                return None;
            }
            // (2) real time: b must not have returned before a was invoked
            if real_time {
                if let Some((bret, _)) = &b.ret {
                    if *bret < a.inv {
                        return None;
                    }
                }
            }
        }
    }
    // (3) legality on a fresh Register('A')
    let mut obj = Register('A');
    let mut out = Vec::with_capacity(perm.len());
    for k in perm {
        let o = &ops[*k];
        let got = obj.invoke(&o.op);
        if let Some((_, want)) = &o.ret {
            if &got != want {
                return None;
            }
        }
        out.push((o.op.clone(), got));
    }
    Some(out)
}

/// The set S of all admissible serializations: completed operations plus any subset of in-flight ones.
pub(crate) fn admissible(ops: &[OpRec], real_time: bool) -> Vec<Ser> {
    let completed: Vec<usize> = (0..ops.len()).filter(|k| ops[*k].ret.is_some()).collect();
    let pending: Vec<usize> = (0..ops.len()).filter(|k| ops[*k].ret.is_none()).collect();
    let mut out: Vec<Ser> = Vec::new();
    for mask in 0..(1u32 << pending.len()) {
        let mut chosen = completed.clone();
        for (b, k) in pending.iter().enumerate() {
            if (mask >> b) & 1 == 1 {
                chosen.push(*k);
            }
        }
        permute(&mut chosen, 0, &mut |perm| {
            if let Some(s) = admissible_order(ops, perm, real_time) {
                if !out.contains(&s) {
                    out.push(s);
                }
            }
        });
    }
    out
}

// ------------------------------------------------------------------------------------------------
// Driving the real tester
// ------------------------------------------------------------------------------------------------

pub(crate) struct Outcome {
    /// Ok, or a description of the first deviation in the Ok/Err sequence / unchanged-after-error rule.
    pub wf: Result<(), String>,
    pub consistent: bool,
    pub ser: Option<Ser>,
}

/// Feeds `events` one by one; `first_bad` is the reference's first ill-formed index.
pub(crate) fn drive<TT>(t: &mut TT, events: &[Ev], first_bad: Option<usize>, ser: &dyn Fn(&TT) -> Option<Ser>) -> Outcome
where
    TT: ConsistencyTester<u8, Register<char>> + Clone + PartialEq,
{
    let mut wf: Result<(), String> = Ok(());
    for (i, e) in events.iter().enumerate() {
        let before = t.clone();
        let ok = match e {
            Ev::Inv(th, op) => t.on_invoke(*th, op.clone()).is_ok(),
            Ev::Ret(th, r) => t.on_return(*th, r.clone()).is_ok(),
        };
        let want_ok = first_bad.map_or(true, |b| i < b);
        if ok != want_ok && wf.is_ok() {
            wf = Err(format!("event {} returned {}", i, if ok { "Ok" } else { "Err" }));
        }
        if first_bad.map_or(false, |b| i > b) && *t != before && wf.is_ok() {
            wf = Err(format!("event {} (after the ill-formed event {}) changed the tester", i, first_bad.unwrap()));
        }
    }
    Outcome { wf, consistent: t.is_consistent(), ser: ser(t) }
}

/// `drive` with a panic of the tester turned into a failed well-formedness outcome.
pub(crate) fn drive_caught<TT>(t: &mut TT, events: &[Ev], first_bad: Option<usize>, ser: &dyn Fn(&TT) -> Option<Ser>) -> Outcome
where
    TT: ConsistencyTester<u8, Register<char>> + Clone + PartialEq,
{
    match catch_unwind(AssertUnwindSafe(|| drive(t, events, first_bad, ser))) {
        Ok(o) => o,
        Err(_) => Outcome { wf: Err("the tester panicked".to_string()), consistent: false, ser: None },
    }
}

pub(crate) struct Spec {
    pub real_time: bool,
    pub cls_wf: &'static str,
    pub cls_invalid: &'static str,
    pub cls_sound: &'static str,
    pub cls_complete: &'static str,
    pub obl_wf: &'static [&'static str],
    pub obl_invalid: &'static [&'static str],
    pub obl_sound: &'static [&'static str],
    pub obl_complete: &'static [&'static str],
}

pub(crate) const SUFFIXES: [&str; 4] = ["#wf", "#invalid", "#sound", "#complete"];

pub(crate) fn wants_any(ctx: &Ctx, base: &str, suffixes: &[&str]) -> bool {
    match &ctx.only {
        None => true,
        Some(_) => suffixes.iter().any(|s| ctx.want(&format!("{}{}", base, s))),
    }
}

/// Checks (i) .. (iv) for one history and one tester outcome.
pub(crate) fn judge(ctx: &mut Ctx, base: &str, spec: &Spec, events: &[Ev], ops: &[OpRec], first_bad: Option<usize>, out: &Outcome) {
    // (i) Ok/Err sequence, stickiness, unchanged after the error
    let case = format!("{}#wf", base);
    if ctx.want(&case) {
        let (obs, req) = match &out.wf {
            Ok(()) => (String::new(), String::new()),
            Err(d) => (
                d.clone(),
                format!("Ok before the first ill-formed event ({:?}), Err from it on, and no change of the tester after it; events={:?}", first_bad, events),
            ),
        };
        ctx.check(&case, spec.cls_wf, spec.obl_wf, out.wf.is_ok(), obs, req);
    }
    if first_bad.is_some() {
        // (ii) invalid => inconsistent, no serialization
        let case = format!("{}#invalid", base);
        if ctx.want(&case) {
            let ok = !out.consistent && out.ser.is_none();
            let (obs, req) = if ok {
                (String::new(), String::new())
            } else {
                (
                    format!("is_consistent={} serialized_history={:?}", out.consistent, out.ser),
                    format!("is_consistent=false serialized_history=None (first ill-formed event {:?}); events={:?}", first_bad, events),
                )
            };
            ctx.check(&case, spec.cls_invalid, spec.obl_invalid, ok, obs, req);
        }
        return;
    }
    let sound_case = format!("{}#sound", base);
    let complete_case = format!("{}#complete", base);
    let (ws, wc) = (ctx.want(&sound_case), ctx.want(&complete_case));
    if !ws && !wc {
        return;
    }
    let s = admissible(ops, spec.real_time);
    if ws {
        // (iii) soundness: consistent => S non-empty; Some(h) => h in S
        let ok = (!out.consistent || !s.is_empty()) && out.ser.as_ref().map_or(true, |h| s.contains(h));
        let (obs, req) = if ok {
            (String::new(), String::new())
        } else {
            (
                format!("is_consistent={} serialized_history={:?}", out.consistent, out.ser),
                format!("admissible serializations S={:?}; consistent only if S is non-empty, returned order must be in S; events={:?}", s, events),
            )
        };
        ctx.check(&sound_case, spec.cls_sound, spec.obl_sound, ok, obs, req);
    }
    if wc {
        // (iv) completeness: S non-empty => consistent and a serialization is returned
        let ok = s.is_empty() || (out.consistent && out.ser.is_some());
        let (obs, req) = if ok {
            (String::new(), String::new())
        } else {
            (
                format!("is_consistent={} serialized_history={:?}", out.consistent, out.ser),
                format!("consistent, since S is non-empty: S={:?}; events={:?}", s, events),
            )
        };
        ctx.check(&complete_case, spec.cls_complete, spec.obl_complete, ok, obs, req);
    }
}

pub(crate) type Lin = LinearizabilityTester<u8, Register<char>>;

pub(crate) fn new_lin() -> Lin {
    LinearizabilityTester::new(Register('A'))
}

pub(crate) fn lin_ser(t: &Lin) -> Option<Ser> {
    t.serialized_history()
}

const SPEC: Spec = Spec {
    real_time: true,
    cls_wf: "lin-wf",
    cls_invalid: "lin-invalid",
    cls_sound: "lin-sound",
    cls_complete: "lin-complete",
    obl_wf: &[
        "LIN.on_invoke.ensures.sticky",
        "LIN.on_invoke.ensures.reject-second-invoke",
        "LIN.on_invoke.ensures.record",
        "LIN.on_return.ensures.sticky",
        "LIN.on_return.ensures.reject-return-without-invoke",
        "LIN.on_return.ensures.complete",
        "LIN.on_invoke.ensures.event-step",
        "LIN.on_return.ensures.event-step",
    ],
    obl_invalid: &["LIN.serialized_history.ensures.invalid-none", "LIN.is_consistent.ensures.invalid-inconsistent"],
    obl_sound: &[
        "LIN.serialized_history.ensures.legal",
        "LIN.serialized_history.ensures.order",
        "LIN.is_consistent.ensures.sound",
        "LIN.serialize.ensures.legal",
        "LIN.serialize.ensures.order",
        "LIN.on_invoke.ensures.record-last-completed",
    ],
    obl_complete: &["LIN.is_consistent.ensures.complete", "LIN.serialized_history.ensures.complete", "LIN.serialize.ensures.complete", "LIN.serialize.loop2.invariant.explored", "LIN.on_invoke.ensures.record-last-completed"],
};

pub fn run(ctx: &mut Ctx) {
    let only = ctx.only.clone();
    let mut one = |ctx: &mut Ctx, base: &str, events: &[Ev]| {
        if !wants_any(ctx, base, &SUFFIXES) {
            return;
        }
        let (ops, first_bad) = model(events);
        let mut t = new_lin();
        let out = drive_caught(&mut t, events, first_bad, &lin_ser);
        judge(ctx, base, &SPEC, events, &ops, first_bad, &out);
    };
    for_each_history("lin", &only, &mut |base, events| one(ctx, base, events));
    for_each_wf_history3("lin", &only, &mut |base, events| one(ctx, base, events));
}
