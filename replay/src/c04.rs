//! C04: state identity. A recording `Hasher` captures the exact byte stream a value feeds; equal
//! values must feed equal streams however they were built, and values that differ in a component
//! that influences behaviour must feed different streams (and compare unequal).
use crate::Ctx;
use stateright::actor::{Actor, ActorModelState, Envelope, Id, Network, Out, RandomChoices, Timers};
use stateright::util::{DenseNatMap, HashableHashMap, HashableHashSet, VectorClock};
use std::hash::{Hash, Hasher};
use std::sync::Arc;

#[derive(Default)]
pub struct Rec(pub Vec<u8>);
impl Hasher for Rec {
    fn finish(&self) -> u64 {
        0
    }
    fn write(&mut self, bytes: &[u8]) {
        // keep the call structure: std distinguishes `write_u8` .. `write_usize` only by width
        self.0.push(bytes.len() as u8);
        self.0.extend_from_slice(bytes);
    }
}
pub fn stream<T: Hash>(t: &T) -> Vec<u8> {
    let mut r = Rec::default();
    t.hash(&mut r);
    r.0
}

struct A0;
impl Actor for A0 {
    type Msg = u8;
    type State = u8;
    type Timer = u8;
    type Random = u8;
    fn on_start(&self, _id: Id, _o: &mut Out<Self>) -> u8 {
        0
    }
}
type St = ActorModelState<A0, u8>;

fn base() -> St {
    ActorModelState {
        actor_states: vec![Arc::new(1), Arc::new(2)],
        network: Network::new_unordered_nonduplicating([]),
        timers_set: vec![Timers::new(), Timers::new()],
        random_choices: vec![RandomChoices::default(), RandomChoices::default()],
        crashed: vec![false, false],
        history: 0,
    }
}

fn differs(ctx: &mut Ctx, case: &str, class: &str, obl: &[&str], a: &St, b: &St, what: &str) {
    if !ctx.want(case) {
        return;
    }
    let (sa, sb) = (stream(a), stream(b));
    let ok = sa != sb && a != b;
    ctx.check(case, class, obl, ok, format!("streams_equal={} eq={}", sa == sb, a == b), format!("states differing in {} must feed different streams and compare unequal", what));
}

/// Crash flags of systems wider than a machine word: with N = 70 and N = 130 actors every single crash flag, and every
/// pair of different single-crash states, must change the stream and `==` (a packed-word encoding loses the flags of the
/// actors beyond 64). Shared with the C09 oracle ("each resulting combination of crashed actors is a distinct state").
pub(crate) fn wide_crash_flags(ctx: &mut Ctx) {
    for n in [70usize, 130] {
        let wide = |crashed: Option<usize>| -> St {
            let mut c = vec![false; n];
            if let Some(i) = crashed {
                c[i] = true;
            }
            ActorModelState {
                actor_states: (0..n).map(|_| Arc::new(1u8)).collect(),
                network: Network::new_unordered_nonduplicating([]),
                timers_set: (0..n).map(|_| Timers::new()).collect(),
                random_choices: (0..n).map(|_| RandomChoices::default()).collect(),
                crashed: c,
                history: 0,
            }
        };
        let b0 = wide(None);
        let singles: Vec<Vec<u8>> = (0..n).map(|i| stream(&wide(Some(i)))).collect();
        for i in 0..n {
            differs(ctx, &format!("state.crashed-wide:n={}:i={}", n, i), "state-crash-flag-ignored", &["HSH.hash.ensures.feeds-every-field", "HSH.eq.ensures.compares-every-field"], &b0, &wide(Some(i)), "the crash flag of one actor of a wide system");
            let case = format!("state.crashed-wide-pairs:n={}:i={}", n, i);
            if ctx.want(&case) {
                let clash = (0..n).find(|j| *j != i && singles[*j] == singles[i]);
                ctx.check(&case, "state-crash-flag-ignored", &["HSH.hash.ensures.feeds-every-field"], clash.is_none(), format!("Crash({}) and Crash({:?}) feed the same stream", i, clash), "different crashed actors feed different streams".into());
            }
        }
    }
}

pub fn run(ctx: &mut Ctx) {
    wide_crash_flags(ctx);
    // ---- vector clocks: identity up to trailing zeros
    let mut clocks: Vec<Vec<u32>> = vec![vec![]];
    for len in 1..=3usize {
        for code in 0..3u32.pow(len as u32) {
            let mut v = vec![];
            let mut c = code;
            for _ in 0..len {
                v.push(c % 3);
                c /= 3;
            }
            clocks.push(v);
        }
    }
    for a in &clocks {
        for b in &clocks {
            let case = format!("vc.stream:{:?}|{:?}", a, b);
            if !ctx.want(&case) {
                continue;
            }
            let n = a.len().max(b.len());
            let veq = (0..n).all(|i| a.get(i).copied().unwrap_or(0) == b.get(i).copied().unwrap_or(0));
            let (sa, sb) = (stream(&VectorClock::from(a.clone())), stream(&VectorClock::from(b.clone())));
            ctx.check(&case, if veq { "vc-equal-clocks-split" } else { "vc-distinct-clocks-merge" }, &["KX.k_vc_hash"], (sa == sb) == veq, format!("streams_equal={}", sa == sb), format!("streams_equal={}", veq));
        }
    }
    // ---- hashable containers: order / capacity independence
    let elems = [3u8, 7, 11, 200];
    for mask in 0..16u8 {
        let case = format!("hset.order:{:04b}", mask);
        if ctx.want(&case) {
            let members: Vec<u8> = (0..4).filter(|i| mask & (1 << i) != 0).map(|i| elems[i]).collect();
            let mut s1: HashableHashSet<u8> = HashableHashSet::new();
            for m in &members {
                s1.insert(*m);
            }
            let mut s2: HashableHashSet<u8> = HashableHashSet::with_capacity(64);
            for m in members.iter().rev() {
                s2.insert(*m);
            }
            s2.insert(99);
            s2.remove(&99);
            ctx.check(&case, "hset-equal-sets-split", &["HSH.set_hash.ensures.block"], stream(&s1) == stream(&s2) && s1 == s2, "streams differ".into(), "equal sets feed equal streams".into());
            let mut m1: HashableHashMap<u8, u8> = HashableHashMap::new();
            let mut m2: HashableHashMap<u8, u8> = HashableHashMap::with_capacity(64);
            for m in &members {
                m1.insert(*m, m.wrapping_mul(3));
            }
            for m in members.iter().rev() {
                m2.insert(*m, m.wrapping_mul(3));
            }
            ctx.check(&format!("hmap.order:{:04b}", mask), "hmap-equal-maps-split", &["HSH.map_hash.ensures.block"], stream(&m1) == stream(&m2) && m1 == m2, "streams differ".into(), "equal maps feed equal streams".into());
        }
    }
    // ---- nested containers: a set of sets / a map with set values, built in different orders and capacities
    for n in [2usize, 5, 40] {
        let case = format!("hset.nested:{}", n);
        if ctx.want(&case) {
            let inner = |rev: bool, cap: usize| -> HashableHashSet<u32> {
                let mut s: HashableHashSet<u32> = HashableHashSet::with_capacity(cap);
                let it: Vec<u32> = (0..n as u32).map(|k| k * 7919 % 1009).collect();
                if rev { for x in it.iter().rev() { s.insert(*x); } } else { for x in it.iter() { s.insert(*x); } }
                s
            };
            let mut o1: HashableHashSet<HashableHashSet<u32>> = HashableHashSet::new();
            o1.insert(inner(false, 0));
            let mut o2: HashableHashSet<HashableHashSet<u32>> = HashableHashSet::new();
            o2.insert(inner(true, 512));
            let mut m1: HashableHashMap<u8, HashableHashSet<u32>> = HashableHashMap::new();
            m1.insert(1, inner(false, 0));
            let mut m2: HashableHashMap<u8, HashableHashSet<u32>> = HashableHashMap::new();
            m2.insert(1, inner(true, 512));
            let ok = stream(&o1) == stream(&o2) && o1 == o2 && stream(&m1) == stream(&m2) && m1 == m2;
            ctx.check(&case, "hset-nested-equal-sets-split", &["HSS.hash.ensures.self-delimiting-block", "HSS.map_hash.ensures.self-delimiting-block"], ok, "streams of equal nested containers differ".into(), "equal nested sets feed equal streams however they were built".into());
        }
    }
    // ---- which of two adjacent collections holds an element
    for e in [0u8, 5, 255] {
        let case = format!("hset.adjacent:{}", e);
        if ctx.want(&case) {
            let mut with: HashableHashSet<u8> = HashableHashSet::new();
            with.insert(e);
            let without: HashableHashSet<u8> = HashableHashSet::new();
            let (l, r) = (stream(&(with.clone(), without.clone())), stream(&(without, with)));
            ctx.check(&case, "hset-adjacent-collections-merge", &["HSH.set_hash.ensures.self-delimiting"], l != r, format!("({{{0}}}, {{}}) and ({{}}, {{{0}}}) feed the same stream {1:?}", e, l), "different streams".into());
        }
        let case = format!("hmap.adjacent:{}", e);
        if ctx.want(&case) {
            let mut with: HashableHashMap<u8, u8> = HashableHashMap::new();
            with.insert(e, 1);
            let without: HashableHashMap<u8, u8> = HashableHashMap::new();
            let (l, r) = (stream(&(with.clone(), without.clone())), stream(&(without, with)));
            ctx.check(&case, "hmap-adjacent-collections-merge", &["HSH.map_hash.ensures.self-delimiting"], l != r, format!("({{{0}:1}}, {{}}) and ({{}}, {{{0}:1}}) feed the same stream", e), "different streams".into());
        }
    }
    // distinct maps never merge: every map u8 -> u8 with at most two entries over keys and values {0,1,2}
    // (swapped pairs {0:1} / {1:0}, diagonal entries {1:1} / {2:2}, key/value of one type) feeds its own stream
    {
        let mut maps: Vec<(String, HashableHashMap<u8, u8>)> = Vec::new();
        let cells: Vec<(u8, u8)> = (0..3u8).flat_map(|k| (0..3u8).map(move |v| (k, v))).collect();
        for (i, a) in cells.iter().enumerate() {
            let mut m: HashableHashMap<u8, u8> = HashableHashMap::new();
            m.insert(a.0, a.1);
            maps.push((format!("{}.{}", a.0, a.1), m.clone()));
            for b in &cells[i + 1..] {
                if b.0 != a.0 {
                    let mut m2 = m.clone();
                    m2.insert(b.0, b.1);
                    maps.push((format!("{}.{}-{}.{}", a.0, a.1, b.0, b.1), m2));
                }
            }
        }
        let streams: Vec<Vec<u8>> = maps.iter().map(|(_, m)| stream(m)).collect();
        for i in 0..maps.len() {
            for j in i + 1..maps.len() {
                let case = format!("hmap.distinct:{}:{}", maps[i].0, maps[j].0);
                if ctx.want(&case) {
                    ctx.check(&case, "hmap-distinct-maps-merge", &["HSH.map_hash.ensures.self-delimiting", "HSH.map_hash.ensures.block"], streams[i] != streams[j], format!("maps {{{}}} and {{{}}} feed the same stream", maps[i].0, maps[j].0), "different maps feed different streams".into());
                }
            }
        }
    }
    // two timer sets of adjacent actors (the concrete shape of the previous case inside a state)
    {
        let case = "state.timer-owner".to_string();
        let mut a = base();
        a.timers_set[0].set(9);
        let mut b = base();
        b.timers_set[1].set(9);
        differs(ctx, &case, "state-timer-owner-merge", &["HSH.set_hash.ensures.self-delimiting"], &a, &b, "which actor has the timer set");
    }
    // ---- actor-system states: every component takes part in identity
    let b0 = base();
    let mut s = base();
    s.crashed[1] = true;
    differs(ctx, "state.crashed", "state-crash-flag-ignored", &["HSH.hash.ensures.feeds-every-field", "HSH.eq.ensures.compares-every-field"], &b0, &s, "a crash flag");
    let mut s = base();
    s.random_choices[0].insert("k".to_string(), vec![1, 2]);
    differs(ctx, "state.random", "state-random-choice-ignored", &["HSH.hash.ensures.feeds-every-field", "HSH.eq.ensures.compares-every-field"], &b0, &s, "a pending random choice");
    let mut s2 = base();
    s2.random_choices[0].insert("k".to_string(), vec![1, 3]);
    differs(ctx, "state.random-values", "state-random-choice-ignored", &["HSH.hash.ensures.feeds-every-field"], &s, &s2, "the values of a pending random choice");
    let mut s = base();
    s.timers_set[0].set(4);
    differs(ctx, "state.timer", "state-timer-ignored", &["HSH.hash.ensures.feeds-every-field"], &b0, &s, "a set timer");
    let mut s = base();
    s.network = Network::new_unordered_nonduplicating([Envelope { src: Id::from(0), dst: Id::from(1), msg: 5u8 }]);
    differs(ctx, "state.network", "state-network-ignored", &["HSH.hash.ensures.feeds-every-field"], &b0, &s, "an in-flight message");
    let mut s = base();
    s.actor_states[1] = Arc::new(3);
    differs(ctx, "state.actor", "state-actor-ignored", &["HSH.hash.ensures.feeds-every-field"], &b0, &s, "an actor state");
    let mut s = base();
    s.history = 1;
    differs(ctx, "state.history", "state-history-ignored", &["HSH.hash.ensures.feeds-every-field"], &b0, &s, "the history");
    // equal states built differently stay equal (trailing actors without pending choices)
    {
        let case = "state.equal-rebuilt".to_string();
        if ctx.want(&case) {
            let a = base();
            let mut b = base();
            b.timers_set[0].set(1);
            b.timers_set[0].cancel(&1);
            b.random_choices[1].insert("x".to_string(), vec![1]);
            b.random_choices[1].remove(&"x".to_string());
            ctx.check(&case, "state-equal-states-split", &["HSH.hash.ensures.feeds-every-field"], stream(&a) == stream(&b) && a == b, "differ".into(), "equal".into());
        }
    }
    // ---- networks and dense maps: equal contents, different construction order
    {
        let e = |s: usize, d: usize, m: u8| Envelope { src: Id::from(s), dst: Id::from(d), msg: m };
        let n1: Network<u8> = Network::new_unordered_nonduplicating([e(0, 1, 1), e(1, 0, 2), e(0, 1, 1)]);
        let n2: Network<u8> = Network::new_unordered_nonduplicating([e(0, 1, 1), e(0, 1, 1), e(1, 0, 2)]);
        let n3: Network<u8> = Network::new_unordered_nonduplicating([e(0, 1, 1), e(1, 0, 2)]);
        if ctx.want("net.order") {
            ctx.check("net.order", "network-equal-split", &["HSH.map_hash.ensures.block"], stream(&n1) == stream(&n2) && n1 == n2, "differ".into(), "equal".into());
        }
        if ctx.want("net.count") {
            ctx.check("net.count", "network-copy-count-ignored", &["HSH.map_hash.ensures.block"], stream(&n1) != stream(&n3) && n1 != n3, "same".into(), "two copies vs one copy differ".into());
        }
        let d1: DenseNatMap<usize, u8> = vec![(1usize, 8u8), (0, 7)].into_iter().collect();
        let d2: DenseNatMap<usize, u8> = vec![(0usize, 7u8), (1, 8)].into_iter().collect();
        if ctx.want("dnm.order") {
            ctx.check("dnm.order", "dnm-equal-split", &["DNM.from_iter_pairs"], stream(&d1) == stream(&d2) && d1 == d2, "differ".into(), "equal".into());
        }
    }
}
