//! C18: reference objects (is_valid_step == invoke-and-compare, is_valid_history) and the register
//! clients, on enumerated small inputs against the real crate.
use crate::probe::*;
use crate::Ctx;
use stateright::actor::register::*;
use stateright::actor::write_once_register::*;
use stateright::actor::*;
use stateright::semantics::register::*;
use stateright::semantics::vec::*;
use stateright::semantics::write_once_register::*;
use stateright::semantics::SequentialSpec;
use std::borrow::Cow;
use std::fmt::Debug;

fn step_vs_invoke<S, F>(ctx: &mut Ctx, label: &str, obl: &[&str], objs: &[S], ops: &[S::Op], rets: &[S::Ret], state: F)
where
    S: SequentialSpec + Clone + Debug,
    S::Op: Debug,
    S::Ret: Debug,
    F: Fn(&S, &S) -> bool,
{
    for (i, o) in objs.iter().enumerate() {
        for (j, op) in ops.iter().enumerate() {
            for (k, ret) in rets.iter().enumerate() {
                let case = format!("{}.step:{}|{}|{}", label, i, j, k);
                if !ctx.want(&case) {
                    continue;
                }
                let mut a = o.clone();
                let got = a.invoke(op);
                let mut b = o.clone();
                let ok = b.is_valid_step(op, ret);
                let want = &got == ret;
                let good = ok == want && (!ok || state(&a, &b));
                ctx.check(&case, &format!("{}-valid-step", label), obl, good, format!("is_valid_step={} state={:?}", ok, b), format!("invoke={:?} state={:?} expected ret={:?}", got, a, ret));
            }
        }
    }
}

pub fn run(ctx: &mut Ctx) {
    let vals = ['A', 'B'];
    // Register
    let objs: Vec<Register<char>> = vals.iter().map(|c| Register(*c)).collect();
    let mut ops = vec![RegisterOp::Read];
    let mut rets = vec![RegisterRet::WriteOk];
    for c in vals {
        ops.push(RegisterOp::Write(c));
        rets.push(RegisterRet::ReadOk(c));
    }
    step_vs_invoke(ctx, "register", &["SEQ.is_valid_step.ensures.iff-invoke-eq", "SEQ.is_valid_step.ensures.state", "SEQ.invoke.ensures.spec"], &objs, &ops, &rets, |a, b| a == b);
    // WORegister
    let mut objs: Vec<WORegister<char>> = vec![WORegister(None)];
    let mut ops = vec![WORegisterOp::Read];
    let mut rets = vec![WORegisterRet::WriteOk, WORegisterRet::WriteFail, WORegisterRet::ReadOk(None)];
    for c in vals {
        objs.push(WORegister(Some(c)));
        ops.push(WORegisterOp::Write(c));
        rets.push(WORegisterRet::ReadOk(Some(c)));
    }
    step_vs_invoke(ctx, "wo", &["KX.k_wo_valid_step", "KX.k_wo_invoke"], &objs, &ops, &rets, |a, b| a == b);
    // documented WO semantics of invoke
    for o in &objs {
        for op in &ops {
            let case = format!("wo.invoke:{:?}|{:?}", o, op);
            if ctx.want(&case) {
                let mut a = o.clone();
                let got = a.invoke(op);
                let (ws, wr) = match (op, &o.0) {
                    (WORegisterOp::Write(v), None) => (Some(*v), WORegisterRet::WriteOk),
                    (WORegisterOp::Write(v), Some(p)) if p == v => (Some(*v), WORegisterRet::WriteOk),
                    (WORegisterOp::Write(_), Some(p)) => (Some(*p), WORegisterRet::WriteFail),
                    (WORegisterOp::Read, s) => (*s, WORegisterRet::ReadOk(*s)),
                };
                ctx.check(&case, "wo-invoke", &["KX.k_wo_invoke"], got == wr && a.0 == ws, format!("{:?} {:?}", got, a), format!("{:?} {:?}", wr, ws));
            }
        }
    }
    // Vec
    let objs: Vec<Vec<char>> = vec![vec![], vec!['A'], vec!['A', 'B']];
    let ops = vec![VecOp::Push('A'), VecOp::Push('B'), VecOp::Pop, VecOp::Len];
    let rets = vec![VecRet::PushOk, VecRet::PopOk(None), VecRet::PopOk(Some('A')), VecRet::PopOk(Some('B')), VecRet::LenOk(0), VecRet::LenOk(1), VecRet::LenOk(2)];
    step_vs_invoke(ctx, "vec", &["SEQ.vec_is_valid_step.ensures.iff-invoke-eq", "SEQ.vec_is_valid_step.ensures.state", "SEQ.vec_invoke.ensures.spec"], &objs, &ops, &rets, |a, b| a == b);
    // is_valid_history accepts exactly the invoke traces (register, length <= 3)
    let ops = [RegisterOp::Read, RegisterOp::Write('A'), RegisterOp::Write('B')];
    let rets = [RegisterRet::WriteOk, RegisterRet::ReadOk('A'), RegisterRet::ReadOk('B')];
    let mut hist: Vec<Vec<(usize, usize)>> = vec![vec![]];
    for _ in 0..3 {
        let mut next = Vec::new();
        for h in &hist {
            for o in 0..3 {
                for r in 0..3 {
                    let mut h2 = h.clone();
                    h2.push((o, r));
                    next.push(h2);
                }
            }
        }
        for h in next.iter() {
            let case = format!("register.history:{:?}", h);
            if ctx.want(&case) {
                let mut obj = Register('A');
                let got = obj.is_valid_history(h.iter().map(|(o, r)| (ops[*o].clone(), rets[*r].clone())));
                let mut m = Register('A');
                let want = h.iter().all(|(o, r)| m.invoke(&ops[*o]) == rets[*r]);
                ctx.check(&case, "valid-history", &["SEQ.is_valid_step.ensures.iff-invoke-eq", "SQH.is_valid_history.ensures.true-iff-every-step-is-the-invoke-step",
                    "SQH.is_valid_history.loop1.invariant.accepted-so-far", "SQH.is_valid_history.loop1.invariant.stopped-at-the-first-rejected-step"], got == want, format!("{}", got), format!("{}", want));
                // the object afterwards: the state after the accepted prefix (`all` stops at the first rejected step;
                // `Register::is_valid_step` leaves the register unchanged when it rejects)
                let mut w = Register('A');
                for (o, r) in h.iter() {
                    let mut probe = w.clone();
                    if probe.invoke(&ops[*o]) != rets[*r] { break; }
                    w = probe;
                }
                let case2 = format!("register.history-state:{:?}", h);
                ctx.check(&case2, "valid-history-state", &["SQH.is_valid_history.ensures.accepted-history-leaves-the-state-after-all-steps",
                    "SQH.is_valid_history.ensures.rejected-history-stops-at-the-first-rejected-step", "SQH.is_valid_history.loop1.invariant.accepted-so-far"], obj == w, format!("{:?}", obj), format!("{:?}", w));
            }
        }
        hist = next;
    }
    // register client: one outstanding request, fresh ids
    for put_count in 0..3usize {
        for server_count in 1..3usize {
            for idx in server_count..server_count + 2 {
                let case = format!("client.session:put={} servers={} idx={}", put_count, server_count, idx);
                if !ctx.want(&case) {
                    continue;
                }
                let a: RegisterActor<P<RegisterMsg<u64, char, u8>>> = RegisterActor::Client { put_count, server_count };
                let mut o = Out::new();
                let mut st = a.on_start(Id::from(idx), &mut o);
                let mut ok = true;
                let mut ids: Vec<u64> = vec![];
                let mut outstanding: Option<(u64, bool)> = None; // (id, is_put)
                let mut log = String::new();
                let mut sent = o.len();
                for c in o.iter() {
                    if let Command::Send(_, RegisterMsg::Put(r, _)) = c {
                        outstanding = Some((*r, true));
                        ids.push(*r);
                    }
                }
                ok &= (put_count == 0) == (sent == 0) && sent <= 1;
                for _round in 0..6 {
                    // a stale / unrelated reply changes nothing
                    let mut s2 = Cow::Borrowed(&st);
                    let mut o2 = Out::new();
                    a.on_msg(Id::from(idx), &mut s2, Id::from(0), RegisterMsg::PutOk(999_999), &mut o2);
                    ok &= matches!(s2, Cow::Borrowed(_)) && o2.len() == 0;
                    let (rid, is_put) = match outstanding {
                        Some(x) => x,
                        None => break,
                    };
                    let reply = if is_put { RegisterMsg::PutOk(rid) } else { RegisterMsg::GetOk(rid, 'A') };
                    let mut s3 = Cow::Borrowed(&st);
                    let mut o3 = Out::new();
                    a.on_msg(Id::from(idx), &mut s3, Id::from(0), reply, &mut o3);
                    ok &= o3.len() <= 1;
                    outstanding = None;
                    for c in o3.iter() {
                        match c {
                            Command::Send(_, RegisterMsg::Put(r, _)) => outstanding = Some((*r, true)),
                            Command::Send(_, RegisterMsg::Get(r)) => outstanding = Some((*r, false)),
                            _ => ok = false,
                        }
                    }
                    if let Some((r, _)) = outstanding {
                        ok &= ids.iter().all(|p| *p < r);
                        ids.push(r);
                    }
                    sent += o3.len();
                    st = s3.into_owned();
                    log.push_str(&format!("{:?};", st));
                }
                // total requests: put_count puts followed by one get (when put_count > 0)
                let want_sent = if put_count == 0 { 0 } else { put_count + 1 };
                ok &= sent == want_sent;
                ctx.check(&case, "client-session", &["KX.k_client_reg_start", "KX.k_client_reg_reply", "KX.k_client_reg_idle"], ok, format!("sent={} ids={:?} {}", sent, ids, log), format!("sent={} strictly increasing ids, one outstanding", want_sent));
            }
        }
    }
}
