//! C20: vector clocks and dense maps.
use crate::Ctx;
use stateright::util::{DenseNatMap, VectorClock};
use std::cmp::Ordering;
use std::collections::hash_map::DefaultHasher;
use std::hash::{Hash, Hasher};
use std::panic::catch_unwind;

fn at(v: &[u32], i: usize) -> u32 {
    v.get(i).copied().unwrap_or(0)
}
fn veq(a: &[u32], b: &[u32]) -> bool {
    (0..a.len().max(b.len())).all(|i| at(a, i) == at(b, i))
}
fn vle(a: &[u32], b: &[u32]) -> bool {
    (0..a.len().max(b.len())).all(|i| at(a, i) <= at(b, i))
}
fn clocks() -> Vec<Vec<u32>> {
    let mut out = vec![vec![]];
    for len in 1..=3usize {
        let mut idx = vec![0u32; len];
        loop {
            out.push(idx.clone());
            let mut k = 0;
            while k < len {
                idx[k] += 1;
                if idx[k] < 3 {
                    break;
                }
                idx[k] = 0;
                k += 1;
            }
            if k == len {
                break;
            }
        }
    }
    out
}
fn h(c: &VectorClock) -> u64 {
    let mut s = DefaultHasher::new();
    c.hash(&mut s);
    s.finish()
}
/// Recovers the components through the public API (Display is lossy, so compare via merge/eq).
fn comps(c: &VectorClock, n: usize) -> Vec<u32> {
    // component i is the largest k such that [0.., k at i] <= c
    (0..n)
        .map(|i| {
            let mut k = 0u32;
            loop {
                let mut probe = vec![0u32; i + 1];
                probe[i] = k + 1;
                if VectorClock::from(probe).partial_cmp(c).map(|o| o != Ordering::Greater).unwrap_or(false) {
                    k += 1;
                    if k > 10 {
                        return k;
                    }
                } else {
                    return k;
                }
            }
        })
        .collect()
}

pub fn run(ctx: &mut Ctx) {
    let cs = clocks();
    for a in &cs {
        for b in &cs {
            let (ca, cb) = (VectorClock::from(a.clone()), VectorClock::from(b.clone()));
            let id = format!("vc.eq:{:?}|{:?}", a, b);
            if ctx.want(&id) {
                ctx.check(&id, "vc-eq", &["VC.eq.ensures.veq"], (ca == cb) == veq(a, b), format!("{}", ca == cb), format!("{}", veq(a, b)));
            }
            let id = format!("vc.partial_cmp:{:?}|{:?}", a, b);
            if ctx.want(&id) {
                let want = if veq(a, b) {
                    Some(Ordering::Equal)
                } else if vle(a, b) {
                    Some(Ordering::Less)
                } else if vle(b, a) {
                    Some(Ordering::Greater)
                } else {
                    None
                };
                let got = ca.partial_cmp(&cb);
                ctx.check(&id, "vc-partial-cmp", &["VC.partial_cmp.ensures.equal", "VC.partial_cmp.ensures.less", "VC.partial_cmp.ensures.greater", "VC.partial_cmp.ensures.none"],
                    got == want, format!("{:?}", got), format!("{:?}", want));
            }
            let id = format!("vc.merge_max:{:?}|{:?}", a, b);
            if ctx.want(&id) {
                let m = VectorClock::merge_max(&ca, &cb);
                let want: Vec<u32> = (0..3).map(|i| at(a, i).max(at(b, i))).collect();
                let got = comps(&m, 3);
                ctx.check(&id, "vc-merge-max", &["VC.merge_max.ensures.lub-pointwise"], got == want, format!("{:?}", got), format!("{:?}", want));
            }
            let id = format!("vc.hash:{:?}|{:?}", a, b);
            if ctx.want(&id) && veq(a, b) {
                ctx.check(&id, "vc-hash-eq", &["VC.hash.ensures.stream"], h(&ca) == h(&cb), "hash differs".into(), "equal clocks hash equally".into());
            }
        }
        for i in 0..4usize {
            let id = format!("vc.incremented:{:?}|{}", a, i);
            if ctx.want(&id) {
                let r = VectorClock::from(a.clone()).incremented(i);
                let mut want: Vec<u32> = (0..4).map(|k| at(a, k)).collect();
                want[i] += 1;
                let got = comps(&r, 4);
                let gt = VectorClock::from(a.clone()).partial_cmp(&r) == Some(Ordering::Less);
                ctx.check(&id, "vc-incremented", &["VC.incremented.ensures.component", "VC.incremented.ensures.frame"], got == want && gt, format!("{:?} less={}", got, gt), format!("{:?} less=true", want));
            }
        }
    }
    // DenseNatMap: total map on 0..len
    for len in 0..4usize {
        let base: Vec<u32> = (0..len as u32).map(|k| 10 + k).collect();
        for key in 0..5usize {
            let id = format!("dnm.get:{}|{}", len, key);
            if ctx.want(&id) {
                let m: DenseNatMap<usize, u32> = DenseNatMap::from_iter(base.clone());
                let got = m.get(key).copied();
                let want = base.get(key).copied();
                ctx.check(&id, "dnm-get", &["DNM.get.ensures.total"], got == want && m.len() == len, format!("{:?}", got), format!("{:?}", want));
            }
            let id = format!("dnm.insert:{}|{}", len, key);
            if ctx.want(&id) {
                let b2 = base.clone();
                let res = catch_unwind(move || {
                    let mut m: DenseNatMap<usize, u32> = DenseNatMap::from_iter(b2);
                    let old = m.insert(key, 99);
                    let vals: Vec<u32> = m.values().copied().collect();
                    (old, vals)
                });
                let want = if key > len {
                    None
                } else {
                    let mut v = base.clone();
                    let old = if key == len {
                        v.push(99);
                        None
                    } else {
                        let o = v[key];
                        v[key] = 99;
                        Some(o)
                    };
                    Some((old, v))
                };
                let got = res.ok();
                ctx.check(&id, "dnm-insert", &["DNM.insert.ensures.view", "DNM.insert.ensures.old-value", "DNM.insert.body"], got == want, format!("{:?}", got), format!("{:?}", want));
            }
        }
    }
    // from_iter over pairs: for EVERY key vector of length <= 5 over keys 0..=len: accepted iff the keys
    // are a permutation of 0..len, and then each key maps to its value whatever the input order
    // (lengths 4 and 5 as well: a placement that is not a full sort first goes wrong on a 4-cycle of keys)
    for len in 0..=5usize {
        let base = (len + 1).max(4);
        for code in 0..base.pow(len as u32) {
            let keys: Vec<usize> = (0..len).map(|k| (code / base.pow(k as u32)) % base).collect();
            let id = format!("dnm.from_pairs:{:?}", keys);
            if !ctx.want(&id) { continue; }
            let mut sorted = keys.clone();
            sorted.sort();
            let is_perm = sorted.iter().enumerate().all(|(i, k)| *k == i);
            let pairs: Vec<(usize, u32)> = keys.iter().enumerate().map(|(pos, &k)| (k, 100 + 10 * k as u32 + pos as u32)).collect();
            let want: Option<Vec<u32>> = if is_perm {
                let mut v = vec![0u32; len];
                for (k, val) in &pairs { v[*k] = *val; }
                Some(v)
            } else { None };
            let res = catch_unwind(move || {
                let m: DenseNatMap<usize, u32> = pairs.into_iter().collect();
                m.values().copied().collect::<Vec<u32>>()
            });
            let got = res.ok();
            ctx.check(&id, if is_perm { "dnm-from-pairs" } else { "dnm-from-pairs-reject" }, &["KX.k_dnm_from_pairs_accepts_permutations", "KX.k_dnm_from_pairs_rejects_gaps_and_duplicates",
                "DNX.from_pairs.body", "DNX.from_pairs.ensures.length", "DNX.from_pairs.ensures.total-map-of-the-pairs", "DNX.from_pairs.loop2.invariant.keys-are-the-pair-keys",
                "DNX.from_pairs_or_panic.ensures.returns-only-if-the-keys-are-a-permutation", "DNX.from_pairs_or_panic.loop3.invariant.checked-keys-are-the-positions"], got == want, format!("{:?}", got), format!("{:?} (None = must panic: gap or duplicate key)", want));
        }
    }
}
