//! C10: symmetry reduction on a small symmetric model (processes with interchangeable identities),
//! and the provided representative / sorting plan on concrete values.
use crate::Ctx;
use stateright::actor::{ActorModelState, Envelope, Id, Network, RandomChoices, Timers};
use stateright::util::DenseNatMap;
use stateright::{Checker, Expectation, Model, Property, Representative, Rewrite, RewritePlan};
use std::collections::BTreeSet;
use std::sync::Arc;

/// n interchangeable processes, each a counter 0..=2; any process below `cap` may step, and a
/// process at 1 may also reset a peer that is at 2 (so the graph has joins and cycles).
#[derive(Clone)]
struct Sym { n: usize, cap: u8, bad: (u8, u8), want: u8, inits: u8 }
impl Model for Sym {
    type State = Vec<u8>;
    type Action = (u8, usize, usize);
    fn init_states(&self) -> Vec<Vec<u8>> {
        // inits 0: the all-zero state. 1/2: two mirror-image init states of which only one is its own
        // representative, in both listing orders (the path of a discovery must start at the ORIGINAL init state).
        let mut lo = vec![0; self.n]; lo[self.n - 1] = 1;
        let mut hi = vec![0; self.n]; hi[0] = 1;
        match self.inits { 0 => vec![vec![0; self.n]], 1 => vec![lo, hi], 2 => vec![hi, lo], _ => vec![hi] }
    }
    fn actions(&self, s: &Vec<u8>, a: &mut Vec<Self::Action>) {
        for i in 0..self.n {
            if s[i] < self.cap { a.push((0, i, 0)); }
            if s[i] == 1 {
                for j in 0..self.n { if j != i && s[j] == 2 { a.push((1, i, j)); } }
            }
        }
    }
    fn next_state(&self, s: &Vec<u8>, a: Self::Action) -> Option<Vec<u8>> {
        let mut t = s.clone();
        match a { (0, i, _) => t[i] += 1, (_, _, j) => t[j] = 0 }
        Some(t)
    }
    fn properties(&self) -> Vec<Property<Self>> {
        vec![
            // symmetric predicates: they only count processes
            Property::always("few-bad", |m: &Sym, s: &Vec<u8>| !(s.iter().filter(|x| **x == m.bad.0).count() as u8 >= m.bad.1)),
            Property::sometimes("all-want", |m: &Sym, s: &Vec<u8>| s.iter().all(|x| *x == m.want)),
        ]
    }
}
fn rep(s: &Vec<u8>) -> Vec<u8> { let mut t = s.clone(); t.sort(); t }

struct P;
impl stateright::actor::Actor for P {
    type Msg = Id; type State = Vec<Id>; type Timer = u8; type Random = u8;
    fn on_start(&self, _id: Id, _o: &mut stateright::actor::Out<Self>) -> Vec<Id> { vec![] }
}

pub fn run(ctx: &mut Ctx) {
    for n in 2..=3usize {
        for cap in 1..=2u8 {
            for bad in [(2u8, 1u8), (2, 2), (1, 2), (2, 3), (3, 1)] {
                for (want, inits) in [(0u8, 0u8), (1, 0), (2, 0), (1, 1), (2, 1), (1, 2), (2, 2), (2, 3), (1, 3)] {
                    let case = if inits == 0 { format!("sym:n={} cap={} bad={:?} want={}", n, cap, bad, want) } else { format!("sym:n={} cap={} bad={:?} want={} inits={}", n, cap, bad, want, inits) };
                    if !ctx.want(&case) { continue; }
                    let m = Sym { n, cap, bad, want, inits };
                    let r = std::panic::catch_unwind(std::panic::AssertUnwindSafe(|| {
                    let plain = m.clone().checker().spawn_dfs().join();
                    let red = m.clone().checker().symmetry_fn(rep).spawn_dfs().join();
                    let dp: BTreeSet<&str> = plain.discoveries().keys().copied().collect();
                    let dr: BTreeSet<&str> = red.discoveries().keys().copied().collect();
                    // reported paths are real executions of the ORIGINAL model ending in a witness
                    let mut paths_ok = true;
                    for (name, path) in red.discoveries() {
                        let states = path.clone().into_states();
                        let acts = path.into_actions();
                        paths_ok &= m.init_states().contains(&states[0]);
                        for (k, a) in acts.iter().enumerate() {
                            let mut av = vec![]; m.actions(&states[k], &mut av);
                            paths_ok &= av.contains(a) && m.next_state(&states[k], *a) == Some(states[k + 1].clone());
                        }
                        let last = states.last().unwrap();
                        let p = m.properties().into_iter().find(|p| p.name == name).unwrap();
                        let holds = (p.condition)(&m, last);
                        paths_ok &= match p.expectation { Expectation::Always => !holds, Expectation::Sometimes => holds, _ => true };
                    }
                    // class count: at least one state per class, never more states than unreduced
                    let full = m.clone().checker().visitor(stateright::StateRecorder::new_with_accessor().0).spawn_dfs().join();
                    let _ = full;
                    let classes_lower = red.unique_state_count() >= 1;
                    let ok = dp == dr && paths_ok && red.unique_state_count() <= plain.unique_state_count() && classes_lower;
                    (ok, format!("plain={:?}/{} reduced={:?}/{} paths_real={}", dp, plain.unique_state_count(), dr, red.unique_state_count(), paths_ok))
                    }));
                    let (ok, got) = r.unwrap_or_else(|e| (false, format!("panicked: {}", e.downcast_ref::<String>().cloned().or(e.downcast_ref::<&str>().map(|s| s.to_string())).unwrap_or_default())));
                    ctx.check(&case, "symmetry-verdict-or-path", &["DFS.check_block.ensures.symmetry-pushes-original"], ok, got,
                        "same verdicts, real paths, no more states than unreduced".into());
                }
            }
        }
    }
    // the sorting plan on concrete vectors (all 3^3 and 4^... small ones): stable sorting permutation
    for code in 0..81u32 {
        let v: Vec<u8> = (0..4).map(|k| ((code / 3u32.pow(k)) % 3) as u8).collect();
        let case = format!("plan:{:?}", v);
        if !ctx.want(&case) { continue; }
        let plan = RewritePlan::<Id, _>::from_values_to_sort(&v);
        let p: Vec<usize> = (0..4).map(|i| usize::from(plan.rewrite(&Id::from(i)))).collect();
        let mut idx: Vec<usize> = (0..4).collect();
        idx.sort_by_key(|i| (v[*i], *i));
        let want: Vec<usize> = (0..4).map(|i| idx.iter().position(|j| *j == i).unwrap()).collect();
        let xs = vec![10u8, 11, 12, 13];
        let out: Vec<u8> = plan.reindex(&xs);
        let moved = (0..4).all(|i| out[p[i]] == xs[i]);
        ctx.check(&case, "plan-not-stable-sorting-permutation", &["KX.k_plan_is_stable_sorting_permutation", "KX.k_plan_reindex_moves_each_element_to_its_new_index"], p == want && moved, format!("p={:?} out={:?}", p, out), format!("p={:?}", want));
    }
    // DenseNatMap::rewrite under the sorting plan (unit DNX): the map is reindexed by the plan, `r[p[i]] == m[i]` (u8 values are
    // their own rewrite), same length; lengths 0..=4 over values 0..3, and a map keyed by ANOTHER type (usize) is left in place
    for len in 0..=5usize {
        for code in 0..5u32.pow(len as u32) {
            // five distinct values allow every permutation of up to five keys, incl. the 4- and 5-cycles
            let v: Vec<u8> = (0..len as u32).map(|k| ((code / 5u32.pow(k)) % 5) as u8).collect();
            let case = format!("dnm-rewrite:{:?}", v);
            if !ctx.want(&case) { continue; }
            let plan = RewritePlan::<Id, _>::from_values_to_sort(&v);
            let p: Vec<usize> = (0..len).map(|i| usize::from(plan.rewrite(&Id::from(i)))).collect();
            let xs: Vec<u8> = (0..len as u8).map(|i| 10 + i).collect();
            let m: DenseNatMap<Id, u8> = xs.iter().copied().collect();
            // (rewrite collects through `FromIterator<(K, V)>`, which panics on what it takes for a gap or duplicate)
            let r = match std::panic::catch_unwind(std::panic::AssertUnwindSafe(|| m.rewrite(&plan))) {
                Ok(r) => r,
                Err(_) => { ctx.check(&case, "dnm-rewrite-not-reindexed-by-the-plan", &["DNX.dnm_rewrite.body", "DNX.from_pairs.body"], false, format!("p={:?}: rewrite panicked", p), "no panic: the rewritten keys are a permutation".into()); continue; }
            };
            let ok = r.len() == len && (0..len).all(|i| r.get(Id::from(p[i])) == Some(&xs[i]));
            ctx.check(&case, "dnm-rewrite-not-reindexed-by-the-plan", &["KX.k_dnm_rewrite_moves_values_to_rewritten_keys", "DNX.dnm_rewrite.ensures.moved-to-rewritten-key-and-rewritten",
                "DNX.dnm_rewrite.ensures.same-length", "DNX.dnm_rewrite.loop1.invariant.pairs-rewritten-so-far", "DNX.dnm_rewrite.body", "DNX.iter.loop1.invariant.pairs-so-far"],
                ok, format!("p={:?} r={:?}", p, r), format!("r[p[i]] == {:?}[i]", xs));
        }
    }
    // longer vectors with many ties (std's unstable sorts are stable only below their small-input threshold)
    for len in [20usize, 33, 48, 64, 100] {
        for seed in 0..6u64 {
            let case = format!("plan-long:len={} seed={}", len, seed);
            if !ctx.want(&case) { continue; }
            let mut x = seed.wrapping_mul(0x9E3779B97F4A7C15).wrapping_add(len as u64);
            let v: Vec<u8> = (0..len).map(|_| { x ^= x << 13; x ^= x >> 7; x ^= x << 17; (x % 3) as u8 }).collect();
            let plan = RewritePlan::<Id, _>::from_values_to_sort(&v);
            let p: Vec<usize> = (0..len).map(|i| usize::from(plan.rewrite(&Id::from(i)))).collect();
            let mut idx: Vec<usize> = (0..len).collect();
            idx.sort_by_key(|i| (v[*i], *i));
            let want: Vec<usize> = (0..len).map(|i| idx.iter().position(|j| *j == i).unwrap()).collect();
            let xs: Vec<u16> = (0..len as u16).collect();
            let out: Vec<u16> = plan.reindex(&xs);
            let moved = (0..len).all(|i| out[p[i]] == xs[i]);
            ctx.check(&case, "plan-not-stable-sorting-permutation", &["KX.k_plan_is_stable_sorting_permutation", "KX.k_plan_reindex_moves_each_element_to_its_new_index"], p == want && moved, format!("v={:?} p={:?}", v, p), format!("p={:?}", want));
        }
    }
    // representative(): one permutation applied consistently to every component
    {
        let case = "representative:3 actors".to_string();
        if ctx.want(&case) {
            let mut t1 = Timers::new(); t1.set(7u8);
            let mut rc = RandomChoices::default(); rc.insert("k".to_string(), vec![5u8]);
            let st: ActorModelState<P, Vec<Id>> = ActorModelState {
                actor_states: vec![Arc::new(vec![Id::from(2)]), Arc::new(vec![]), Arc::new(vec![Id::from(0)])],
                network: Network::new_unordered_nonduplicating([Envelope { src: Id::from(0), dst: Id::from(2), msg: Id::from(1) }]),
                timers_set: vec![t1.clone(), Timers::new(), Timers::new()],
                random_choices: vec![RandomChoices::default(), RandomChoices::default(), rc.clone()],
                crashed: vec![false, true, false],
                history: vec![Id::from(0), Id::from(1), Id::from(2)],
            };
            // sorted actor states: [] (old 1) < [Id0] (old 2) < [Id2] (old 0): p = {0->2, 1->0, 2->1}
            let r = st.representative();
            let p = |i: usize| [2usize, 0, 1][i];
            let ok = *r.actor_states[p(0)] == vec![Id::from(p(2))] && r.actor_states[p(1)].is_empty() && *r.actor_states[p(2)] == vec![Id::from(p(0))]
                && r.crashed == vec![true, false, false]
                && r.timers_set[p(0)] == t1 && r.timers_set[p(1)] == Timers::new()
                && format!("{:?}", r.random_choices[p(2)]) == format!("{:?}", rc)
                && r.history == vec![Id::from(p(0)), Id::from(p(1)), Id::from(p(2))]
                && r.network == Network::new_unordered_nonduplicating([Envelope { src: Id::from(p(0)), dst: Id::from(p(2)), msg: Id::from(p(1)) }]);
            ctx.check(&case, "representative-inconsistent-permutation", &["REP.representative.ensures.one-plan-every-component"], ok, format!("{:?}", r), "every component permuted by the same plan".into());
        }
    }
    // Rewrite for WORegisterMsg: every variant is rewritten to the SAME variant (request ids untouched, values / internal
    // messages rewritten by the plan)
    {
        use stateright::actor::write_once_register::WORegisterMsg as W;
        let plan = RewritePlan::<Id, _>::from_values_to_sort(&vec![2u8, 0, 1]);
        let p = |i: usize| Id::from([2usize, 0, 1][i]);
        let cases: Vec<(&str, W<u64, Id, Id>, W<u64, Id, Id>)> = vec![
            ("internal", W::Internal(Id::from(0)), W::Internal(p(0))),
            ("put", W::Put(7, Id::from(1)), W::Put(7, p(1))),
            ("get", W::Get(8), W::Get(8)),
            ("putok", W::PutOk(9), W::PutOk(9)),
            ("putfail", W::PutFail(10), W::PutFail(10)),
            ("getok", W::GetOk(11, Id::from(2)), W::GetOk(11, p(2))),
        ];
        for (name, m, want) in cases {
            let case = format!("wo-msg-rewrite:{}", name);
            if !ctx.want(&case) { continue; }
            let got = m.rewrite(&plan);
            ctx.check(&case, "message-rewrite-changes-the-variant", &["RW.wo_msg_rewrite.ensures.same-variant"], got == want, format!("{:?}", got), format!("{:?}", want));
        }
    }
    // Network::rewrite on every network kind AFTER a delivery (the duplicating network remembers the last delivery:
    // that envelope is part of the state and must be permuted like every other endpoint)
    for kind in ["dup", "nondup", "ordered"] {
        let case = format!("network-rewrite-after-delivery:{}", kind);
        if !ctx.want(&case) { continue; }
        let mk = |envs: Vec<Envelope<Id>>| match kind {
            "dup" => Network::new_unordered_duplicating(envs),
            "nondup" => Network::new_unordered_nonduplicating(envs),
            _ => Network::new_ordered(envs),
        };
        let e = |s: usize, d: usize, m: usize| Envelope { src: Id::from(s), dst: Id::from(d), msg: Id::from(m) };
        // values [2,0,1] sort to [0,1,2]: old 0 -> 2, old 1 -> 0, old 2 -> 1
        let plan = RewritePlan::<Id, _>::from_values_to_sort(&vec![2u8, 0, 1]);
        let p = |i: usize| [2usize, 0, 1][i];
        // (the envelope 0 -> 1 is in flight TWICE: a non-duplicating network counts copies, an ordered one queues both)
        let mut net = mk(vec![e(0, 1, 2), e(2, 1, 0), e(1, 0, 0), e(0, 1, 2)]);
        stateright::verif_facade::network_on_deliver(&mut net, e(2, 1, 0));
        let mut want = mk(vec![e(p(0), p(1), p(2)), e(p(2), p(1), p(0)), e(p(1), p(0), p(0)), e(p(0), p(1), p(2))]);
        stateright::verif_facade::network_on_deliver(&mut want, e(p(2), p(1), p(0)));
        let got = net.rewrite(&plan);
        let same_len = got.len() == net.len();
        ctx.check(&format!("{}:len", case), "network-rewrite-not-the-permuted-network", &["RW.network_rewrite.ensures.unordered-non-duplicating"], same_len, format!("{} messages after rewriting {}", got.len(), net.len()), "rewriting keeps every copy in flight".into());
        ctx.check(&case, "network-rewrite-not-the-permuted-network", &["RW.rewrite.ensures.unordered-duplicating", "RW.rewrite.ensures.unordered-non-duplicating", "RW.rewrite.ensures.ordered"], got == want,
            format!("{:?}", got), format!("{:?}", want));
    }
}
