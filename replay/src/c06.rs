//! C06: every transition of an actor model is one atomic handler step of one actor.
//! Native twin of unit AM (units/AM.vrs): small `ActorModel`s over a scripted actor and over the shared probe
//! actor are explored from the initial state to depth 3 through the REAL `Model::actions` / `next_state`
//! / `init_states`; every successor is compared (whole state: `==` and field by field) with a reference
//! computed directly from the handler's own output (the handler is called here, its commands are applied by
//! the simple reference implementation below), and the offered actions are compared, as a multiset, with the
//! five comprehensions of DESIGN.md C06.
//! The `Network` operations themselves are unit NET's business: the reference calls the real ones.
use crate::probe::*;
use crate::Ctx;
use stateright::actor::*;
use stateright::verif_facade::{network_on_deliver, network_on_drop, network_send};
use stateright::Model;
use std::borrow::Cow;
use std::collections::BTreeSet;
use std::fmt::Debug;
use std::hash::Hash;
use std::sync::Arc;
use std::time::Duration;

/// history: (0 = received / 1 = sent, src, dst, msg) in the order the hooks were called
pub type Hist = Vec<(u8, u64, u64, u8)>;
/// cfg: 0 = both hooks record every message; 1 = they return None for odd messages (history unchanged)
pub type Cfg = u8;
pub type Act = ActorModelAction<u8, u8, u8>;
pub type AM<A> = ActorModel<A, Cfg, Hist>;
pub type St<A> = ActorModelState<A, Hist>;

pub fn rec(dir: u8, cfg: &Cfg, h: &Hist, e: Envelope<&u8>) -> Option<Hist> {
    if *cfg == 1 && *e.msg % 2 == 1 {
        return None;
    }
    let mut h = h.clone();
    h.push((dir, idn(e.src), idn(e.dst), *e.msg));
    Some(h)
}
pub fn rec_in(cfg: &Cfg, h: &Hist, e: Envelope<&u8>) -> Option<Hist> {
    rec(0, cfg, h, e)
}
pub fn rec_out(cfg: &Cfg, h: &Hist, e: Envelope<&u8>) -> Option<Hist> {
    rec(1, cfg, h, e)
}

fn dur() -> std::ops::Range<Duration> {
    Duration::from_secs(0)..Duration::from_secs(0)
}

/// Scripted actor: a deterministic table that exercises every command kind, several sends per step (emission
/// order), the two "changes nothing" shapes (`is_no_op`, `is_no_op_with_timer`), a borrowed state with commands,
/// an owned state without commands, a message to a recipient that does not exist, and a random-choice removal.
#[derive(Clone, Debug, PartialEq, Eq, Hash)]
pub struct Sc;
impl Actor for Sc {
    type Msg = u8;
    type State = (u8, u8);
    type Timer = u8;
    type Random = u8;
    fn on_start(&self, id: Id, o: &mut Out<Self>) -> (u8, u8) {
        match idn(id) {
            0 => {
                o.send(Id::from(1), 10);
                o.send(Id::from(1), 11);
                o.send(Id::from(2), 12);
                o.set_timer(1, dur());
            }
            1 => {
                o.set_timer(2, dur());
                o.set_timer(3, dur());
                o.choose_random("c", vec![5, 6]);
            }
            _ => {
                o.choose_random("d", vec![7]);
                o.send(Id::from(9), 13);
            }
        }
        (0, 0)
    }
    fn on_msg(&self, _id: Id, s: &mut Cow<(u8, u8)>, src: Id, m: u8, o: &mut Out<Self>) {
        if m >= 100 {
            // state left borrowed, but a command is emitted
            o.set_timer(m, dur());
        } else if m % 2 == 0 {
            let c = s.0;
            *s.to_mut() = (c.wrapping_add(1), m);
            o.send(src, m + 1);
            o.send(src, m + 100);
            o.cancel_timer(2);
        }
        // odd messages below 100: nothing at all (is_no_op)
    }
    fn on_timeout(&self, id: Id, s: &mut Cow<(u8, u8)>, t: &u8, o: &mut Out<Self>) {
        match *t {
            1 => o.set_timer(1, dur()), // is_no_op_with_timer
            2 => {
                o.set_timer(2, dur());
                o.send(id, 40);
            }
            3 => {
                let c = s.0;
                *s.to_mut() = (c.wrapping_add(1), 30);
                o.cancel_timer(2);
                o.remove_random("c");
                o.set_timer(4, dur());
            }
            // state left borrowed and exactly one SetTimer, but of a DIFFERENT timer: a real transition (the fired
            // timer is cancelled, timer 1 armed), not a renewal
            4 => o.set_timer(1, dur()),
            _ => {
                let c = s.0;
                *s.to_mut() = (c.wrapping_add(1), 31);
            }
        }
    }
    fn on_random(&self, _id: Id, s: &mut Cow<(u8, u8)>, r: &u8, o: &mut Out<Self>) {
        match *r {
            5 => {
                let c = s.0;
                *s.to_mut() = (c.wrapping_add(1), 50);
                o.choose_random("e", vec![8, 9]);
                o.send(Id::from(0), 20);
            }
            6 => {}
            7 => {
                let c = s.0;
                *s.to_mut() = (c.wrapping_add(1), 70);
                o.set_timer(9, dur());
            }
            8 => {
                // re-arms the SAME key ("e") it was just handed: the selected choice is consumed first, then the
                // command sets the key again, so the key must still be pending afterwards
                let c = s.0;
                *s.to_mut() = (c.wrapping_add(1), 81);
                o.choose_random("e", vec![9]);
            }
            _ => {
                let c = s.0;
                *s.to_mut() = (c.wrapping_add(1), 80);
            }
        }
    }
}

pub fn n_crashed<A: Actor>(s: &St<A>) -> usize {
    s.crashed.iter().filter(|c| **c).count()
}

/// Reference: the commands of actor `id`, applied in emission order.
pub fn ref_commands<A>(m: &AM<A>, id: Id, out: Out<A>, st: &mut St<A>, sent: &mut Vec<(u64, u64, u8)>)
where
    A: Actor<Msg = u8, Timer = u8, Random = u8>,
{
    let ix = usize::from(id);
    for c in out {
        match c {
            Command::Send(dst, msg) => {
                sent.push((idn(id), idn(dst), msg));
                if let Some(h) = (m.record_msg_out)(&m.cfg, &st.history, Envelope { src: id, dst, msg: &msg }) {
                    st.history = h;
                }
                network_send(&mut st.network, Envelope { src: id, dst, msg });
            }
            Command::SetTimer(t, _) => {
                while st.timers_set.len() <= ix {
                    st.timers_set.push(Timers::new());
                }
                st.timers_set[ix].set(t);
            }
            Command::CancelTimer(t) => {
                st.timers_set[ix].cancel(&t);
            }
            Command::ChooseRandom(k, v) => {
                if v.is_empty() {
                    st.random_choices[ix].map.remove(&k);
                } else {
                    st.random_choices[ix].map.insert(k, v);
                }
            }
        }
    }
}

/// Reference successor (DESIGN.md C06), and the messages the step received / sent (for the history check).
pub fn ref_next<A>(m: &AM<A>, s: &St<A>, a: &Act) -> (Option<St<A>>, Option<(u64, u64, u8)>, Vec<(u64, u64, u8)>)
where
    A: Actor<Msg = u8, Timer = u8, Random = u8>,
    A::State: Clone,
{
    let mut sent = Vec::new();
    match a.clone() {
        ActorModelAction::Drop(e) => {
            let mut t = s.clone();
            network_on_drop(&mut t.network, e);
            (Some(t), None, sent)
        }
        ActorModelAction::Crash(id) => {
            let i = usize::from(id);
            let mut t = s.clone();
            t.timers_set[i] = Timers::new();
            t.random_choices[i] = RandomChoices::default();
            t.crashed[i] = true;
            (Some(t), None, sent)
        }
        ActorModelAction::Deliver { src, dst, msg } => {
            let i = usize::from(dst);
            if i >= s.actor_states.len() || s.crashed[i] {
                return (None, None, sent);
            }
            let mut cow = Cow::Borrowed(&*s.actor_states[i]);
            let mut out = Out::new();
            m.actors[i].on_msg(dst, &mut cow, src, msg, &mut out);
            if matches!(cow, Cow::Borrowed(_)) && out.is_empty() && !matches!(m.init_network, Network::Ordered(_)) {
                return (None, None, sent);
            }
            let mut t = s.clone();
            if let Some(h) = (m.record_msg_in)(&m.cfg, &s.history, Envelope { src, dst, msg: &msg }) {
                t.history = h;
            }
            network_on_deliver(&mut t.network, Envelope { src, dst, msg });
            if let Cow::Owned(x) = cow {
                t.actor_states[i] = Arc::new(x);
            }
            ref_commands(m, dst, out, &mut t, &mut sent);
            (Some(t), Some((idn(src), idn(dst), msg)), sent)
        }
        ActorModelAction::Timeout(id, timer) => {
            let i = usize::from(id);
            let mut cow = Cow::Borrowed(&*s.actor_states[i]);
            let mut out = Out::new();
            m.actors[i].on_timeout(id, &mut cow, &timer, &mut out);
            if matches!(cow, Cow::Borrowed(_)) && out.len() == 1 && matches!(&out[0], Command::SetTimer(t, _) if *t == timer) {
                return (None, None, sent);
            }
            let mut t = s.clone();
            t.timers_set[i].cancel(&timer);
            if let Cow::Owned(x) = cow {
                t.actor_states[i] = Arc::new(x);
            }
            ref_commands(m, id, out, &mut t, &mut sent);
            (Some(t), None, sent)
        }
        ActorModelAction::SelectRandom { actor, key, random } => {
            let i = usize::from(actor);
            let mut cow = Cow::Borrowed(&*s.actor_states[i]);
            let mut out = Out::new();
            m.actors[i].on_random(actor, &mut cow, &random, &mut out);
            let mut t = s.clone();
            t.random_choices[i].map.remove(&key);
            if let Cow::Owned(x) = cow {
                t.actor_states[i] = Arc::new(x);
            }
            ref_commands(m, actor, out, &mut t, &mut sent);
            (Some(t), None, sent)
        }
    }
}

/// Reference for `actions` (the five comprehensions), sorted.
pub fn ref_actions<A>(m: &AM<A>, s: &St<A>) -> Vec<Act>
where
    A: Actor<Msg = u8, Timer = u8, Random = u8>,
{
    let mut v: Vec<Act> = Vec::new();
    let ordered = matches!(m.init_network, Network::Ordered(_));
    let mut flows = BTreeSet::new();
    for env in s.network.iter_deliverable() {
        if m.lossy_network == LossyNetwork::Yes {
            v.push(ActorModelAction::Drop(env.to_cloned_msg()));
        }
        if usize::from(env.dst) < m.actors.len() {
            if ordered && !flows.insert((env.src, env.dst)) {
                continue;
            }
            v.push(ActorModelAction::Deliver { src: env.src, dst: env.dst, msg: *env.msg });
        }
    }
    for (i, ts) in s.timers_set.iter().enumerate() {
        for t in ts.iter() {
            v.push(ActorModelAction::Timeout(Id::from(i), *t));
        }
    }
    if n_crashed(s) < m.max_crashes {
        for (i, c) in s.crashed.iter().enumerate() {
            if !*c {
                v.push(ActorModelAction::Crash(Id::from(i)));
            }
        }
    }
    for (i, rc) in s.random_choices.iter().enumerate() {
        for (k, rs) in rc.map.iter() {
            for r in rs {
                v.push(ActorModelAction::SelectRandom { actor: Id::from(i), key: k.clone(), random: *r });
            }
        }
    }
    v.sort();
    v
}

pub fn real_actions<A>(m: &AM<A>, s: &St<A>) -> Vec<Act>
where
    A: Actor<Msg = u8, Timer = u8, Random = u8>,
{
    let mut v = Vec::new();
    m.actions(s, &mut v);
    v
}

/// Whole-state comparison: `==` (the model's own identity) and every field on its own (`{:?}` is not usable:
/// the hash collections print in an order that depends on the per-instance hasher seed).
pub fn same<A>(a: &Option<St<A>>, b: &Option<St<A>>) -> bool
where
    A: Actor<Msg = u8, Timer = u8, Random = u8>,
    A::State: PartialEq + Debug,
{
    match (a, b) {
        (None, None) => true,
        (Some(x), Some(y)) => {
            x == y && x.actor_states == y.actor_states && x.network == y.network && x.timers_set == y.timers_set
                && x.random_choices == y.random_choices && x.crashed == y.crashed && x.history == y.history
        }
        _ => false,
    }
}

pub fn show<A>(a: &Option<St<A>>) -> String
where
    A: Actor<Msg = u8, Timer = u8, Random = u8>,
    A::State: Debug,
{
    match a {
        None => "None".into(),
        Some(x) => format!("{:?} crashed={:?}", x, x.crashed),
    }
}

pub fn arm(a: &Act) -> &'static str {
    match a {
        ActorModelAction::Drop(_) => "drop",
        ActorModelAction::Deliver { .. } => "deliver",
        ActorModelAction::Timeout(..) => "timeout",
        ActorModelAction::Crash(_) => "crash",
        ActorModelAction::SelectRandom { .. } => "select-random",
    }
}

pub const NETS: [&str; 3] = ["dup", "nondup", "ordered"];

pub fn net(kind: &str, init: &[(usize, usize, u8)]) -> Network<u8> {
    let envs: Vec<Envelope<u8>> = init.iter().map(|(s, d, m)| Envelope { src: Id::from(*s), dst: Id::from(*d), msg: *m }).collect();
    match kind {
        "dup" => Network::new_unordered_duplicating(envs),
        "nondup" => Network::new_unordered_nonduplicating(envs),
        _ => Network::new_ordered(envs),
    }
}

pub fn model<A>(actors: Vec<A>, kind: &str, init: &[(usize, usize, u8)], lossy: bool, max_crashes: usize, cfg: Cfg) -> AM<A>
where
    A: Actor<Msg = u8, Timer = u8, Random = u8>,
{
    ActorModel::new(cfg, Vec::new())
        .actors(actors)
        .init_network(net(kind, init))
        .lossy_network(if lossy { LossyNetwork::Yes } else { LossyNetwork::No })
        .max_crashes(max_crashes)
        .record_msg_in(rec_in)
        .record_msg_out(rec_out)
}

/// All (state, path label) pairs reachable in at most `depth` steps through the REAL actions / next_state
/// (each distinct state once; at most `cap` states).
pub fn reach<A>(m: &AM<A>, depth: usize, cap: usize) -> Vec<(St<A>, String)>
where
    A: Actor<Msg = u8, Timer = u8, Random = u8>,
    A::State: PartialEq + Debug + Clone,
{
    let mut all: Vec<(St<A>, String)> = m.init_states().into_iter().map(|s| (s, String::new())).collect();
    let mut lo = 0;
    for _ in 0..depth {
        let hi = all.len();
        for k in lo..hi {
            let (s, p) = (all[k].0.clone(), all[k].1.clone());
            for a in real_actions(m, &s) {
                if let Some(t) = m.next_state(&s, a.clone()) {
                    if all.len() < cap && !all.iter().any(|(x, _)| *x == t && x.crashed == t.crashed) {
                        all.push((t, format!("{}/{:?}", p, a)));
                    }
                }
            }
        }
        lo = hi;
    }
    all
}

/// shapes that must be enumerated at least once (checked at the end of `run`)
#[derive(Default)]
pub struct Cov {
    /// a SelectRandom whose handler re-armed the key it was handed
    pub rearm_same_key: u64,
    /// a step with at least two sends that were both recorded by the out-hook
    pub two_recorded_sends: u64,
}

fn explore<A>(ctx: &mut Ctx, cov: &mut Cov, label: &str, m: &AM<A>, depth: usize)
where
    A: Actor<Msg = u8, Timer = u8, Random = u8>,
    A::State: PartialEq + Debug + Clone,
{
    // init_states: handlers run in index order, commands applied in order
    let case = format!("{}:init", label);
    if ctx.want(&case) {
        let n = m.actors.len();
        let mut r: St<A> = ActorModelState {
            actor_states: Vec::new(),
            network: m.init_network.clone(),
            timers_set: vec![Timers::new(); n],
            random_choices: vec![RandomChoices::default(); n],
            crashed: vec![false; n],
            history: m.init_history.clone(),
        };
        let mut sent = Vec::new();
        for (i, a) in m.actors.iter().enumerate() {
            let mut out = Out::new();
            let st = a.on_start(Id::from(i), &mut out);
            r.actor_states.push(Arc::new(st));
            ref_commands(m, Id::from(i), out, &mut r, &mut sent);
        }
        let real = m.init_states();
        let ok = real.len() == 1 && same(&Some(real[0].clone()), &Some(r.clone()));
        ctx.check(&case, "am-init-states", &["AM.init_states.ensures.fold"], ok, format!("{:?}", real.iter().map(|s| show(&Some(s.clone()))).collect::<Vec<_>>()), show(&Some(r)));
    }
    for (s, path) in reach(m, depth, 600) {
        // the offered actions, as a multiset
        let case = format!("{}:actions@{}", label, path);
        let acts = real_actions(m, &s);
        if ctx.want(&case) {
            let mut sorted = acts.clone();
            sorted.sort();
            let want = ref_actions(m, &s);
            ctx.check(&case, "am-actions-multiset", &["AM.actions.ensures.offered"], sorted == want, format!("{:?}", sorted), format!("{:?}", want));
        }
        // every successor, whole state
        for a in acts {
            let case = format!("{}:next@{}/{:?}", label, path, a);
            if !ctx.want(&case) {
                continue;
            }
            let real = m.next_state(&s, a.clone());
            let (want, recv, sent) = ref_next(m, &s, &a);
            let ob = format!("AM.next_state.ensures.{}", arm(&a));
            ctx.check(&case, &format!("am-next-state-{}", arm(&a)), &[&ob, "AM.process_commands.ensures.fold"], same(&real, &want), show(&real), show(&want));
            if let (Some(t), ActorModelAction::SelectRandom { actor, key, random }) = (&real, &a) {
                // a handler that re-arms the key it was just handed: consumed first, THEN set again by its command
                let i = usize::from(*actor);
                let mut cow = Cow::Borrowed(&*s.actor_states[i]);
                let mut out = Out::new();
                m.actors[i].on_random(*actor, &mut cow, random, &mut out);
                let mut last: Option<Vec<u8>> = None;
                for c in out.iter() {
                    if let Command::ChooseRandom(k, v) = c {
                        if k == key {
                            last = Some(v.clone());
                        }
                    }
                }
                if let Some(v) = last {
                    if !v.is_empty() {
                        cov.rearm_same_key += 1;
                        ctx.check(&format!("{}:rearm", case), "am-rearm-same-key", &[&ob, "AM.process_commands.ensures.fold"], t.random_choices[i].map.get(key) == Some(&v),
                            format!("{:?}", t.random_choices[i]), format!("key {:?} pending with {:?}", key, v));
                    }
                }
            }
            if let Some(t) = &real {
                let recorded: Vec<&(u64, u64, u8)> = sent.iter().filter(|(_, _, msg)| !(m.cfg == 1 && msg % 2 == 1)).collect();
                if recorded.len() >= 2 {
                    // two recorded sends in one step: the history ends with them, in emission order
                    cov.two_recorded_sends += 1;
                    let n = t.history.len();
                    let want: Vec<(u8, u64, u64, u8)> = recorded.iter().map(|(a, b, c)| (1u8, *a, *b, *c)).collect();
                    let ok = n >= want.len() && t.history[n - want.len()..] == want[..];
                    ctx.check(&format!("{}:two-sends", case), "am-two-sends-order", &[&ob, "AM.process_commands.ensures.fold"], ok, format!("{:?}", t.history), format!("history ends with {:?}", want));
                }
                // the hooks saw the received message first, then each sent message in emission order, nothing else
                let mut h = s.history.clone();
                if let Some((src, dst, msg)) = recv {
                    if !(m.cfg == 1 && msg % 2 == 1) {
                        h.push((0, src, dst, msg));
                    }
                }
                for (src, dst, msg) in &sent {
                    if !(m.cfg == 1 && msg % 2 == 1) {
                        h.push((1, *src, *dst, *msg));
                    }
                }
                ctx.check(&format!("{}:hist", case), "am-history-order", &[&ob, "AM.process_commands.ensures.fold"], t.history == h, format!("{:?}", t.history), format!("{:?}", h));
            }
        }
    }
}

pub fn run(ctx: &mut Ctx) {
    let mut cov = Cov::default();
    for kind in NETS {
        for lossy in [false, true] {
            for max_crashes in 0..=2usize {
                for cfg in [0u8, 1] {
                    if cfg == 1 && (lossy || max_crashes == 2) {
                        continue;
                    }
                    let label = format!("sc:{}:lossy={}:k={}:cfg={}", kind, lossy, max_crashes, cfg);
                    let m = model(vec![Sc, Sc, Sc], kind, &[], lossy, max_crashes, cfg);
                    explore(ctx, &mut cov, &label, &m, 3);
                }
                // the shared probe actor (every handler writes all its arguments into state and commands); one
                // quiet actor: its deliveries change nothing
                let label = format!("probe:{}:lossy={}:k={}", kind, lossy, max_crashes);
                let m = model(vec![P::<u8>::new(0), P::<u8>::new(1)], kind, &[(0, 1, 21), (1, 0, 22), (1, 0, 23), (0, 5, 24)], lossy, max_crashes, 0);
                explore(ctx, &mut cov, &label, &m, 3);
            }
        }
    }
    // `is_no_op` / `is_no_op_with_timer` against their definitions: all outputs of up to 3 commands over a
    // small command alphabet, both Cow shapes, every fired timer
    {
        let alpha = |k: u8, o: &mut Out<Sc>| match k {
            0 => o.set_timer(1, dur()),
            1 => o.set_timer(2, dur()),
            2 => o.cancel_timer(1),
            3 => o.send(Id::from(1), 7),
            _ => o.choose_random("k", vec![1]),
        };
        let st0 = (0u8, 0u8);
        for owned in [false, true] {
            for n in 0..=3u32 {
                for code in 0..5u32.pow(n) {
                    for timer in [1u8, 2, 3] {
                        let ks: Vec<u8> = (0..n).map(|j| ((code / 5u32.pow(j)) % 5) as u8).collect();
                        let case = format!("noop-def:owned={} cmds={:?} timer={}", owned, ks, timer);
                        if !ctx.want(&case) { continue; }
                        let mut o: Out<Sc> = Out::new();
                        for k in &ks { alpha(*k, &mut o); }
                        let state: Cow<(u8, u8)> = if owned { Cow::Owned(st0) } else { Cow::Borrowed(&st0) };
                        let want0 = !owned && ks.is_empty();
                        let want1 = !owned && ks.len() == 1 && ((ks[0] == 0 && timer == 1) || (ks[0] == 1 && timer == 2));
                        let got0 = is_no_op(&state, &o);
                        let got1 = is_no_op_with_timer(&state, &o, &timer);
                        ctx.check(&case, "am-noop-definition", &["AM.is_no_op.ensures.def", "AM.is_no_op_with_timer.ensures.def"], got0 == want0 && got1 == want1,
                            format!("is_no_op={} is_no_op_with_timer={}", got0, got1), format!("is_no_op={} is_no_op_with_timer={}", want0, want1));
                    }
                }
            }
        }
    }
    if ctx.only.is_none() {
        ctx.check("coverage", "am-oracle-coverage", &["AM.next_state.ensures.select-random", "AM.process_commands.ensures.fold"], cov.rearm_same_key > 0 && cov.two_recorded_sends > 0,
            format!("rearm_same_key={} two_recorded_sends={}", cov.rearm_same_key, cov.two_recorded_sends), "both shapes enumerated at least once".into());
    }
}
