//! C09: crash faults. Native twin of the C09 lemmas of unit AM (crash_arm_effect, ci_preserved,
//! crashed_is_silent, crashed_stays_crashed, crash_budget_respected) and of HSH's identity clause, on the REAL
//! `Model::actions` / `next_state` of the small models of c06.rs (scripted actor, probe actor; three network
//! kinds; lossy or not; crash budget 0..2), explored to depth 3:
//!   (budget)   never more than `max_crashes` actors down; `Crash(i)` is offered exactly for the actors that
//!              are up, and only while fewer than `max_crashes` are down;
//!   (effect)   `Crash(i)` sets the flag, discards i's timers and choices and changes nothing else;
//!   (silent)   in a state where i is down no Timeout / SelectRandom / Crash for i is offered, a Deliver to i has
//!              no successor, i stays down, and no step of another actor consumes a message addressed to i
//!              (only a Drop on a lossy network removes one);
//!   (others)   every step of another actor commutes with the crash: crash-then-step == step-then-crash;
//!   (distinct) the states after crashing different actors, and the state before, differ pairwise in `==`
//!              and in `fingerprint`.
use crate::c06::*;
use crate::probe::*;
use crate::Ctx;
use stateright::actor::*;
use stateright::verif_facade::stable_hasher;
use stateright::Model;
use std::fmt::Debug;
use std::hash::{Hash, Hasher};

/// `fingerprint` is crate-private: the same computation through the facade's `stable_hasher()`
fn fingerprint<T: Hash>(value: &T) -> u64 {
    let mut hasher = stable_hasher();
    value.hash(&mut hasher);
    hasher.finish()
}

fn target(a: &Act) -> Option<usize> {
    match a {
        ActorModelAction::Drop(_) => None,
        ActorModelAction::Deliver { dst, .. } => Some(usize::from(*dst)),
        ActorModelAction::Timeout(id, _) => Some(usize::from(*id)),
        ActorModelAction::Crash(id) => Some(usize::from(*id)),
        ActorModelAction::SelectRandom { actor, .. } => Some(usize::from(*actor)),
    }
}

/// the envelopes addressed to actor i, with multiplicity, sorted
fn inbox<A>(s: &St<A>, i: usize) -> Vec<(u64, u8)>
where
    A: Actor<Msg = u8, Timer = u8, Random = u8>,
{
    let mut v: Vec<(u64, u8)> = s.network.iter_all().filter(|e| usize::from(e.dst) == i).map(|e| (idn(e.src), *e.msg)).collect();
    v.sort();
    v
}

fn explore<A>(ctx: &mut Ctx, label: &str, m: &AM<A>, depth: usize)
where
    A: Actor<Msg = u8, Timer = u8, Random = u8>,
    A::State: PartialEq + Debug + Clone + Hash,
{
    let n = m.actors.len();
    for (s, path) in reach(m, depth, 400) {
        let acts = real_actions(m, &s);
        let down = n_crashed(&s);
        // (budget)
        let case = format!("{}:budget@{}", label, path);
        if ctx.want(&case) {
            let mut offered: Vec<usize> = acts.iter().filter_map(|a| if let ActorModelAction::Crash(id) = a { Some(usize::from(*id)) } else { None }).collect();
            offered.sort();
            let want: Vec<usize> = if down < m.max_crashes { (0..n).filter(|i| !s.crashed[*i]).collect() } else { Vec::new() };
            ctx.check(&case, "am-crash-budget", &["AM.lemma.crash_budget_respected", "AM.actions.ensures.offered"], down <= m.max_crashes && offered == want,
                format!("down={} max={} crash actions for {:?}", down, m.max_crashes, offered), format!("down <= max and crash actions for {:?}", want));
        }
        // (silent)
        for i in 0..n {
            if !s.crashed[i] {
                continue;
            }
            let case = format!("{}:silent@{}:i={}", label, path, i);
            if !ctx.want(&case) {
                continue;
            }
            let quiet = s.timers_set[i].iter().next().is_none() && s.random_choices[i].map.is_empty();
            ctx.check(&format!("{}:ci", case), "am-crashed-has-no-timers-or-choices", &["AM.lemma.ci_preserved", "AM.lemma.crash_arm_effect"], quiet,
                format!("timers={:?} random={:?}", s.timers_set[i], s.random_choices[i]), "a crashed actor has no timer set and no choice pending".into());
            for a in &acts {
                let t = m.next_state(&s, a.clone());
                if target(a) == Some(i) {
                    let ok = matches!(a, ActorModelAction::Deliver { .. }) && t.is_none();
                    ctx.check(&format!("{}:{:?}", case, a), "am-crashed-actor-acts", &["AM.lemma.crashed_is_silent", "AM.next_state.ensures.deliver"], ok,
                        format!("{:?} offered, successor {}", a, if t.is_some() { "Some" } else { "None" }), "no Timeout/SelectRandom/Crash offered for a crashed actor; a Deliver to it has no successor".into());
                } else if let Some(t) = t {
                    let kept = t.crashed[i] && (matches!(a, ActorModelAction::Drop(_)) || { let (x, y) = (inbox(&s, i), inbox(&t, i)); x.iter().all(|e| y.contains(e)) && x.len() <= y.len() });
                    ctx.check(&format!("{}:{:?}", case, a), "am-crashed-actor-affected", &["AM.lemma.crashed_stays_crashed", "AM.lemma.pc_fold_frame"], kept,
                        format!("crashed={:?} inbox {:?} -> {:?}", t.crashed, inbox(&s, i), inbox(&t, i)), "i stays crashed and the messages addressed to it stay in the network".into());
                }
            }
        }
        // (effect), (others), (distinct)
        let crashes: Vec<usize> = acts.iter().filter_map(|a| if let ActorModelAction::Crash(id) = a { Some(usize::from(*id)) } else { None }).collect();
        let mut after: Vec<(usize, St<A>)> = Vec::new();
        for i in crashes {
            let case = format!("{}:crash@{}:i={}", label, path, i);
            let t = m.next_state(&s, ActorModelAction::Crash(Id::from(i)));
            let mut want = s.clone();
            want.timers_set[i] = Timers::new();
            want.random_choices[i] = RandomChoices::default();
            want.crashed[i] = true;
            if ctx.want(&case) {
                ctx.check(&case, "am-crash-effect", &["AM.next_state.ensures.crash", "AM.lemma.crash_arm_effect"], same(&t, &Some(want.clone())), show(&t), show(&Some(want.clone())));
            }
            let t = match t {
                Some(t) => t,
                None => continue,
            };
            // (others): steps that do not concern i commute with the crash
            for a in &acts {
                if target(a) == Some(i) || matches!(a, ActorModelAction::Crash(_)) {
                    continue;
                }
                let case = format!("{}:commute@{}:i={}:{:?}", label, path, i, a);
                if !ctx.want(&case) {
                    continue;
                }
                let step_then_crash = m.next_state(&s, a.clone()).and_then(|u| m.next_state(&u, ActorModelAction::Crash(Id::from(i))));
                let crash_then_step = m.next_state(&t, a.clone());
                ctx.check(&case, "am-crash-changes-other-actors", &["AM.lemma.crash_arm_effect", "AM.lemma.pc_fold_frame"], same(&step_then_crash, &crash_then_step), show(&crash_then_step), show(&step_then_crash));
            }
            after.push((i, t));
        }
        // (distinct)
        for (i, t) in &after {
            let case = format!("{}:distinct@{}:i={}", label, path, i);
            if !ctx.want(&case) {
                continue;
            }
            let mut ok = *t != s && fingerprint(t) != fingerprint(&s);
            for (j, u) in &after {
                if j != i {
                    ok = ok && t != u && fingerprint(t) != fingerprint(u);
                }
            }
            ctx.check(&case, "am-crash-combination-not-distinct", &["HSH.eq.ensures.compares-every-field", "HSH.hash.ensures.feeds-every-field"], ok,
                format!("after Crash({}): equal (== or fingerprint) to the state before or to the state after another crash", i), "pairwise different states and fingerprints".into());
        }
    }
}

pub fn run(ctx: &mut Ctx) {
    crate::c04::wide_crash_flags(ctx);
    for kind in NETS {
        for lossy in [false, true] {
            for max_crashes in 0..=2usize {
                let label = format!("sc:{}:lossy={}:k={}", kind, lossy, max_crashes);
                let m = model(vec![Sc, Sc, Sc], kind, &[], lossy, max_crashes, 0);
                explore(ctx, &label, &m, 3);
                let label = format!("probe:{}:lossy={}:k={}", kind, lossy, max_crashes);
                let m = model(vec![P::<u8>::new(0), P::<u8>::new(1), P::<u8>::new(0)], kind, &[(0, 1, 21), (1, 0, 22), (2, 0, 23), (0, 2, 24)], lossy, max_crashes, 0);
                explore(ctx, &label, &m, 3);
            }
        }
    }
}
