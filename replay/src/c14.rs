//! C14: the REAL `SequentialConsistencyTester` against the brute-force reference of c08.rs (without
//! the real-time rule) on all histories of at most N events over 2 threads, plus
//!  * inclusion: whatever the real LinearizabilityTester accepts, the real SC tester accepts;
//!  * plain values: recording into a clone never alters the original (both testers).
use crate::c08::{drive_caught, for_each_history, for_each_wf_history3, judge, Ev, lin_ser, model, new_lin, wants_any, Ser, Spec};
use crate::Ctx;
use stateright::semantics::register::*;
use stateright::semantics::{ConsistencyTester, SequentialConsistencyTester};
use std::panic::{catch_unwind, AssertUnwindSafe};

type Sc = SequentialConsistencyTester<u8, Register<char>>;

fn sc_ser(t: &Sc) -> Option<Ser> {
    t.serialized_history()
}

const SPEC: Spec = Spec {
    real_time: false,
    cls_wf: "sc-wf",
    cls_invalid: "sc-invalid",
    cls_sound: "sc-sound",
    cls_complete: "sc-complete",
    obl_wf: &[
        "SC.on_invoke.ensures.sticky",
        "SC.on_invoke.ensures.reject-second-invoke",
        "SC.on_invoke.ensures.record",
        "SC.on_return.ensures.sticky",
        "SC.on_return.ensures.reject-return-without-invoke",
        "SC.on_return.ensures.complete",
        "SC.on_invoke.ensures.event-step",
        "SC.on_return.ensures.event-step",
    ],
    obl_invalid: &["SC.serialized_history.ensures.invalid-none", "SC.is_consistent.ensures.invalid-inconsistent"],
    obl_sound: &[
        "SC.serialized_history.ensures.legal",
        "SC.serialized_history.ensures.order",
        "SC.is_consistent.ensures.sound",
        "SC.serialize.ensures.legal",
        "SC.serialize.ensures.order",
    ],
    obl_complete: &["SC.is_consistent.ensures.complete", "SC.serialized_history.ensures.complete", "SC.serialize.ensures.complete", "SC.serialize.loop2.invariant.explored"],
};

const SUFFIXES: [&str; 6] = ["#wf", "#invalid", "#sound", "#complete", "#linsc", "#clone"];

/// `t` is unchanged by recording one more event into a clone of it; returns the offending extra event.
fn clone_independent<TT>(t: &TT) -> Result<(), String>
where
    TT: ConsistencyTester<u8, Register<char>> + Clone + PartialEq,
{
    let snapshot = t.clone();
    for k in 0..3 {
        let mut c = t.clone();
        let r = catch_unwind(AssertUnwindSafe(|| match k {
            0 => c.on_invoke(0, RegisterOp::Write('B')).is_ok(),
            1 => c.on_return(0, RegisterRet::ReadOk('A')).is_ok(),
            _ => c.on_invoke(1, RegisterOp::Read).is_ok(),
        }));
        if r.is_err() {
            return Err(format!("extra event #{} panicked", k));
        }
        if *t != snapshot {
            return Err(format!("extra event #{} recorded into a clone changed the original", k));
        }
    }
    Ok(())
}

pub fn run(ctx: &mut Ctx) {
    let only = ctx.only.clone();
    for_each_history("sc", &only, &mut |base, events| one(ctx, base, events));
    for_each_wf_history3("sc", &only, &mut |base, events| one(ctx, base, events));
}

fn one(ctx: &mut Ctx, base: &str, events: &[Ev]) {
    {
        if !wants_any(ctx, base, &SUFFIXES) {
            return;
        }
        let (ops, first_bad) = model(events);
        let mut sc: Sc = SequentialConsistencyTester::new(Register('A'));
        let out = drive_caught(&mut sc, events, first_bad, &sc_ser);
        judge(ctx, base, &SPEC, events, &ops, first_bad, &out);

        let linsc_case = format!("{}#linsc", base);
        let clone_case = format!("{}#clone", base);
        let (wl, wc) = (ctx.want(&linsc_case), ctx.want(&clone_case));
        if !wl && !wc {
            return;
        }
        let mut lin = new_lin();
        let lout = drive_caught(&mut lin, events, first_bad, &lin_ser);
        if wl {
            // (v) every history accepted by the linearizability tester is accepted by the SC tester
            let ok = !lout.consistent || out.consistent;
            let (obs, req) = if ok {
                (String::new(), String::new())
            } else {
                (
                    format!("LinearizabilityTester.is_consistent=true ({:?}) but SequentialConsistencyTester.is_consistent=false", lout.ser),
                    format!("linearizable implies sequentially consistent; events={:?}", events),
                )
            };
            ctx.check(&linsc_case, "lin-implies-sc", &["SC.lemma.accepted_by_lin_is_accepted_by_sc", "SC.lemma.lin_reach_strips_to_sc_run", "SC.lemma.lin_order_implies_sc_order", "SC.lemma.linearizable_implies_sc_consistent", "LIN.is_consistent.ensures.sound", "SC.is_consistent.ensures.complete"], ok, obs, req);
        }
        if wc {
            // (vi) both testers are plain values
            let r = clone_independent(&sc).map_err(|e| format!("SC: {}", e)).and_then(|_| clone_independent(&lin).map_err(|e| format!("LIN: {}", e)));
            let (obs, req) = match &r {
                Ok(()) => (String::new(), String::new()),
                Err(d) => (d.clone(), format!("t == snapshot after recording into t.clone(); events={:?}", events)),
            };
            ctx.check(&clone_case, "clone-independent", &["SC.lemma.plain_value_guard", "LIN.lemma.plain_value_guard"], r.is_ok(), obs, req);
        }
    }
}
