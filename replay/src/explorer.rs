//! C19, Explorer clauses: the real Explorer is served on a localhost port and driven over HTTP.
//! These clauses are OUTSIDE contract-based verification (HTTP, JSON, strings, threads); this oracle
//! is an end-to-end witness finder only, run in the thorough tier and when a C19 obligation fails.
use crate::graphs::{G, NAMES};
use crate::Ctx;
use stateright::{Checker, Expectation, Model};
use std::io::{Read, Write};
use std::net::{TcpListener, TcpStream};
use std::time::{Duration, Instant};

fn http(port: u16, method: &str, path: &str) -> (u16, String) {
    let Ok(mut stream) = TcpStream::connect(("127.0.0.1", port)) else { return (0, String::new()) };
    let _ = write!(stream, "{} {} HTTP/1.1\r\nHost: localhost\r\nConnection: close\r\nContent-Length: 0\r\n\r\n", method, path);
    let mut raw = Vec::new();
    let _ = stream.read_to_end(&mut raw);
    let raw = String::from_utf8_lossy(&raw).to_string();
    let code = raw.split_whitespace().nth(1).and_then(|c| c.parse().ok()).unwrap_or(0);
    let body = raw.split_once("\r\n\r\n").map(|(_, b)| b).unwrap_or("");
    (code, body.to_string())
}
fn field(json: &str, name: &str) -> String {
    let key = format!("\"{}\":", name);
    match json.find(&key) {
        Some(i) => json[i + key.len()..].chars().take_while(|c| c.is_ascii_alphanumeric()).collect(),
        None => String::new(),
    }
}
/// all `"fingerprint":"N"` values of a /.states answer, in order, with the `"state"` strings
fn views(json: &str) -> Vec<(Option<String>, Option<String>)> {
    // split objects naively on `},{` (state strings of u8 models contain no braces)
    let mut out = Vec::new();
    for obj in json.trim().trim_start_matches('[').trim_end_matches(']').split("},{") {
        if obj.is_empty() { continue; }
        let get = |name: &str| -> Option<String> {
            let key = format!("\"{}\":\"", name);
            obj.find(&key).map(|i| obj[i + key.len()..].chars().take_while(|c| *c != '"').collect())
        };
        out.push((get("state"), get("fingerprint")));
    }
    out
}
fn serve(g: &G) -> Option<u16> {
    let port = TcpListener::bind("127.0.0.1:0").ok()?.local_addr().ok()?.port();
    let g2 = g.clone();
    std::thread::spawn(move || { g2.checker().serve(("127.0.0.1", port)); });
    let t0 = Instant::now();
    while TcpStream::connect(("127.0.0.1", port)).is_err() {
        if t0.elapsed() > Duration::from_secs(5) { return None; }
        std::thread::sleep(Duration::from_millis(20));
    }
    Some(port)
}

pub fn run(ctx: &mut Ctx) {
    let models = vec![
        // diamond with a join, one always property that fails at 3, one sometimes never seen
        G { n: 4, inits: vec![0], edges: vec![vec![1, 2], vec![3], vec![3], vec![]], bound: 0b1111, props: vec![(Expectation::Always, 0b0111), (Expectation::Sometimes, 0)] },
        // two initial states, a cycle, nothing discovered
        G { n: 3, inits: vec![0, 1], edges: vec![vec![2], vec![2], vec![0]], bound: 0b111, props: vec![(Expectation::Sometimes, 0)] },
    ];
    for (mi, g) in models.iter().enumerate() {
        let case = format!("explorer:m{}:{}", mi, g.describe());
        if !ctx.want(&case) { continue; }
        let Some(port) = serve(g) else { eprintln!("explorer oracle: cannot serve on localhost; skipping"); continue };
        let mut notes = String::new();
        let mut ok = true;
        // (1) initial states endpoint
        let (code, body) = http(port, "GET", "/.states/");
        let init = views(&body);
        if code != 200 || init.len() != g.inits.len() { ok = false; notes.push_str(&format!("[init states: code {} views {:?}]", code, init)); }
        // (2) walk every execution of length <= 3 from each init: the endpoint returns exactly the model's
        //     enabled actions with successor states, and fingerprints that continue the walk
        let mut frontier: Vec<(Vec<String>, u8)> = init.iter().zip(g.inits.iter()).filter_map(|((_, fp), s)| fp.clone().map(|f| (vec![f], *s))).collect();
        for _depth in 0..3 {
            let mut next = Vec::new();
            for (fps, s) in &frontier {
                let (code, body) = http(port, "GET", &format!("/.states/{}", fps.join("/")));
                let vs = views(&body);
                let succ: Vec<u8> = g.edges[*s as usize].clone();
                if code != 200 || vs.len() != succ.len() {
                    ok = false;
                    notes.push_str(&format!("[state {} via {:?}: code {} {} views, model has {} actions]", s, fps, code, vs.len(), succ.len()));
                    continue;
                }
                for ((st, fp), t) in vs.iter().zip(succ.iter()) {
                    if st.as_deref() != Some(&format!("{}", t)) { ok = false; notes.push_str(&format!("[successor of {}: endpoint {:?}, model {}]", s, st, t)); }
                    if let Some(f) = fp { let mut p = fps.clone(); p.push(f.clone()); next.push((p, *t)); }
                }
            }
            frontier = next;
            if frontier.len() > 40 { frontier.truncate(40); }
        }
        // (3) 404 for sequences that denote no execution
        let bogus = format!("/.states/{}/12345", init.first().and_then(|v| v.1.clone()).unwrap_or_default());
        let (code, _) = http(port, "GET", &bogus);
        if code != 404 { ok = false; notes.push_str(&format!("[{} answered {}]", bogus, code)); }
        let (code, _) = http(port, "GET", "/.states/notanumber");
        if code != 404 { ok = false; notes.push_str(&format!("[unparsable fingerprint answered {}]", code)); }
        // (4) status after run-to-completion agrees with a BFS of the same model
        let bfs = g.clone().checker().spawn_bfs().join();
        let (code, _) = http(port, "POST", "/.runtocompletion");
        if code != 200 { ok = false; notes.push_str("[runtocompletion failed]"); }
        let t0 = Instant::now();
        let mut status = String::new();
        while t0.elapsed() < Duration::from_secs(5) {
            let (_, b) = http(port, "GET", "/.status");
            let all_found = (0..g.props.len()).all(|i| b.contains(&format!("\"{}\",\"", NAMES[i])));
            status = b;
            if field(&status, "done") == "true" || all_found { std::thread::sleep(Duration::from_millis(150)); status = http(port, "GET", "/.status").1; break; }
            std::thread::sleep(Duration::from_millis(30));
        }
        let complete = bfs.discoveries().len() < g.props.len(); // otherwise both stop early, counts may differ
        if complete {
            for (name, want) in [("state_count", bfs.state_count()), ("unique_state_count", bfs.unique_state_count()), ("max_depth", bfs.max_depth())] {
                if field(&status, name) != want.to_string() { ok = false; notes.push_str(&format!("[status {} = {}, checker has {}]", name, field(&status, name), want)); }
            }
        }
        // per property: a reported fingerprint path decodes to a genuine witness
        for (i, (e, _)) in g.props.iter().enumerate() {
            let key = format!("\"{}\",\"", NAMES[i]);
            if let Some(pos) = status.find(&key) {
                let enc: String = status[pos + key.len()..].chars().take_while(|c| *c != '"').collect();
                let (code, body) = http(port, "GET", &format!("/.states/{}", enc));
                let _ = body;
                if code != 200 { ok = false; notes.push_str(&format!("[{} path {} does not decode]", NAMES[i], enc)); }
                let want = bfs.discovery(NAMES[i]).map(|p| p.encode());
                if *e != Expectation::Eventually && want.is_none() { ok = false; notes.push_str(&format!("[{} reported by the explorer only]", NAMES[i])); }
            }
        }
        ctx.check(&case, "explorer-endpoint-disagrees-with-model", &["(Explorer: no contract; end-to-end oracle)"], ok, notes, "states endpoint = enabled actions with successors; 404 for non-executions; status = checker counts".into());
    }
}
