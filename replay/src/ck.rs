//! Checker-level oracles over small explicit graphs (witness finders for the CB / SIM contracts):
//! C01 exact reachable set, C02 exact verdicts, C03 genuine witness paths, C11 eventually,
//! C12 run controls, C13 BFS order and shortest witnesses.
use crate::graphs::*;
use crate::Ctx;
use stateright::{Expectation, HasDiscoveries};
use std::collections::BTreeSet;

fn seed() -> u64 { std::env::var("VERIF_SEED").ok().and_then(|s| s.parse().ok()).unwrap_or(0) }
fn thorough() -> bool { std::env::var("VERIF_TIER").map(|t| t == "thorough").unwrap_or(false) }

fn strategies() -> Vec<(Strategy, usize)> {
    let mut v = vec![(Strategy::Bfs, 1), (Strategy::Dfs, 1), (Strategy::OnDemand, 1)];
    if thorough() { v.push((Strategy::Bfs, 3)); v.push((Strategy::Dfs, 3)); }
    v
}

fn mk(n: u8, inits: &[u8], edges: &[Vec<u8>], bound: u16, props: Vec<(Expectation, u16)>) -> G {
    G { n, inits: inits.to_vec(), edges: edges.to_vec(), bound, props }
}

/// C01: with a property that can never be discovered the check runs to completion.
pub fn c01(ctx: &mut Ctx) {
    wide_frontier(ctx, "c01");
    for (gi, (n, inits, edges, bound)) in graphs(seed(), thorough()).into_iter().enumerate() {
        let g = mk(n, &inits, &edges, bound, vec![(Expectation::Sometimes, 0)]);
        let mut ins: Vec<u8> = inits.clone(); ins.sort(); ins.dedup();
        if ins.len() != inits.len() { continue; }
        for (st, th) in strategies() {
            let case = format!("c01:{:?}x{}:g{}:{}", st, th, gi, g.describe());
            if !ctx.want(&case) { continue; }
            let o = run(&g, st, &Opts { threads: th, ..Default::default() });
            let reach = g.reach();
            let mut vis = o.visited.clone(); vis.sort();
            let want: Vec<u8> = reach.iter().copied().collect();
            let paths_ok = o.visited_paths.iter().all(|p| g.is_exec(p));
            let ok = o.finished && vis == want && paths_ok && o.unique == reach.len() && o.total >= o.unique && o.done;
            ctx.check(&case, &format!("c01-{:?}-reachable-set", st).to_lowercase(), &["CB.check_block.loop1.invariant.closure"], ok,
                format!("finished={} visited={:?} paths_real={} unique={} total={} done={}", o.finished, vis, paths_ok, o.unique, o.total, o.done),
                format!("visited={:?} each once, real paths, unique={} total>=unique done", want, reach.len()));
        }
    }
}

fn prop_menu() -> Vec<Vec<(Expectation, u16)>> {
    use Expectation::*;
    vec![
        vec![(Always, 0b11011), (Sometimes, 0b00100)],
        vec![(Always, 0b11110), (Sometimes, 0)],
        vec![(Sometimes, 0b01000), (Always, 0b11111), (Sometimes, 0b00010)],
        vec![(Eventually, 0b00110), (Always, 0b11111)],
        vec![(Eventually, 0b00100), (Sometimes, 0), (Eventually, 0b00010)],
        vec![(Eventually, 0b01010)],
    ]
}

/// C02 + C03 + C11: verdicts and witness paths after a completed exhaustive check.
pub fn c02_c03_c11(ctx: &mut Ctx, which: &str) {
    for (gi, (n, inits, edges, bound)) in graphs(seed(), thorough()).into_iter().enumerate() {
        for (pi, props) in prop_menu().into_iter().enumerate() {
            let g = mk(n, &inits, &edges, bound, props.clone());
            let reach = g.reach();
            for (st, th) in strategies() {
                // C19 ("once told to run to completion the on-demand checker finishes like BFS"): on-demand only
                if which == "c19" && !(st == Strategy::OnDemand && th == 1) { continue; }
                let case = format!("{}:{:?}x{}:g{}p{}:{}", which, st, th, gi, pi, g.describe());
                if !ctx.want(&case) { continue; }
                let o = run(&g, st, &Opts { threads: th, ..Default::default() });
                let mut ok_verdict = true;
                let mut ok_path = true;
                let mut ok_ev_sound = true;
                let mut ok_ev_forest = true;
                let mut notes = String::new();
                for (i, (e, _)) in props.iter().enumerate() {
                    let d = o.discoveries.get(NAMES[i]);
                    match e {
                        Expectation::Always | Expectation::Sometimes => {
                            let witness = |s: u8| if *e == Expectation::Always { !g.cond(i, s) } else { g.cond(i, s) };
                            let exists = reach.iter().any(|s| witness(*s));
                            // the check may stop early once every property has a discovery; a missing
                            // discovery is only wrong when the run completed (done and not all discovered)
                            let all_found = o.discoveries.len() == props.len();
                            if d.is_some() != exists && !(d.is_none() && all_found) { ok_verdict = false; notes.push_str(&format!("[{} reported={} exists={}]", NAMES[i], d.is_some(), exists)); }
                            if let Some(p) = d {
                                if !(g.is_exec(p) && witness(*p.last().unwrap())) { ok_path = false; notes.push_str(&format!("[{} path {:?} not a witness]", NAMES[i], p)); }
                            }
                        }
                        Expectation::Eventually => {
                            if let Some(p) = d {
                                let last = *p.last().unwrap();
                                let genuine = g.is_exec(p) && p.iter().all(|s| !g.cond(i, *s)) && g.succ(last).is_empty();
                                if !genuine { ok_path = false; notes.push_str(&format!("[{} eventually path {:?} not a maximal avoiding path]", NAMES[i], p)); }
                                if !g.has_avoiding_maximal_path(i) { ok_ev_sound = false; notes.push_str(&format!("[{} false alarm]", NAMES[i])); }
                            } else if g.is_forest() && g.has_avoiding_maximal_path(i) && o.discoveries.len() != props.len() {
                                // exact on forests: a finite avoiding maximal path must be reported
                                let finite = {
                                    // on a forest every maximal path is finite (no cycles reachable)
                                    true
                                };
                                if finite { ok_ev_forest = false; notes.push_str(&format!("[{} missed on a forest]", NAMES[i])); }
                            }
                        }
                    }
                }
                let fin = o.finished;
                if !o.labels_ok { ok_path = false; notes.push_str("[a discovery path labels a step with an action that does not lead to the next state]"); }
                match which {
                    "c02" => ctx.check(&case, &format!("c02-{:?}-verdict", st).to_lowercase(), &["CB.check_block.loop1.invariant.discovery-always", "CB.check_block.loop1.invariant.discovery-sometimes"], fin && ok_verdict, format!("finished={} {}", fin, notes), "a discovery iff a reachable witness exists".into()),
                    "c19" => ctx.check(&case, "c19-ondemand-does-not-finish-like-bfs", &["OND.check_block.ensures.partition", "OND.check_block.loop3.invariant.terminal"], fin && ok_verdict && ok_path && ok_ev_sound && ok_ev_forest, format!("finished={} {}", fin, notes), "after run_to_completion: a discovery iff a witness exists, genuine paths, eventually exact on forests".into()),
                    "c03" => ctx.check(&case, &format!("c03-{:?}-witness-path", st).to_lowercase(), &["CB.check_block.loop1.invariant.ebits-exact", "CB.reconstruct_path.ensures.real-path"], ok_path, notes.clone(), "every discovery is a genuine witness path".into()),
                    _ => ctx.check(&case, &format!("c11-{:?}-eventually", st).to_lowercase(), &["CB.check_block.loop1.invariant.ebits-exact"], ok_ev_sound && ok_ev_forest, notes.clone(), "no false alarm; exact on forests".into()),
                }
            }
            // simulation: witness paths only (C03, C11 soundness); stops when everything is discovered or by target
            if which != "c02" && which != "c19" {
                let case = format!("{}:Sim:g{}p{}:{}", which, gi, pi, g.describe());
                if ctx.want(&case) {
                    let o = run(&g, Strategy::Sim, &Opts { threads: 1, target_states: Some(40), seed: seed() + gi as u64, ..Default::default() });
                    let mut ok = !o.panicked;
                    let mut ok_ev = true;
                    let mut notes = String::new();
                    if o.panicked { notes.push_str("[discoveries() panicked: a discovery was recorded with an empty path]"); }
                    for (i, (e, _)) in props.iter().enumerate() {
                        if let Some(p) = o.discoveries.get(NAMES[i]) {
                            match e {
                                Expectation::Always => if !(g.is_exec(p) && !g.cond(i, *p.last().unwrap())) { ok = false; notes.push_str(&format!("[{} {:?}]", NAMES[i], p)); },
                                Expectation::Sometimes => if !(g.is_exec(p) && g.cond(i, *p.last().unwrap())) { ok = false; notes.push_str(&format!("[{} {:?}]", NAMES[i], p)); },
                                Expectation::Eventually => {
                                    let last = *p.last().unwrap();
                                    let closes_cycle = p.len() >= 2 && p[..p.len() - 1].contains(&last);
                                    let genuine = g.is_exec(p) && p.iter().all(|s| !g.cond(i, *s)) && (g.succ(last).is_empty() || closes_cycle);
                                    if !genuine { ok = false; notes.push_str(&format!("[{} eventually path {:?} is not maximal / not avoiding]", NAMES[i], p)); }
                                    if !g.has_avoiding_maximal_path(i) { ok_ev = false; notes.push_str(&format!("[{} false alarm]", NAMES[i])); }
                                }
                            }
                        }
                    }
                    if which == "c03" {
                        ctx.check(&case, "c03-sim-witness-path", &["SIM.check_trace_from_initial.ensures.eventually-path-maximal"], ok, notes, "every discovery is a genuine witness path (eventually: maximal or closing a cycle)".into());
                    } else {
                        ctx.check(&case, "c11-sim-eventually", &["SIM.check_trace_from_initial.ensures.eventually-path-maximal"], ok_ev, notes, "no false alarm".into());
                    }
                }
            }
        }
    }
}

/// C12: HasDiscoveries::matches against the meaning of each variant, on every subset of discoveries of
/// every small property list (the call-site facts hold: distinct names, discoveries are property names).
fn c12_matches(ctx: &mut Ctx) {
    use std::collections::BTreeSet as Set;
    let exps = [Expectation::Always, Expectation::Sometimes, Expectation::Eventually];
    for nprops in 0..=3usize {
        for ecode in 0..3usize.pow(nprops as u32) {
            let es: Vec<Expectation> = (0..nprops).map(|k| exps[(ecode / 3usize.pow(k as u32)) % 3].clone()).collect();
            let g = mk(1, &[0], &[vec![]], 1, es.iter().map(|e| (e.clone(), 0u16)).collect());
            let props = stateright::Model::properties(&g);
            for dmask in 0..(1u32 << nprops) {
                let d: Set<&'static str> = (0..nprops).filter(|i| dmask & (1 << i) != 0).map(|i| NAMES[i]).collect();
                let fail = |i: usize| es[i] != Expectation::Sometimes;
                let mut variants: Vec<(String, HasDiscoveries, bool)> = vec![
                    ("All".into(), HasDiscoveries::All, (0..nprops).all(|i| d.contains(NAMES[i]))),
                    ("Any".into(), HasDiscoveries::Any, !d.is_empty()),
                    ("AnyFailures".into(), HasDiscoveries::AnyFailures, (0..nprops).any(|i| fail(i) && d.contains(NAMES[i]))),
                    ("AllFailures".into(), HasDiscoveries::AllFailures, (0..nprops).all(|i| !fail(i) || d.contains(NAMES[i]))),
                ];
                for smask in 0..8u32 {
                    let s: Set<&'static str> = (0..3).filter(|i| smask & (1 << i) != 0).map(|i| NAMES[i]).collect();
                    variants.push((format!("AllOf{:?}", s), HasDiscoveries::AllOf(s.clone()), s.iter().all(|n| d.contains(n))));
                    variants.push((format!("AnyOf{:?}", s), HasDiscoveries::AnyOf(s.clone()), s.iter().any(|n| d.contains(n))));
                }
                for (vname, v, want) in variants {
                    let case = format!("c12.matches:{}:props={:?}:disc={:?}", vname, es, d);
                    if !ctx.want(&case) { continue; }
                    let got = v.matches(&d, &props);
                    let label = vname.split(|c: char| !c.is_alphabetic()).next().unwrap().to_lowercase();
                    ctx.check(&case, &format!("c12-matches-{}", label), &["HD.matches.ensures.any", "HD.matches.ensures.all", "HD.matches.ensures.any-failures", "HD.matches.ensures.all-failures", "HD.matches.ensures.all-of", "HD.matches.ensures.any-of"], got == want, format!("{}", got), format!("{}", want));
                }
            }
        }
    }
}

/// C12: depth limit, state target, finish conditions.
/// C12 "with a timeout it stops within a bounded delay after expiry for every thread count": models that are effectively
/// unbounded for the time the oracle waits (a long chain: the frontier never has more than one job; a binary tree: wide
/// frontier). The timeout thread polls once per second, a block is 1500 states: 6 s is generous.
#[derive(Clone)]
pub struct Long { pub wide: bool, pub limit: u64 }
impl stateright::Model for Long {
    type State = u64;
    type Action = u8;
    fn init_states(&self) -> Vec<u64> { vec![1] }
    fn actions(&self, s: &u64, a: &mut Vec<u8>) { if *s < self.limit { a.push(0); if self.wide { a.push(1); } } }
    fn next_state(&self, s: &u64, a: u8) -> Option<u64> { Some(if self.wide { 2 * *s + a as u64 } else { *s + 1 }) }
    fn properties(&self) -> Vec<stateright::Property<Self>> { vec![stateright::Property::sometimes("never", |_, _| false)] }
}

pub fn c12_timeout(ctx: &mut Ctx) {
    use stateright::{Checker, Model};
    use std::time::{Duration, Instant};
    for (shape, wide) in [("chain", false), ("tree", true)] {
        for strat in ["bfs", "dfs"] {
            for threads in [1usize, 2] {
                let case = format!("c12.timeout:{}:{}x{}", shape, strat, threads);
                if !ctx.want(&case) { continue; }
                // ~30 million states: far more than can be evaluated while the oracle waits, yet finite (a run that
                // ignores the timeout ends by itself and frees its memory)
                let m = Long { wide, limit: if wide { 1 << 24 } else { 30_000_000 } };
                let t0 = Instant::now();
                let b = m.checker().threads(threads).timeout(Duration::from_millis(1500));
                // done: is_done() within the bound AND the workers really stopped (the state count no longer moves)
                let (done_after, states, still_running) = {
                    let poll = |c: &dyn Fn() -> (bool, usize)| {
                        let mut r = (false, 0usize);
                        while t0.elapsed() < Duration::from_secs(9) { r = c(); if r.0 { break; } std::thread::sleep(Duration::from_millis(20)); }
                        std::thread::sleep(Duration::from_millis(1600));
                        let a = c().1;
                        std::thread::sleep(Duration::from_millis(500));
                        let b = c().1;
                        (r.0, b, a != b)
                    };
                    if strat == "bfs" { let c = b.spawn_bfs(); let r = poll(&|| (c.is_done(), c.unique_state_count())); std::mem::forget(c); r }
                    else { let c = b.spawn_dfs(); let r = poll(&|| (c.is_done(), c.unique_state_count())); std::mem::forget(c); r }
                };
                let elapsed = t0.elapsed().as_millis();
                if std::env::var("ORACLE_DEBUG").is_ok() { eprintln!("{} done={} after {} ms states={} still_running={}", case, done_after, elapsed, states, still_running); }
                ctx.check(&case, "c12-timeout-not-honoured", &["WL.worker-loop (a closed market is noticed only when work is shared)"], done_after && !still_running,
                    format!("is_done()={} after {} ms, {} states so far, workers still generating states afterwards: {}", done_after, elapsed, states, still_running), "the check stops within a bounded delay after the 1500 ms timeout (polled once per second)".into());
            }
        }
    }
}

/// C12 "an unexpired timeout changes neither results nor progress": the same finite model with and without a one-hour
/// timeout; the run with the timeout must finish with the same counts and not be slower by more than a generous margin
/// (a timeout thread that sleeps while holding the market lock stalls every push / pop / split for a second at a time).
pub fn c12_unexpired_timeout(ctx: &mut Ctx) {
    use stateright::{Checker, Model};
    use std::time::{Duration, Instant};
    for strat in ["bfs", "dfs"] {
        for threads in [1usize, 3] {
            let case = format!("c12.timeout-unexpired:{}x{}", strat, threads);
            if !ctx.want(&case) { continue; }
            let m = Long { wide: true, limit: 1 << 14 }; // 32767 states: about 22 blocks of 1500
            let run = |with_timeout: bool| {
                let t0 = Instant::now();
                let mut b = m.clone().checker().threads(threads);
                if with_timeout { b = b.timeout(Duration::from_secs(3600)); }
                let (u, t) = if strat == "bfs" { let c = b.spawn_bfs().join(); (c.unique_state_count(), c.state_count()) } else { let c = b.spawn_dfs().join(); (c.unique_state_count(), c.state_count()) };
                (u, t, t0.elapsed())
            };
            let plain = run(false);
            let timed = run(true);
            let ok = plain.0 == timed.0 && timed.2 < plain.2 * 20 + Duration::from_secs(8);
            ctx.check(&case, "c12-unexpired-timeout-changes-progress", &["JobBroker::new timeout thread (not under contract)"], ok,
                format!("with a one-hour timeout: {} unique states in {:?}; without: {} in {:?}", timed.0, timed.2, plain.0, plain.2), "same counts, no stall".into());
        }
    }
}

pub fn c12(ctx: &mut Ctx) {
    c12_matches(ctx);
    c12_timeout(ctx);
    c12_unexpired_timeout(ctx);
    for (gi, (n, inits, edges, bound)) in graphs(seed(), thorough()).into_iter().enumerate() {
        let g = mk(n, &inits, &edges, bound, vec![(Expectation::Sometimes, 0)]);
        let dist = g.dist();
        for depth in 1..=3usize {
            for (st, th) in strategies() {
                let case = format!("c12.depth:{:?}x{}:d{}:g{}:{}", st, th, depth, gi, g.describe());
                if !ctx.want(&case) { continue; }
                let o = run(&g, st, &Opts { threads: th, max_depth: Some(depth), ..Default::default() });
                // depth counts states: the initial state has depth 1; evaluated iff depth < limit
                let too_deep: Vec<&Vec<u8>> = o.visited_paths.iter().filter(|p| p.len() >= depth).collect();
                let mut ok = too_deep.is_empty();
                let mut note = format!("evaluated beyond the limit: {:?}", too_deep);
                if st == Strategy::Bfs && th == 1 {
                    let want: BTreeSet<u8> = dist.iter().filter(|(_, d)| **d + 1 < depth).map(|(s, _)| *s).collect();
                    let got: BTreeSet<u8> = o.visited.iter().copied().collect();
                    if got != want { ok = false; note.push_str(&format!(" bfs evaluated {:?}, nearer states {:?}", got, want)); }
                }
                ctx.check(&case, &format!("c12-{:?}-max-depth", st).to_lowercase(), &["CB.check_block.loop1.invariant.depth-limit"], ok, note, format!("no state at depth >= {} is evaluated (BFS: exactly the nearer ones)", depth));
            }
        }
        for target in [1usize, 2, 4] {
            for (st, th) in strategies() {
                if st == Strategy::OnDemand { continue; }
                let case = format!("c12.target:{:?}x{}:t{}:g{}:{}", st, th, target, gi, g.describe());
                if !ctx.want(&case) { continue; }
                let o = run(&g, st, &Opts { threads: th, target_states: Some(target), ..Default::default() });
                let full = run(&g, st, &Opts { threads: th, ..Default::default() });
                let ok = o.total >= target.min(full.total);
                ctx.check(&case, &format!("c12-{:?}-target-state-count", st).to_lowercase(), &["CB.spawn.worker-loop.target"], ok, format!("generated {}", o.total), format!(">= min({}, {})", target, full.total));
            }
        }
    }
    // finish conditions: the check does not stop before the condition holds (it runs to completion otherwise)
    use Expectation::*;
    for (gi, (n, inits, edges, bound)) in graphs(seed(), false).into_iter().enumerate() {
        let props = vec![(Always, 0b11011u16), (Sometimes, 0b00010u16), (Always, 0b11111u16)];
        let g = mk(n, &inits, &edges, bound, props.clone());
        let reach = g.reach();
        let fw: Vec<(&str, HasDiscoveries)> = vec![("any", HasDiscoveries::Any), ("anyfail", HasDiscoveries::AnyFailures), ("allfail", HasDiscoveries::AllFailures),
            ("allof", HasDiscoveries::AllOf(["p0", "p1"].into_iter().collect())), ("anyof", HasDiscoveries::AnyOf(["p1"].into_iter().collect()))];
        for (fname, f) in fw {
            for (st, th) in [(Strategy::Bfs, 1usize), (Strategy::Dfs, 1), (Strategy::OnDemand, 1)] {
                let case = format!("c12.finish:{}:{:?}:g{}:{}", fname, st, gi, g.describe());
                if !ctx.want(&case) { continue; }
                let o = run(&g, st, &Opts { threads: th, finish_when: Some(f.clone()), ..Default::default() });
                let d: BTreeSet<&str> = o.discoveries.keys().copied().collect();
                let holds = match fname {
                    "any" => !d.is_empty(),
                    "anyfail" => d.contains("p0") || d.contains("p2"),
                    "allfail" => d.contains("p0") && d.contains("p2"),
                    "allof" => d.contains("p0") && d.contains("p1"),
                    _ => d.contains("p1"),
                };
                // stopped early (not every reachable state evaluated) only if the condition holds
                let complete = o.visited.iter().copied().collect::<BTreeSet<u8>>() == reach;
                ctx.check(&case, "c12-finish-when", &["HD.matches.ensures.any", "CB.spawn.worker-loop.finish"], complete || holds, format!("stopped early with discoveries {:?}", d), "early stop only when the finish condition holds".into());
            }
        }
    }
    // every property discoverable, finish condition that never holds (AnyFailures with `sometimes` properties only): the only
    // legitimate reason to end before the whole space is evaluated is that the check is DONE in the sense of
    // `Checker::is_done` - every property has a discovery, no verdict can change any more (DESIGN 9.3, O-C12-1)
    for (gi, (n, inits, edges, bound)) in graphs(seed(), false).into_iter().enumerate() {
        let props = vec![(Sometimes, 0b00011u16), (Sometimes, 0b00110u16)];
        let g = mk(n, &inits, &edges, bound, props.clone());
        let reach = g.reach();
        for (st, th) in [(Strategy::Bfs, 1usize), (Strategy::Dfs, 1), (Strategy::OnDemand, 1)] {
            let case = format!("c12.finish:anyfail-never:{:?}:g{}:{}", st, gi, g.describe());
            if !ctx.want(&case) { continue; }
            let o = run(&g, st, &Opts { threads: th, finish_when: Some(HasDiscoveries::AnyFailures), ..Default::default() });
            let d: BTreeSet<&str> = o.discoveries.keys().copied().collect();
            let complete = o.visited.iter().copied().collect::<BTreeSet<u8>>() == reach;
            ctx.check(&case, "c12-finish-when", &["WL.ond_iteration.ensures.stop-only-if", "WL.bfs_iteration.ensures.stop-only-if", "WL.dfs_iteration.ensures.stop-only-if"], o.finished && (complete || d.len() == props.len()),
                format!("finished={} stopped early (visited {:?} of {:?}) with discoveries {:?} although AnyFailures cannot hold and not every property is discovered", o.finished, o.visited, reach, d), "early stop only when the finish condition holds (or every property has a discovery)".into());
        }
    }
}

/// C13: single-threaded BFS visits by distance and reports shortest witnesses.
pub fn c13(ctx: &mut Ctx) {
    c13_large(ctx);
    for (gi, (n, inits, edges, bound)) in graphs(seed(), thorough()).into_iter().enumerate() {
        // plus two menus with violators at SEVERAL depths and a companion property that is never discovered, so the
        // search goes on after the first (shortest) counterexample and must not replace it by a deeper one
        let mut menu: Vec<Vec<(Expectation, u16)>> = prop_menu().into_iter().take(3).collect();
        menu.push(vec![(Expectation::Always, 0b00001), (Expectation::Sometimes, 0)]);
        menu.push(vec![(Expectation::Always, 0b11111), (Expectation::Always, 0b00011), (Expectation::Sometimes, 0b11100)]);
        for (pi, props) in menu.into_iter().enumerate() {
            let g = mk(n, &inits, &edges, bound, props.clone());
            let case = format!("c13:g{}p{}:{}", gi, pi, g.describe());
            if !ctx.want(&case) { continue; }
            let dist = g.dist();
            let (order, disc) = run_bfs_order(&g, &Opts::default());
            // a state the reference search cannot reach (e.g. outside the boundary) has no distance: that is a failure
            let strangers: Vec<u8> = order.iter().copied().filter(|s| !dist.contains_key(s)).collect();
            let ds: Vec<usize> = order.iter().map(|s| dist.get(s).copied().unwrap_or(usize::MAX)).collect();
            let mut ok = strangers.is_empty() && ds.windows(2).all(|w| w[0] <= w[1]);
            let mut note = format!("order {:?} distances {:?} unreachable-or-out-of-boundary {:?}", order, ds, strangers);
            for (i, (e, _)) in props.iter().enumerate() {
                if let Some(p) = disc.get(NAMES[i]) {
                    let witness = |s: u8| if *e == Expectation::Always { !g.cond(i, s) } else { g.cond(i, s) };
                    let best = dist.iter().filter(|(s, _)| witness(**s)).map(|(_, d)| *d).min();
                    if Some(p.len() - 1) != best { ok = false; note.push_str(&format!(" [{} path {:?} has {} transitions, shortest {:?}]", NAMES[i], p, p.len() - 1, best)); }
                }
            }
            ctx.check(&case, "c13-bfs-order-shortest", &["CB.check_block.loop1.invariant.queue-order"], ok, note, "non-decreasing distance; shortest witnesses".into());
        }
    }
}


/// A frontier wider than one work block (1500 jobs): 0 -> 1..=N, n -> n + N. Every exhaustive
/// strategy must still evaluate all 2N + 1 states (C01; C19 "once told to run to completion finishes like BFS").
#[derive(Clone)]
pub struct Fan(pub u32);
impl stateright::Model for Fan {
    type State = u32;
    type Action = u32;
    fn init_states(&self) -> Vec<u32> { vec![0] }
    fn actions(&self, s: &u32, a: &mut Vec<u32>) {
        if *s == 0 { a.extend(1..=self.0); } else if *s <= self.0 { a.push(*s + self.0); }
    }
    fn next_state(&self, _s: &u32, a: u32) -> Option<u32> { Some(a) }
    fn properties(&self) -> Vec<stateright::Property<Self>> { vec![stateright::Property::sometimes("never", |_, _| false)] }
}

pub fn wide_frontier(ctx: &mut Ctx, which: &str) {
    use stateright::{Checker, Model};
    let n = 1700u32;
    for strat in ["bfs", "dfs", "ondemand"] {
        let case = format!("{}.fan:{}:n={}", which, strat, n);
        if !ctx.want(&case) { continue; }
        let (rec, acc) = stateright::StateRecorder::new_with_accessor();
        let b = Fan(n).checker().visitor(rec);
        let (unique, total) = match strat {
            "bfs" => { let c = b.spawn_bfs().join(); (c.unique_state_count(), c.state_count()) }
            "dfs" => { let c = b.spawn_dfs().join(); (c.unique_state_count(), c.state_count()) }
            _ => {
                let c = b.spawn_on_demand();
                c.run_to_completion();
                let t0 = std::time::Instant::now();
                while t0.elapsed() < std::time::Duration::from_secs(60) && !c.is_done() {
                    std::thread::sleep(std::time::Duration::from_millis(5));
                }
                (c.unique_state_count(), c.state_count())
            }
        };
        let visited = acc().len();
        let want = 2 * n as usize + 1;
        ctx.check(&case, &format!("{}-wide-frontier-states-lost", strat), &["OND.check_block.ensures.partition", "CB.check_block.ensures.partition"], visited == want && unique == want && total >= unique,
            format!("visited={} unique={} total={}", visited, unique, total), format!("visited={} unique={}", want, want));
    }
}


/// C13 beyond one work block (1500 states): a bounded grid, BFS must evaluate by non-decreasing
/// distance; and a root with many children each with one grandchild: the witness one step from the
/// root must be reported with one transition wherever it sits in the frontier.
#[derive(Clone)]
pub struct Grid { pub n: u32, pub bad: Option<(u32, u32)> }
impl stateright::Model for Grid {
    type State = (u32, u32);
    type Action = u8;
    fn init_states(&self) -> Vec<(u32, u32)> { vec![(0, 0)] }
    fn actions(&self, s: &(u32, u32), a: &mut Vec<u8>) { if s.0 + 1 < self.n { a.push(0); } if s.1 + 1 < self.n { a.push(1); } }
    fn next_state(&self, s: &(u32, u32), a: u8) -> Option<(u32, u32)> { Some(if a == 0 { (s.0 + 1, s.1) } else { (s.0, s.1 + 1) }) }
    fn properties(&self) -> Vec<stateright::Property<Self>> {
        vec![stateright::Property::always("not bad", |m: &Grid, s: &(u32, u32)| Some(*s) != m.bad)]
    }
}
#[derive(Clone)]
pub struct Star { pub n: u32, pub target: u32 }
impl stateright::Model for Star {
    type State = u32;
    type Action = u32;
    fn init_states(&self) -> Vec<u32> { vec![0] }
    fn actions(&self, s: &u32, a: &mut Vec<u32>) { if *s == 0 { a.extend(1..=self.n); } else if *s <= self.n { a.push(*s + self.n); } }
    fn next_state(&self, _s: &u32, a: u32) -> Option<u32> { Some(a) }
    fn properties(&self) -> Vec<stateright::Property<Self>> {
        // witnessed by child `target` (1 transition) and by the grandchild of every other child (2 transitions)
        vec![stateright::Property::sometimes("hit", |m: &Star, s: &u32| *s == m.target || (*s > m.n && *s != m.target + m.n))]
    }
}
pub fn c13_large(ctx: &mut Ctx) {
    use stateright::{Checker, Model};
    let case = "c13.grid:45x45".to_string();
    if ctx.want(&case) {
        let (rec, acc) = stateright::StateRecorder::new_with_accessor();
        let _c = Grid { n: 45, bad: None }.checker().threads(1).visitor(rec).spawn_bfs().join();
        let order = acc();
        let bad = order.windows(2).position(|w| w[0].0 + w[0].1 > w[1].0 + w[1].1);
        ctx.check(&case, "c13-bfs-order-beyond-one-block", &["CB.check_block.ensures.eval-order", "CB.check_block.ensures.queue-order"], bad.is_none() && order.len() == 45 * 45,
            format!("{} states; first inversion at {:?}: {:?}", order.len(), bad, bad.map(|i| (order[i], order[i + 1]))), "2025 states evaluated in non-decreasing distance".into());
    }
    for target in [1u32, 700, 1499, 1500, 1501, 1502, 2000] {
        let case = format!("c13.star:target={}", target);
        if !ctx.want(&case) { continue; }
        let c = Star { n: 2000, target }.checker().threads(1).spawn_bfs().join();
        let len = c.discovery("hit").map(|p| p.into_states().len());
        ctx.check(&case, "c13-not-shortest-witness-beyond-one-block", &["CB.lemma.shortest_witness"], len == Some(2), format!("witness path has {:?} states", len), "2 states (1 transition)".into());
    }
}
