//! C15: adapters are transparent - the native twin of the Kani harnesses in kani/src/k_fwd.rs, on
//! enumerated concrete arguments (same probe actor, same differential comparison).
use crate::probe::*;
use crate::Ctx;
use choice::{Choice, Never};
use stateright::actor::register::*;
use stateright::actor::write_once_register::*;
use stateright::actor::*;
use std::borrow::Cow;
use std::fmt::Debug;
use std::hash::Hash;

#[derive(Clone, Debug, PartialEq, Eq)]
pub struct Q;
impl Actor for Q {
    type Msg = u8;
    type State = u16;
    type Timer = u8;
    type Random = u8;
    fn on_start(&self, _id: Id, _o: &mut Out<Self>) -> u16 {
        77
    }
}

fn one<M, W>(ctx: &mut Ctx, label: &str, wrap_actor: fn(P<M>) -> W, wrap_state: fn(PS<M>) -> W::State, unwrap: fn(&W::State) -> Option<&PS<M>>, msgs: &[M])
where
    M: Clone + Debug + Eq + Hash,
    W: Actor<Msg = M, Timer = u8, Random = u8>,
{
    for quiet in [0u8, 1, 2, 3] {
        let inner: P<M> = P::new(quiet);
        for id in [0usize, 3] {
            // on_start
            let case = format!("{}.start:mode={} id={}", label, quiet, id);
            if ctx.want(&case) {
                let mut dout: Out<P<M>> = Out::new();
                let ds = inner.on_start(Id::from(id), &mut dout);
                let w = wrap_actor(inner.clone());
                let mut wout: Out<W> = Out::new();
                let ws = w.on_start(Id::from(id), &mut wout);
                let ok = unwrap(&ws) == Some(&ds) && out_eq(&wout, &dout);
                ctx.check(&case, "adapter-start", &[&format!("KX.k_fwd_{}_start", label)], ok, format!("{:?} {:?}", ws, wout), format!("{:?} {:?}", ds, dout));
            }
            for (mi, m) in msgs.iter().enumerate() {
                for handler in ["msg", "timeout", "random"] {
                    let case = format!("{}.{}:mode={} id={} m={}", label, handler, quiet, id, mi);
                    if !ctx.want(&case) {
                        continue;
                    }
                    let s0 = PS { tag: 9, id: 5, src: 6, m: if mi % 2 == 0 { Some(m.clone()) } else { None }, x: 4 };
                    let mut ds = Cow::Borrowed(&s0);
                    let mut dout: Out<P<M>> = Out::new();
                    let w = wrap_actor(inner.clone());
                    let ws0 = wrap_state(s0.clone());
                    let mut wst = Cow::Borrowed(&ws0);
                    let mut wout: Out<W> = Out::new();
                    let t = 11u8 + mi as u8;
                    match handler {
                        "msg" => {
                            inner.on_msg(Id::from(id), &mut ds, Id::from(2), m.clone(), &mut dout);
                            w.on_msg(Id::from(id), &mut wst, Id::from(2), m.clone(), &mut wout);
                        }
                        "timeout" => {
                            inner.on_timeout(Id::from(id), &mut ds, &t, &mut dout);
                            w.on_timeout(Id::from(id), &mut wst, &t, &mut wout);
                        }
                        _ => {
                            inner.on_random(Id::from(id), &mut ds, &t, &mut dout);
                            w.on_random(Id::from(id), &mut wst, &t, &mut wout);
                        }
                    }
                    let ok = matches!(ds, Cow::Owned(_)) == matches!(wst, Cow::Owned(_)) && unwrap(&*wst) == Some(&*ds) && out_eq(&wout, &dout);
                    ctx.check(&case, &format!("adapter-{}", handler), &[&format!("KX.k_fwd_{}_{}", label, handler)], ok,
                        format!("owned={} state={:?} out={:?}", matches!(wst, Cow::Owned(_)), &*wst, wout),
                        format!("owned={} state={:?} out={:?}", matches!(ds, Cow::Owned(_)), &*ds, dout));
                }
            }
        }
    }
}

type RM = RegisterMsg<u64, char, u8>;
type WM = WORegisterMsg<u64, char, u8>;

pub fn run(ctx: &mut Ctx) {
    let ms: Vec<u8> = vec![0, 7, 255];
    one::<u8, Choice<P<u8>, Never>>(ctx, "choice_never", |p| Choice::new(p), |s| Choice::new(s), |s| Some(s.get()), &ms);
    one::<u8, Choice<P<u8>, Choice<Q, Never>>>(ctx, "choice_l", |p| Choice::new(p), |s| Choice::new(s), |s| match s { Choice::L(s) => Some(s), _ => None }, &ms);
    one::<u8, Choice<Q, Choice<P<u8>, Never>>>(ctx, "choice_r", |p| Choice::new(p).or(), |s| Choice::new(s).or(), |s| match s { Choice::R(s) => Some(s.get()), _ => None }, &ms);
    let rms: Vec<RM> = vec![RegisterMsg::Internal(3), RegisterMsg::Put(4, 'A'), RegisterMsg::Get(5), RegisterMsg::PutOk(6), RegisterMsg::GetOk(7, 'Z')];
    one::<RM, RegisterActor<P<RM>>>(ctx, "reg_server", RegisterActor::Server, RegisterActorState::Server, |s| match s { RegisterActorState::Server(s) => Some(s), _ => None }, &rms);
    let wms: Vec<WM> = vec![WORegisterMsg::Internal(3), WORegisterMsg::Put(4, 'A'), WORegisterMsg::Get(5), WORegisterMsg::PutOk(6), WORegisterMsg::PutFail(8), WORegisterMsg::GetOk(7, 'Z')];
    one::<WM, WORegisterActor<P<WM>>>(ctx, "wo_server", WORegisterActor::Server, WORegisterActorState::Server, |s| match s { WORegisterActorState::Server(s) => Some(s), _ => None }, &wms);
    // scripted Vec client
    for n in 0..=3usize {
        let script: Vec<(Id, u8)> = (0..n).map(|i| (Id::from(10 + i), 40 + i as u8)).collect();
        let case = format!("vec_client.start:n={}", n);
        if ctx.want(&case) {
            let mut o: Out<Vec<(Id, u8)>> = Out::new();
            let s = script.on_start(Id::from(1), &mut o);
            let ok = if n == 0 { s == 0 && o.len() == 0 } else { s == 1 && o.len() == 1 && cmd_eq(&o[0], &Command::Send(Id::from(10), 40)) };
            ctx.check(&case, "vec-client", &["KX.k_vec_client"], ok, format!("{} {:?}", s, o), "sends exactly script[0] iff non-empty".into());
        }
        for k in 0..=4usize {
            let case = format!("vec_client.msg:n={} k={}", n, k);
            if ctx.want(&case) {
                let mut st = Cow::Borrowed(&k);
                let mut o: Out<Vec<(Id, u8)>> = Out::new();
                script.on_msg(Id::from(1), &mut st, Id::from(2), 99, &mut o);
                let ok = if k < n { o.len() == 1 && cmd_eq(&o[0], &Command::Send(Id::from(10 + k), 40 + k as u8)) && *st == k + 1 } else { o.len() == 0 && matches!(st, Cow::Borrowed(_)) };
                ctx.check(&case, "vec-client", &["KX.k_vec_client"], ok, format!("{} {:?}", *st, o), "sends exactly script[k] and moves to k+1 iff k < len".into());
            }
        }
    }
}
