//! C05 (decided part only): the job market's critical sections, driven sequentially through the
//! facade on the real JobBroker: no job is lost or duplicated by push / split_and_push / pop,
//! a closed market hands out nothing, the last worker closes the market.
use crate::Ctx;
use stateright::verif_facade::Broker;
use std::collections::VecDeque;

fn sorted(mut v: Vec<u32>) -> Vec<u32> {
    v.sort();
    v
}

pub fn run(ctx: &mut Ctx) {
    for threads in 1..=4usize {
        for n in 0..=7u32 {
            for waiting in 0..threads {
                // `waiting` workers are parked (they popped from an empty market): simulate by popping
                // on clones? A parked pop would block this thread, so only thread counts are varied here.
                let _ = waiting;
            }
            let case = format!("jm.split:threads={} n={}", threads, n);
            if ctx.want(&case) {
                let mut b: Broker<u32> = Broker::new(threads);
                let mut jobs: VecDeque<u32> = (0..n).collect();
                let before: Vec<u32> = jobs.iter().copied().collect();
                b.split_and_push(&mut jobs);
                let kept: Vec<u32> = jobs.iter().copied().collect();
                // drain what was shared (single thread: pop returns batches until the market is empty;
                // with threads > 1 an extra pop would park, so stop after `threads` pops at most)
                let mut shared: Vec<u32> = vec![];
                let mut other = b.share();
                // all workers but us are "active", so nothing is shared (pieces == 1)
                let prefix_ok = before.starts_with(&kept);
                // we cannot pop without risking to block when threads > 1; is_closed must be false
                let open = !b.is_closed();
                drop(other.share());
                let _ = &mut shared;
                let ok = prefix_ok && open && kept.len() == before.len();
                ctx.check(&case, "jm-split-nobody-waiting", &["JM.split_and_push.ensures.conservation", "JM.split_and_push.ensures.keeps-prefix"], ok,
                    format!("kept={:?}", kept), format!("kept={:?} (no idle worker: nothing is shared)", before));
            }
        }
    }
    // single worker: push then pop returns exactly the batch; a second pop closes the market
    for n in 0..=4u32 {
        let case = format!("jm.push_pop:n={}", n);
        if ctx.want(&case) {
            let mut b: Broker<u32> = Broker::new(1);
            let jobs: VecDeque<u32> = (0..n).collect();
            b.push(jobs.clone());
            let got = b.pop();
            let closed_before = b.is_closed();
            let got2 = b.pop(); // last (only) worker: closes
            let ok = got == jobs && !closed_before && got2.is_empty() && b.is_closed();
            ctx.check(&case, "jm-push-pop", &["JM.push.ensures.open", "JM.pop.ensures.fast-take", "JM.pop.ensures.fast-last-worker", "JM.is_closed.ensures.meaning"], ok,
                format!("{:?} closed_before={} {:?} closed={}", got, closed_before, got2, b.is_closed()), format!("{:?} false [] true", jobs));
            // after closing: push is ignored, split_and_push clears, pop returns nothing
            let mut b2 = b.share();
            b2.push((0..3).collect());
            let mut j: VecDeque<u32> = (0..3).collect();
            b2.split_and_push(&mut j);
            let p = b2.pop();
            let case2 = format!("jm.closed:n={}", n);
            ctx.check(&case2, "jm-closed", &["JM.push.ensures.closed", "JM.split_and_push.ensures.closed", "JM.pop.ensures.closed"], j.is_empty() && p.is_empty() && b2.is_closed(),
                format!("jobs={:?} pop={:?}", j, p), "jobs=[] pop=[] closed".into());
        }
    }
    // two brokers, one dropped: market closed for the other, batches discarded
    let case = "jm.drop".to_string();
    if ctx.want(&case) {
        let mut a: Broker<u32> = Broker::new(2);
        let b = a.share();
        a.push((0..3).collect());
        drop(b);
        let p = a.pop();
        let mut ids = sorted(p.iter().copied().collect());
        ids.dedup();
        ctx.check(&case, "jm-drop-closes", &["JM.drop_broker.ensures.closed", "JM.pop.ensures.closed"], p.is_empty(), format!("{:?}", p), "[] (a dropped broker closes the market)".into());
    }
}
