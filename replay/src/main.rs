//! Replay oracle: the executable form of the top-level postconditions, run against the REAL crate
//! built from /repo's current working tree, on enumerated small inputs. It is the witness finder
//! of the contract checks (DESIGN.md 3.6): it never decides a property on its own; it turns a
//! failed obligation into a concrete failing input where one exists in its enumeration.
//!
//! usage: oracle <Cxx> [--only <case id>]
//! output: one JSON object per failing case {"kind":"fail","case":..,"class":..,"obligations":[..],
//!         "observed":..,"required":..} and a final {"kind":"summary","cases":N,"failing":K}.
use std::panic;

mod c04;
mod ck;
mod explorer;
mod graphs;
mod c05;
mod c06;
mod c07;
mod c08;
mod c09;
mod c14;
mod c10;
mod c15;
mod c16;
mod c17;
mod c18;
mod c19;
mod c20;
#[allow(dead_code)]
mod probe;

pub struct Ctx {
    pub only: Option<String>,
    pub cases: u64,
    pub failing: u64,
    pub per_class: std::collections::BTreeMap<String, u64>,
}

impl Ctx {
    /// Whether the case with this id should run (honours --only).
    pub fn want(&self, case: &str) -> bool {
        match &self.only {
            Some(o) => o == case,
            None => true,
        }
    }
    pub fn check(&mut self, case: &str, class: &str, obligations: &[&str], ok: bool, observed: String, required: String) {
        self.cases += 1;
        if !ok {
            self.failing += 1;
            // at most three cases per failure class are printed (a known finding can fail on many
            // inputs; a different class must not be drowned out)
            let k = self.per_class.entry(class.to_string()).or_insert(0);
            *k += 1;
            if *k <= 3 {
                println!(
                    "{}",
                    serde_json::json!({"kind":"fail","case":case,"class":class,"obligations":obligations,
                        "observed":observed,"required":required})
                );
            }
        }
    }
}

fn main() {
    let args: Vec<String> = std::env::args().collect();
    if args.len() < 2 {
        eprintln!("usage: oracle <Cxx> [--only <case>]");
        std::process::exit(2);
    }
    let only = args.iter().position(|a| a == "--only").and_then(|i| args.get(i + 1).cloned());
    let mut ctx = Ctx { only, cases: 0, failing: 0, per_class: Default::default() };
    if std::env::var("ORACLE_PANIC").is_err() {
        panic::set_hook(Box::new(|_| {}));
    }
    match args[1].as_str() {
        "C01" => ck::c01(&mut ctx),
        "C02" => ck::c02_c03_c11(&mut ctx, "c02"),
        "C03" => ck::c02_c03_c11(&mut ctx, "c03"),
        "C11" => ck::c02_c03_c11(&mut ctx, "c11"),
        "C12" => ck::c12(&mut ctx),
        "C13" => ck::c13(&mut ctx),
        "C04" => c04::run(&mut ctx),
        "C05" => c05::run(&mut ctx),
        "C06" => c06::run(&mut ctx),
        "C07" => c07::run(&mut ctx),
        "C08" => c08::run(&mut ctx),
        "C09" => c09::run(&mut ctx),
        "C14" => c14::run(&mut ctx),
        "C10" => c10::run(&mut ctx),
        "C15" => c15::run(&mut ctx),
        "C16" => c16::run(&mut ctx),
        "C17" => c17::run(&mut ctx),
        "C18" => c18::run(&mut ctx),
        "C19" => {
            c19::run(&mut ctx);
            ck::wide_frontier(&mut ctx, "c19");
            explorer::run(&mut ctx);
            if std::env::var("VERIF_TIER").map(|t| t == "thorough").unwrap_or(false) { ck::c02_c03_c11(&mut ctx, "c19"); }
        }
        "C20" => c20::run(&mut ctx),
        other => {
            eprintln!("no oracle for {}", other);
        }
    }
    println!("{}", serde_json::json!({"kind":"summary","cases":ctx.cases,"failing":ctx.failing,"per_class":ctx.per_class}));
    std::process::exit(if ctx.failing > 0 { 1 } else { 0 });
}
