//! C19 (Path API): "paths rebuilt from fingerprints, from action lists and from their encoded form denote
//! the same execution".  Executable form of the PATH unit's postconditions, run through the REAL crate on
//! the small explicit graphs of `graphs.rs`: every execution with at most 4 states from an init state
//! (the boundary is ignored: the Path functions ignore it), plus fingerprint / action sequences that denote
//! no execution.  In `G` an action is the successor it leads to, so the action list of an execution is
//! its tail.
use crate::graphs::{graphs, G};
use crate::Ctx;
use stateright::verif_facade::{path_final_state, path_from_fingerprints, stable_hasher};
use stateright::{Expectation, Path};
use std::collections::VecDeque;
use std::hash::{Hash, Hasher};
use std::panic::{catch_unwind, AssertUnwindSafe};

fn seed() -> u64 { std::env::var("VERIF_SEED").ok().and_then(|s| s.parse().ok()).unwrap_or(0) }
fn thorough() -> bool { std::env::var("VERIF_TIER").map(|t| t == "thorough").unwrap_or(false) }

const MAX_STATES: usize = 4;

const OB_FF: &[&str] = &[
    "PATH.from_fingerprints.ensures.the-execution",
    "PATH.from_fingerprints.ensures.is-chain",
    "PATH.from_fingerprints.ensures.fingerprints",
    "PATH.from_fingerprints.ensures.labelled",
    "PATH.from_fingerprints.ensures.last-unlabelled",
];
const OB_FS_SOME: &[&str] = &["PATH.final_state.ensures.denoted-is-found"];
const OB_FS_NONE: &[&str] = &["PATH.final_state.ensures.some-is-execution", "PATH.final_state.ensures.empty-is-none"];
const OB_FA_SOME: &[&str] = &["PATH.from_actions.ensures.run-is-found", "PATH.from_actions.ensures.some-is-run", "PATH.from_actions.ensures.some-is-labelled", "PATH.lemma.same_execution"];
const OB_FA_NONE: &[&str] = &["PATH.from_actions.ensures.some-is-run"];
const OB_ACC: &[&str] = &["PATH.last_state.ensures.last", "PATH.into_states.ensures.states", "PATH.into_actions.ensures.actions", "PATH.lemma.actions_round_trip"];

/// `stateright::fingerprint` and `Fingerprint` are crate-private; this is the same computation through the
/// facade's `stable_hasher()` ("a stable hasher as used for fingerprints").  The `c19-encode` class cross-checks
/// it against the fingerprints the real `Path::encode` prints.
type Fingerprint = std::num::NonZeroU64;
fn fingerprint<T: Hash>(value: &T) -> Fingerprint {
    let mut hasher = stable_hasher();
    value.hash(&mut hasher);
    Fingerprint::new(hasher.finish()).expect("hasher returned zero, an invalid fingerprint")
}

fn fps(states: &[u8]) -> VecDeque<Fingerprint> { states.iter().map(fingerprint).collect() }

/// all executions (state sequences from an init state along edges) with 1..=MAX_STATES states
fn executions(g: &G) -> Vec<Vec<u8>> {
    let mut out: Vec<Vec<u8>> = Vec::new();
    let mut inits = g.inits.clone();
    inits.dedup();
    let mut layer: Vec<Vec<u8>> = inits.iter().map(|i| vec![*i]).collect();
    for _ in 0..MAX_STATES {
        out.extend(layer.iter().cloned());
        let mut next = Vec::new();
        for p in &layer {
            for t in g.edges[*p.last().unwrap() as usize].iter().filter(|t| **t < 0x80) { // >= 0x80: ignored action
                let mut q = p.clone();
                q.push(*t);
                next.push(q);
            }
        }
        layer = next;
    }
    out
}

/// `from_fingerprints` on a sequence that denotes no execution must panic (documented), never return a path
fn ff_panics(g: &G, states: &[u8]) -> (bool, String) {
    match catch_unwind(AssertUnwindSafe(|| path_from_fingerprints(g, fps(states)))) {
        Err(_) => (true, "panicked".to_string()),
        Ok(p) => (false, format!("returned {:?}", p.into_states())),
    }
}

pub fn run(ctx: &mut Ctx) {
    for (gi, (n, inits, edges, bound)) in graphs(seed(), thorough()).into_iter().enumerate() {
        let g = G { n, inits: inits.clone(), edges: edges.clone(), bound, props: vec![(Expectation::Sometimes, 0)] };
        let gd = format!("g{}:n={} inits={:?} edges={:?}", gi, n, inits, edges);

        // ---- positive: every short execution is rebuilt identically by the three constructors ----
        for ex in executions(&g) {
            let last = *ex.last().unwrap();
            let actions: Vec<u8> = ex[1..].to_vec();
            let case = format!("c19:exec:{}:{:?}", gd, ex);
            if ctx.want(&case) {
                // from_fingerprints
                let got = catch_unwind(AssertUnwindSafe(|| path_from_fingerprints(&g, fps(&ex))));
                let p = match got {
                    Ok(p) => Some(p),
                    Err(_) => None,
                };
                let ok = match &p {
                    Some(p) => p.clone().into_states() == ex && p.clone().into_actions() == actions && p.clone().into_vec().last().map(|e| e.1.is_none()) == Some(true),
                    None => false,
                };
                ctx.check(&case, "c19-from-fingerprints", OB_FF, ok,
                    match &p { Some(p) => format!("states={:?} actions={:?}", p.clone().into_states(), p.clone().into_actions()), None => "panicked".to_string() },
                    format!("states={:?} actions={:?} last action None", ex, actions));
                // final_state
                let fs = catch_unwind(AssertUnwindSafe(|| path_final_state(&g, fps(&ex))));
                ctx.check(&case, "c19-final-state", OB_FS_SOME, matches!(fs, Ok(Some(s)) if s == last),
                    format!("{:?}", fs.as_ref().map_err(|_| "panicked")), format!("Some({})", last));
                // from_actions: the same path
                let fa = catch_unwind(AssertUnwindSafe(|| Path::from_actions(&g, ex[0], actions.iter())));
                let ok = match (&fa, &p) {
                    (Ok(Some(q)), Some(p)) => q == p && q.clone().into_states() == ex,
                    (Ok(Some(q)), None) => q.clone().into_states() == ex && q.clone().into_actions() == actions,
                    _ => false,
                };
                ctx.check(&case, "c19-from-actions", OB_FA_SOME, ok,
                    match &fa { Ok(Some(q)) => format!("Some(states={:?} actions={:?})", q.clone().into_states(), q.clone().into_actions()), Ok(None) => "None".to_string(), Err(_) => "panicked".to_string() },
                    format!("Some(states={:?} actions={:?}) == from_fingerprints", ex, actions));
                if let Ok(Some(q)) = &fa {
                    // accessors, against the path's own element vector
                    let v = q.clone().into_vec();
                    let vs: Vec<u8> = v.iter().map(|e| e.0).collect();
                    let va: Vec<u8> = v.iter().filter_map(|e| e.1).collect();
                    let ok = Some(q.last_state()) == vs.last() && q.clone().into_states() == vs && q.clone().into_actions() == va;
                    ctx.check(&case, "c19-accessors", OB_ACC, ok,
                        format!("last_state={} into_states={:?} into_actions={:?}", q.last_state(), q.clone().into_states(), q.clone().into_actions()),
                        format!("last_state={:?} into_states={:?} into_actions={:?} (from into_vec)", vs.last(), vs, va));
                    // encode: the fingerprints joined by '/' (string round trip; no Verus obligation claims it)
                    let enc = q.encode();
                    let parsed: Vec<Option<u64>> = enc.split('/').map(|w| w.parse::<u64>().ok()).collect();
                    let want: Vec<Option<u64>> = fps(&vs).iter().map(|f| Some(f.get())).collect();
                    ctx.check(&case, "c19-encode", &[], parsed == want, format!("{:?}", enc), format!("{:?} joined by '/'", want));
                    // ... and the decoded fingerprints rebuild the same path
                    let dec: Option<VecDeque<Fingerprint>> = parsed.iter().map(|w| w.and_then(Fingerprint::new)).collect();
                    let back = dec.map(|d| catch_unwind(AssertUnwindSafe(|| path_from_fingerprints(&g, d))));
                    ctx.check(&case, "c19-encode-rebuild", OB_FF, matches!(&back, Some(Ok(b)) if b == q),
                        format!("{:?}", back.as_ref().map(|r| r.as_ref().map(|b| b.clone().into_states()).map_err(|_| "panicked"))), format!("Some(Ok({:?}))", vs));
                }
            }

            // ---- negative: a non-successor in the middle / a disabled action ----
            for i in 1..ex.len() {
                for y in 0..n + 1 {
                    // y == n is a state the graph does not have at all
                    if (y as usize) < edges.len() && edges[ex[i - 1] as usize].contains(&y) { continue; }
                    let mut bad = ex.clone();
                    bad[i] = y;
                    let case = format!("c19:nonsucc:{}:{:?}@{}={}", gd, ex, i, y);
                    if !ctx.want(&case) { continue; }
                    let fs = catch_unwind(AssertUnwindSafe(|| path_final_state(&g, fps(&bad))));
                    ctx.check(&case, "c19-final-state-none", OB_FS_NONE, matches!(fs, Ok(None)),
                        format!("{:?}", fs.as_ref().map_err(|_| "panicked")), "None (no execution has these fingerprints)".to_string());
                    let (ok, obs) = ff_panics(&g, &bad);
                    ctx.check(&case, "c19-from-fingerprints-panics", OB_FF, ok, obs, "documented panic (no execution has these fingerprints)".to_string());
                    // the action list up to the disabled action (later actions are never looked at)
                    let acts: Vec<u8> = bad[1..=i].to_vec();
                    let fa = catch_unwind(AssertUnwindSafe(|| Path::from_actions(&g, ex[0], acts.iter())));
                    ctx.check(&case, "c19-from-actions-none", OB_FA_NONE, matches!(fa, Ok(None)),
                        match &fa { Ok(Some(q)) => format!("Some({:?})", q.clone().into_states()), Ok(None) => "None".to_string(), Err(_) => "panicked".to_string() },
                        format!("None (action {} is not enabled in state {})", y, ex[i - 1]));
                }
            }
        }

        // ---- negative: empty sequence, wrong first state ----
        let case = format!("c19:empty:{}", gd);
        if ctx.want(&case) {
            let fs = catch_unwind(AssertUnwindSafe(|| path_final_state(&g, VecDeque::new())));
            ctx.check(&case, "c19-final-state-none", OB_FS_NONE, matches!(fs, Ok(None)), format!("{:?}", fs.as_ref().map_err(|_| "panicked")), "None (empty sequence)".to_string());
            let (ok, obs) = ff_panics(&g, &[]);
            ctx.check(&case, "c19-from-fingerprints-panics", OB_FF, ok, obs, "documented panic (empty path is invalid)".to_string());
        }
        for x in 0..n + 1 {
            if inits.contains(&x) { continue; }
            let case = format!("c19:noninit:{}:{}", gd, x);
            if !ctx.want(&case) { continue; }
            // alone, and followed by one of its successors
            let mut seqs = vec![vec![x]];
            if (x as usize) < edges.len() {
                if let Some(t) = edges[x as usize].first() { seqs.push(vec![x, *t]); }
            }
            for s in seqs {
                let fs = catch_unwind(AssertUnwindSafe(|| path_final_state(&g, fps(&s))));
                ctx.check(&case, "c19-final-state-none", OB_FS_NONE, matches!(fs, Ok(None)),
                    format!("{:?} for {:?}", fs.as_ref().map_err(|_| "panicked"), s), "None (first state is not an init state)".to_string());
                let (ok, obs) = ff_panics(&g, &s);
                ctx.check(&case, "c19-from-fingerprints-panics", OB_FF, ok, format!("{} for {:?}", obs, s), "documented panic (no init state has the fingerprint)".to_string());
                let fa = catch_unwind(AssertUnwindSafe(|| Path::from_actions(&g, x, s[1..].iter())));
                ctx.check(&case, "c19-from-actions-none", OB_FA_NONE, matches!(fa, Ok(None)),
                    match &fa { Ok(Some(q)) => format!("Some({:?})", q.clone().into_states()), Ok(None) => "None".to_string(), Err(_) => "panicked".to_string() },
                    format!("None ({} is not an init state)", x));
            }
        }
    }
}
