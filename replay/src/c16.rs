//! C16: the ordered reliable link hands the sender's messages over exactly once and in order.
//! Native twin of the ORL unit's link lemmas: the REAL `ActorWrapper::{on_start,on_msg,on_timeout}` of a
//! sender and a receiver are driven through every delivery schedule of a small alphabet over a
//! network that may drop, duplicate and reorder, and after every step
//!   (prefix) the sequence handed to the wrapped receiver is a prefix of the sequence sent to it,
//!   (acked)  every sequencer the receiver has acknowledged belongs to a message that was handed over,
//!   (resend) a retransmission carries a (sequencer, message) pair that was sent before,
//!   (final)  once the sender has nothing pending, handed == sent.
//! `StateWrapper`'s fields are private: the link is observed through the commands it emits
//! (Deliver / Ack), through the hand-over log of the wrapped receiver, and through `{:?}` of the state.
//! A schedule is reported only if its last step is the first one to break a check (minimal schedules).
use crate::Ctx;
use stateright::actor::ordered_reliable_link::{ActorWrapper, MsgWrapper, TimerWrapper};
use stateright::actor::*;
use std::borrow::Cow;
use std::cell::RefCell;
use std::rc::Rc;

type Log = Rc<RefCell<Vec<(Id, u64)>>>;

/// The wrapped actor: a sender emits `k` messages 10, 20, .. to `to` on start; a receiver appends
/// every (src, msg) it is handed to its state (and to a side log, so that the hand-over is visible
/// without access to the wrapper's private state).
#[derive(Clone)]
enum T {
    Sender { to: Id, k: u64 },
    Receiver { log: Log },
    /// answers a user timer with a state change and a message (for the on_timeout(User) case)
    Ticker { to: Id },
    /// sends one message to each of two peers on start (sequencers 1 and 2 share one counter)
    Fanout { b: Id, c: Id },
    /// replies to every message without changing its state (a stateless responder)
    Echo,
    /// sends one message to `b` on start and records (state change) whatever it is handed: an actor that both
    /// sends and receives
    Relay { b: Id },
    /// sends the SAME payload twice to `to` on start (two distinct messages of the sender's sequence)
    Twice { to: Id },
}

impl Actor for T {
    type Msg = u64;
    type State = Vec<(Id, u64)>;
    type Timer = u8;
    type Random = ();

    fn on_start(&self, _id: Id, o: &mut Out<Self>) -> Self::State {
        if let T::Sender { to, k } = self {
            for i in 1..=*k {
                o.send(*to, 10 * i);
            }
        }
        if let T::Fanout { b, c } = self {
            o.send(*b, 10);
            o.send(*c, 20);
        }
        if let T::Relay { b } = self {
            o.send(*b, 10);
        }
        if let T::Twice { to } = self {
            o.send(*to, 10);
            o.send(*to, 10);
        }
        Vec::new()
    }

    fn on_msg(&self, _id: Id, state: &mut Cow<Self::State>, src: Id, msg: u64, _o: &mut Out<Self>) {
        if let T::Receiver { log } = self {
            log.borrow_mut().push((src, msg));
            state.to_mut().push((src, msg));
        }
        if let T::Echo = self {
            _o.send(src, msg + 1);
        }
        if let T::Relay { .. } = self {
            state.to_mut().push((src, msg));
        }
    }

    fn on_timeout(&self, id: Id, state: &mut Cow<Self::State>, timer: &u8, o: &mut Out<Self>) {
        if let T::Ticker { to } = self {
            state.to_mut().push((id, 900 + *timer as u64));
            o.send(*to, 77);
        }
    }
}

type W = ActorWrapper<T>;
type WCmd = Command<MsgWrapper<u64>, TimerWrapper<u8>, ()>;

const S: usize = 0;
const R: usize = 1;

#[derive(Clone, Copy, PartialEq, Eq)]
enum Ev {
    /// deliver the i-th distinct Deliver the sender has emitted so far (any number of times, any order)
    D(usize),
    /// the sender's resend timer fires
    T,
    /// every acknowledgement emitted so far reaches the sender
    A,
}

fn ev_name(e: Ev) -> String {
    match e {
        Ev::D(i) => format!("d{}", i),
        Ev::T => "t".into(),
        Ev::A => "a".into(),
    }
}

fn delivers_to(out: &Out<W>, dst: Id) -> Vec<(u64, u64)> {
    let cmds: &[WCmd] = out;
    cmds.iter().filter_map(|c| match c { Command::Send(d, MsgWrapper::Deliver(q, m)) if *d == dst => Some((*q, *m)), _ => None }).collect()
}

struct Broken {
    class: &'static str,
    obligations: &'static [&'static str],
    observed: String,
    required: String,
}

/// Runs one schedule on fresh actors. Returns (index of the first step that breaks a check, what broke).
fn replay(k: u64, sched: &[Ev], stepwise: bool) -> Option<(usize, Broken)> {
    let log: Log = Rc::new(RefCell::new(Vec::new()));
    let sender = ActorWrapper::with_default_timeout(T::Sender { to: Id::from(R), k });
    let receiver = ActorWrapper::with_default_timeout(T::Receiver { log: log.clone() });
    let mut so: Out<W> = Out::new();
    let mut s_state = sender.on_start(Id::from(S), &mut so);
    let mut ro: Out<W> = Out::new();
    let mut r_state = receiver.on_start(Id::from(R), &mut ro);
    // what the sender sent to the receiver, in sending order
    let sent: Vec<(u64, u64)> = delivers_to(&so, Id::from(R));
    let sent_msgs: Vec<u64> = sent.iter().map(|p| p.1).collect();
    if sent.len() as u64 != k || !sent.windows(2).all(|w| w[0].0 < w[1].0) || sent_msgs != (1..=k).map(|i| 10 * i).collect::<Vec<_>>() {
        return Some((0, Broken { class: "orl-start-output", obligations: &["ORL.on_start.ensures.out", "ORL.process_output.ensures.out"],
            observed: format!("{:?}", so), required: "k Sends of Deliver with strictly increasing sequencers carrying 10,20,.. in order".into() }));
    }
    let mut pool: Vec<(u64, u64)> = sent.clone(); // everything that can be in flight towards the receiver
    let mut acks: Vec<u64> = Vec::new(); // sequencers acknowledged by the receiver (in flight towards the sender)
    for (step, ev) in sched.iter().enumerate() {
        match *ev {
            Ev::D(i) => {
                if i >= pool.len() {
                    continue;
                }
                let (q, m) = pool[i];
                let mut st = Cow::Borrowed(&r_state);
                let mut o: Out<W> = Out::new();
                receiver.on_msg(Id::from(R), &mut st, Id::from(S), MsgWrapper::Deliver(q, m), &mut o);
                let cmds: &[WCmd] = &o;
                let first_is_ack = matches!(cmds.first(), Some(Command::Send(d, MsgWrapper::Ack(a))) if *d == Id::from(S) && *a == q);
                if !first_is_ack {
                    return Some((step, Broken { class: "orl-deliver-not-acked-first", obligations: &["ORL.on_msg.ensures.deliver-out"],
                        observed: format!("{:?}", o), required: format!("first command Send(Id(0), Ack({}))", q) }));
                }
                acks.push(q);
                if let Cow::Owned(n) = st {
                    r_state = n;
                }
            }
            Ev::T => {
                let mut st = Cow::Borrowed(&s_state);
                let mut o: Out<W> = Out::new();
                sender.on_timeout(Id::from(S), &mut st, &TimerWrapper::Network, &mut o);
                let cmds: &[WCmd] = &o;
                let rearmed = matches!(cmds.first(), Some(Command::SetTimer(TimerWrapper::Network, _)));
                let unchanged = matches!(st, Cow::Borrowed(_));
                let re = delivers_to(&o, Id::from(R));
                let all_old = re.iter().all(|p| sent.contains(p));
                let mut qs: Vec<u64> = re.iter().map(|p| p.0).collect();
                qs.sort();
                qs.dedup();
                if !rearmed || !unchanged || !all_old || qs.len() != re.len() || re.len() + 1 != cmds.len() {
                    return Some((step, Broken { class: "orl-resend", obligations: &["ORL.on_timeout.ensures.net-resend-each", "ORL.on_timeout.ensures.net-resend-distinct", "ORL.on_timeout.ensures.net-rearm", "ORL.on_timeout.ensures.net-state"],
                        observed: format!("state borrowed={} out={:?}", unchanged, o), required: format!("SetTimer(Network) then one Deliver per pending entry, each one of {:?}; state untouched", sent) }));
                }
                for p in re {
                    if !pool.contains(&p) {
                        pool.push(p);
                    }
                }
                if let Cow::Owned(n) = st {
                    s_state = n;
                }
            }
            Ev::A => {
                for q in acks.clone() {
                    let mut st = Cow::Borrowed(&s_state);
                    let mut o: Out<W> = Out::new();
                    sender.on_msg(Id::from(S), &mut st, Id::from(R), MsgWrapper::Ack(q), &mut o);
                    if o.len() != 0 {
                        return Some((step, Broken { class: "orl-ack-emits", obligations: &["ORL.on_msg.ensures.ack-out"], observed: format!("{:?}", o), required: "no command".into() }));
                    }
                    if let Cow::Owned(n) = st {
                        s_state = n;
                    }
                }
            }
        }
        // ---- the property, after every step (or only at the end of the schedule)
        if !stepwise && step + 1 != sched.len() {
            continue;
        }
        let handed: Vec<u64> = log.borrow().iter().map(|p| p.1).collect();
        let visible = format!("{:?}", r_state);
        if !visible.contains(&format!("wrapped_state: {:?}", &*log.borrow())) {
            return Some((step, Broken { class: "orl-wrapped-state-not-kept", obligations: &["ORL.on_msg.ensures.deliver-state"],
                observed: visible, required: format!("wrapped_state: {:?}", &*log.borrow()) }));
        }
        let mut uniq = handed.clone();
        uniq.sort();
        uniq.dedup();
        if uniq.len() != handed.len() {
            return Some((step, Broken { class: "orl-message-handed-over-twice", obligations: &["ORL.on_msg.ensures.deliver-state", "ORL.on_msg.ensures.deliver-cow"],
                observed: format!("handed={:?} receiver={}", handed, visible), required: format!("every message of sent={:?} is handed over at most once", sent_msgs) }));
        }
        if stepwise && !(handed.len() <= sent_msgs.len() && handed[..] == sent_msgs[..handed.len()]) {
            return Some((step, Broken { class: "orl-gap-delivery-loses-earlier-message", obligations: &["ORL.lemma.link_inv_preserved_on_gap"],
                observed: format!("handed={:?} receiver={}", handed, visible), required: format!("handed is a prefix of sent={:?}", sent_msgs) }));
        }
        for q in &acks {
            let was_handed = sent.iter().position(|p| p.0 == *q).map(|i| i < handed.len()).unwrap_or(false);
            if !was_handed {
                return Some((step, Broken { class: "orl-acked-before-handed-over", obligations: &["ORL.lemma.acked_was_handed_after_gap"],
                    observed: format!("acked={:?} handed={:?}", acks, handed), required: format!("every acknowledged sequencer of sent={:?} was handed over", sent) }));
            }
        }
        // once nothing is pending at the sender (its timer retransmits nothing), handed == sent
        let mut st = Cow::Borrowed(&s_state);
        let mut o: Out<W> = Out::new();
        sender.on_timeout(Id::from(S), &mut st, &TimerWrapper::Network, &mut o);
        if delivers_to(&o, Id::from(R)).is_empty() && handed != sent_msgs {
            return Some((step, Broken { class: "orl-all-acked-but-not-all-handed-over", obligations: &["ORL.lemma.link_inv_preserved_on_gap"],
                observed: format!("nothing pending at the sender, handed={:?}", handed), required: format!("handed == sent == {:?}", sent_msgs) }));
        }
    }
    None
}

/// All schedules over `alphabet` of length `len` none of whose proper prefixes is broken, shortest
/// first (so the first failing cases printed are the minimal ones).
fn explore(ctx: &mut Ctx, k: u64, alphabet: &[Ev], max_len: usize) {
    let mut frontier: Vec<Vec<Ev>> = vec![Vec::new()];
    for len in 0..=max_len {
        let mut next: Vec<Vec<Ev>> = Vec::new();
        for sched in &frontier {
            let case = format!("k={}:{}", k, sched.iter().map(|e| ev_name(*e)).collect::<Vec<_>>().join(","));
            let res = replay(k, sched, true);
            if ctx.want(&case) {
                match &res {
                    None => ctx.check(&case, "orl-link", &["ORL.lemma.link_inv_preserved_in_order"], true, String::new(), String::new()),
                    Some((_, b)) => ctx.check(&case, b.class, b.obligations, false, b.observed.clone(), b.required.clone()),
                }
            }
            if res.is_none() && len < max_len {
                // extensions of a broken schedule are not new cases
                for e in alphabet {
                    let mut n = sched.clone();
                    n.push(*e);
                    next.push(n);
                }
            }
        }
        frontier = next;
    }
}

/// Per-handler scenarios that the two-party schedules above cannot reach.
fn extra(ctx: &mut Ctx) {
    // (1) an Ack from one peer must not discard what is still pending for ANOTHER peer
    let case = "fanout:ack-from-c-keeps-b-pending";
    if ctx.want(case) {
        let (b, c) = (Id::from(1usize), Id::from(2usize));
        let w = ActorWrapper::with_default_timeout(T::Fanout { b, c });
        let mut o: Out<W> = Out::new();
        let s0 = w.on_start(Id::from(S), &mut o);
        let first = (delivers_to(&o, b), delivers_to(&o, c));
        let mut st = Cow::Borrowed(&s0);
        let mut o2: Out<W> = Out::new();
        w.on_msg(Id::from(S), &mut st, c, MsgWrapper::Ack(2), &mut o2);
        let s1 = st.into_owned();
        let mut st = Cow::Borrowed(&s1);
        let mut o3: Out<W> = Out::new();
        w.on_timeout(Id::from(S), &mut st, &TimerWrapper::Network, &mut o3);
        let resent_b = delivers_to(&o3, b);
        let resent_c = delivers_to(&o3, c);
        let ok = first == (vec![(1, 10)], vec![(2, 20)]) && resent_b == vec![(1, 10)] && resent_c.is_empty();
        ctx.check(case, "orl-ack-discards-other-peers-pending", &["ORL.on_msg.ensures.ack-state"], ok,
            format!("first={:?} after Ack(2) from c the timeout resends to b: {:?}, to c: {:?}", first, resent_b, resent_c),
            "Deliver(1,10) is still retransmitted to b; nothing for c".into());
    }
    // (2) a duplicate Deliver must not be handed over twice even when the wrapped actor only replies
    //     (its state stays borrowed)
    let case = "echo:duplicate-deliver-handed-once";
    if ctx.want(case) {
        let w = ActorWrapper::with_default_timeout(T::Echo);
        let mut o: Out<W> = Out::new();
        let s0 = w.on_start(Id::from(R), &mut o);
        let mut st = Cow::Borrowed(&s0);
        let mut o1: Out<W> = Out::new();
        w.on_msg(Id::from(R), &mut st, Id::from(S), MsgWrapper::Deliver(1, 5), &mut o1);
        let s1 = st.into_owned();
        let mut st = Cow::Borrowed(&s1);
        let mut o2: Out<W> = Out::new();
        w.on_msg(Id::from(R), &mut st, Id::from(S), MsgWrapper::Deliver(1, 5), &mut o2);
        let replies1 = delivers_to(&o1, Id::from(S));
        let replies2 = delivers_to(&o2, Id::from(S));
        let ok = replies1 == vec![(1, 6)] && replies2.is_empty();
        ctx.check(case, "orl-message-handed-over-twice", &["ORL.on_msg.ensures.deliver-state"], ok,
            format!("first delivery replies {:?}, duplicate replies {:?}", replies1, replies2), "one reply Deliver(1,6), then none (duplicate is only acknowledged)".into());
    }
    // (3) an actor that both sends and receives: a state-changing hand-over must not forget what it still
    //     has pending for its own peer
    let case = "relay:hand-over-keeps-own-pending";
    if ctx.want(case) {
        let b = Id::from(1usize);
        let w = ActorWrapper::with_default_timeout(T::Relay { b });
        let mut o: Out<W> = Out::new();
        let s0 = w.on_start(Id::from(S), &mut o);
        let first = delivers_to(&o, b);
        let mut st = Cow::Borrowed(&s0);
        let mut o1: Out<W> = Out::new();
        w.on_msg(Id::from(S), &mut st, Id::from(2usize), MsgWrapper::Deliver(1, 5), &mut o1);
        let s1 = st.into_owned();
        let mut st = Cow::Borrowed(&s1);
        let mut o2: Out<W> = Out::new();
        w.on_timeout(Id::from(S), &mut st, &TimerWrapper::Network, &mut o2);
        let resent = delivers_to(&o2, b);
        let ok = first == vec![(1, 10)] && resent == vec![(1, 10)] && format!("{:?}", s1).contains("wrapped_state: [(Id(2), 5)]");
        ctx.check(case, "orl-hand-over-forgets-pending", &["ORL.on_msg.ensures.deliver-state"], ok,
            format!("sent {:?}; after being handed Deliver(1,5) from Id(2) the state is {:?} and the timeout resends {:?}", first, s1, resent),
            "Deliver(1,10) is still retransmitted to b until acknowledged".into());
    }
    // (4) two messages with the same payload are two messages: both are sent (distinct sequencers) and both handed over
    let case = "twice:same-payload-sent-and-handed-twice";
    if ctx.want(case) {
        let log: Log = Rc::new(RefCell::new(Vec::new()));
        let w = ActorWrapper::with_default_timeout(T::Twice { to: Id::from(R) });
        let r = ActorWrapper::with_default_timeout(T::Receiver { log: log.clone() });
        let mut o: Out<W> = Out::new();
        let _s0 = w.on_start(Id::from(S), &mut o);
        let sent = delivers_to(&o, Id::from(R));
        let mut ro: Out<W> = Out::new();
        let mut rs = r.on_start(Id::from(R), &mut ro);
        for (q, m) in sent.clone() {
            let mut st = Cow::Borrowed(&rs);
            let mut o1: Out<W> = Out::new();
            r.on_msg(Id::from(R), &mut st, Id::from(S), MsgWrapper::Deliver(q, m), &mut o1);
            if let Cow::Owned(n) = st { rs = n; }
        }
        let handed: Vec<u64> = log.borrow().iter().map(|p| p.1).collect();
        let ok = sent == vec![(1, 10), (2, 10)] && handed == vec![10, 10];
        ctx.check(case, "orl-equal-payload-collapsed", &["ORL.process_output.ensures.out", "ORL.process_output.ensures.state"], ok,
            format!("sent {:?}, handed {:?}", sent, handed), "sent [(1,10),(2,10)], handed [10,10]".into());
    }
}

pub fn run(ctx: &mut Ctx) {
    extra(ctx);
    // (the on_timeout(User) write-back case was removed: it is outside the wording of C16; see DESIGN.md, observation F-C16-2)
    // the whole story of F-C16-1: everything arrives in reverse order, then the acknowledgements arrive;
    // judged at the end only ("acked => handed over", "nothing pending => handed == sent")
    for k in 2..=3u64 {
        let mut sched: Vec<Ev> = (0..k as usize).rev().map(Ev::D).collect();
        sched.push(Ev::A);
        let case = format!("final:k={}:{}", k, sched.iter().map(|e| ev_name(*e)).collect::<Vec<_>>().join(","));
        if ctx.want(&case) {
            match replay(k, &sched, false) {
                None => ctx.check(&case, "orl-link", &["ORL.lemma.acked_was_handed"], true, String::new(), String::new()),
                Some((_, b)) => ctx.check(&case, b.class, b.obligations, false, b.observed, b.required),
            }
        }
    }
    for k in 1..=3u64 {
        let mut alphabet: Vec<Ev> = (0..k as usize).map(Ev::D).collect();
        alphabet.push(Ev::T);
        alphabet.push(Ev::A);
        explore(ctx, k, &alphabet, 5);
    }
}
