//! C07: message transport obeys the selected network semantics.
//!
//! Drives the REAL `Network` (send / on_deliver / on_drop through `verif_facade`, `new_*`, `len`,
//! `iter_all`, `iter_deliverable`) on every operation sequence of length <= 4 over 2 ids, 2 directed
//! flows and 2 message values, for all three network kinds, against a Vec-based reference model that is
//! the executable form of the view functions of unit NET (`send_view`, `deliver_view`, `drop_view`, `size`).
//! Sequences are enumerated by increasing length, so the first failing case of a class is a smallest one.
//! `iter_all` may never terminate (F-C07-1): it is only ever consumed through `.take(N)`.
use crate::Ctx;
use stateright::actor::{Envelope, Id, Network};
use stateright::verif_facade::{network_on_deliver, network_on_drop, network_send};
use std::collections::{BTreeMap, BTreeSet};
use std::panic::{catch_unwind, AssertUnwindSafe};

type Env = Envelope<char>;
type Key = (usize, usize, char); // (src, dst, msg): orderable stand-in for an envelope

const MAX_OPS: usize = 4;
#[derive(Clone, Copy, PartialEq, Eq, Debug)]
enum Kind {
    Dup,
    NonDup,
    Ordered,
}

#[derive(Clone, Copy, PartialEq, Eq, Debug)]
enum Op {
    Send(Key),
    Deliver(Key),
    Drop(Key),
}

fn env(k: Key) -> Env {
    Envelope { src: Id::from(k.0), dst: Id::from(k.1), msg: k.2 }
}
fn key_of(src: Id, dst: Id, msg: char) -> Key {
    (usize::from(src), usize::from(dst), msg)
}
fn show(ops: &[Op]) -> String {
    ops.iter()
        .map(|o| match o {
            Op::Send(k) => format!("S{}{}{}", k.0, k.1, k.2),
            Op::Deliver(k) => format!("D{}{}{}", k.0, k.1, k.2),
            Op::Drop(k) => format!("X{}{}{}", k.0, k.1, k.2),
        })
        .collect::<Vec<_>>()
        .join(".")
}

/// Reference model = the abstract view of unit NET.
#[derive(Clone, Debug, PartialEq, Eq)]
enum Model {
    Dup(BTreeSet<Key>, Option<Key>),
    NonDup(Vec<Key>),                              // multiset as a sorted Vec
    Ordered(BTreeMap<(usize, usize), Vec<char>>), // every flow non-empty
}

impl Model {
    fn new(kind: Kind) -> Self {
        match kind {
            Kind::Dup => Model::Dup(BTreeSet::new(), None),
            Kind::NonDup => Model::NonDup(Vec::new()),
            Kind::Ordered => Model::Ordered(BTreeMap::new()),
        }
    }
    /// `in_flight` of unit NET (the precondition of on_deliver / on_drop).
    fn in_flight(&self, k: Key) -> bool {
        match self {
            Model::Dup(_, _) => true,
            Model::NonDup(v) => v.contains(&k),
            Model::Ordered(f) => f.get(&(k.0, k.1)).map_or(false, |q| q.contains(&k.2)),
        }
    }
    fn take_one(&mut self, k: Key) {
        match self {
            Model::Dup(_, _) => {}
            Model::NonDup(v) => {
                let i = v.iter().position(|x| *x == k).unwrap();
                v.remove(i);
            }
            Model::Ordered(f) => {
                let q = f.get_mut(&(k.0, k.1)).unwrap();
                let i = q.iter().position(|x| *x == k.2).unwrap();
                q.remove(i);
                if q.is_empty() {
                    f.remove(&(k.0, k.1));
                }
            }
        }
    }
    fn apply(&mut self, op: Op) {
        match op {
            Op::Send(k) => match self {
                Model::Dup(s, _) => {
                    s.insert(k);
                }
                Model::NonDup(v) => {
                    v.push(k);
                    v.sort();
                }
                Model::Ordered(f) => f.entry((k.0, k.1)).or_default().push(k.2),
            },
            Op::Deliver(k) => match self {
                Model::Dup(_, last) => *last = Some(k),
                _ => self.take_one(k),
            },
            Op::Drop(k) => match self {
                Model::Dup(s, _) => {
                    s.remove(&k);
                }
                _ => self.take_one(k),
            },
        }
    }
    /// All messages with multiplicity, sorted (what iter_all must yield, as a multiset).
    fn all(&self) -> Vec<Key> {
        let mut v: Vec<Key> = match self {
            Model::Dup(s, _) => s.iter().copied().collect(),
            Model::NonDup(v) => v.clone(),
            Model::Ordered(f) => f.iter().flat_map(|(k, q)| q.iter().map(move |m| (k.0, k.1, *m))).collect(),
        };
        v.sort();
        v
    }
    /// Distinct deliverable envelopes, sorted: set elements / multiset support / heads of flows.
    fn deliverable(&self) -> Vec<Key> {
        let mut v: Vec<Key> = match self {
            Model::Dup(s, _) => s.iter().copied().collect(),
            Model::NonDup(v) => v.iter().copied().collect::<BTreeSet<_>>().into_iter().collect(),
            Model::Ordered(f) => f.iter().map(|(k, q)| (k.0, k.1, q[0])).collect(),
        };
        v.sort();
        v
    }
}

/// The abstract view of the REAL network, read through its public representation.
fn view_of(n: &Network<char>) -> Model {
    match n {
        Network::UnorderedDuplicating(set, last) => Model::Dup(
            set.iter().map(|e| key_of(e.src, e.dst, e.msg)).collect(),
            last.as_ref().map(|e| key_of(e.src, e.dst, e.msg)),
        ),
        Network::UnorderedNonDuplicating(ms) => {
            let mut v = Vec::new();
            for (e, c) in ms.iter() {
                if *c == 0 {
                    // a zero count is not well-formed: make it visible as a view mismatch
                    return Model::NonDup(vec![(usize::MAX, usize::MAX, e.msg)]);
                }
                for _ in 0..*c {
                    v.push(key_of(e.src, e.dst, e.msg));
                }
            }
            v.sort();
            Model::NonDup(v)
        }
        Network::Ordered(map) => Model::Ordered(
            map.iter().map(|((s, d), q)| ((usize::from(*s), usize::from(*d)), q.iter().copied().collect())).collect(),
        ),
    }
}

fn new_real(kind: Kind) -> Network<char> {
    match kind {
        Kind::Dup => Network::new_unordered_duplicating([]),
        Kind::NonDup => Network::new_unordered_nonduplicating([]),
        Kind::Ordered => Network::new_ordered([]),
    }
}

fn apply_real(n: &mut Network<char>, op: Op) {
    match op {
        Op::Send(k) => network_send(n, env(k)),
        Op::Deliver(k) => network_on_deliver(n, env(k)),
        Op::Drop(k) => network_on_drop(n, env(k)),
    }
}

fn kind_name(kind: Kind) -> &'static str {
    match kind {
        Kind::Dup => "dup",
        Kind::NonDup => "nondup",
        Kind::Ordered => "ordered",
    }
}

/// Checks of one reachable (network, model) pair, reached by `ops`.
fn check_state(ctx: &mut Ctx, kind: Kind, ops: &[Op], real: &Network<char>, model: &Model) {
    let kn = kind_name(kind);
    let id = format!("{}:{}", kn, show(ops));
    // (1) the view after the last operation is the one the step functions prescribe (whole view)
    let case = format!("{}|view", id);
    if ctx.want(&case) {
        let last_obl: &[&str] = match ops.last() {
            Some(Op::Send(_)) => &["NET.send.ensures.view", "NET.send.ensures.wf", "NET.send.body"],
            Some(Op::Deliver(_)) => &["NET.on_deliver.ensures.view", "NET.on_deliver.ensures.wf", "NET.on_deliver.body"],
            Some(Op::Drop(_)) => &["NET.on_drop.ensures.view", "NET.on_drop.ensures.wf", "NET.on_drop.body"],
            None => &["NET.send.ensures.view"],
        };
        let class = match ops.last() {
            Some(Op::Send(_)) => format!("view-after-send-{}", kn),
            Some(Op::Deliver(_)) => format!("view-after-deliver-{}", kn),
            Some(Op::Drop(_)) => format!("view-after-drop-{}", kn),
            None => format!("view-initial-{}", kn),
        };
        let got = view_of(real);
        ctx.check(&case, &class, last_obl, &got == model, format!("{:?}", got), format!("{:?}", model));
    }
    // (2) len == size of the view
    let want_all = model.all();
    let case = format!("{}|len", id);
    if ctx.want(&case) {
        let got = real.len();
        ctx.check(&case, &format!("len-{}", kn), &["NET.len.ensures.len", "NET.len.body"], got == want_all.len(), format!("len={}", got), format!("len={}", want_all.len()));
    }
    // (3) iter_all yields the view with multiplicities, and stops (bounded consumption!)
    let case = format!("{}|iter_all", id);
    if ctx.want(&case) {
        let bound = want_all.len() + 3;
        let mut got: Vec<Key> = real.iter_all().take(bound).map(|e| key_of(e.src, e.dst, *e.msg)).collect();
        let n = got.len();
        got.sort();
        let (class, obl): (&str, &[&str]) = match kind {
            Kind::Ordered => ("iter-all-ordered-repeats", &["NET.iter_next.ensures.yield-ordered", "NET.iter_next_rest_ordered.ensures.rest-ordered", "NET.iter_all.ensures.agrees-with-len", "NET.iter_all.ensures.multiset"]),
            Kind::NonDup => ("iter-all-nondup-extra-copy", &["NET.iter_next_rest.ensures.rest-nondup", "NET.iter_next.ensures.yield-nondup", "NET.iter_all.ensures.agrees-with-len", "NET.iter_all.ensures.multiset"]),
            Kind::Dup => ("iter-all-dup-mismatch", &["NET.iter_next.ensures.yield-dup", "NET.iter_next_rest.ensures.rest-dup", "NET.iter_all.ensures.agrees-with-len", "NET.iter_all.ensures.multiset"]),
        };
        ctx.check(
            &case,
            class,
            obl,
            got == want_all,
            format!("iter_all().take({}) yielded {} item(s): {:?}; len()={}", bound, n, got, real.len()),
            format!("{} item(s): {:?}", want_all.len(), want_all),
        );
    }
    // (4) iter_deliverable yields each distinct deliverable envelope once
    let case = format!("{}|iter_deliverable", id);
    if ctx.want(&case) {
        let want = model.deliverable();
        let bound = want.len() + 3;
        let mut got: Vec<Key> = real.iter_deliverable().take(bound).map(|e| key_of(e.src, e.dst, *e.msg)).collect();
        got.sort();
        ctx.check(
            &case,
            &format!("iter-deliverable-{}", kn),
            &["NET.deliverable_next.ensures.yield", "NET.deliverable_next.ensures.rest", "NET.iter_deliverable.ensures.enumerates", "NET.iter_deliverable.ensures.one-per-key", "NET.iter_deliverable.ensures.deliverable"],
            got == want,
            format!("{:?}", got),
            format!("{:?}", want),
        );
    }
    // (5) constructors agree with repeated send (initially present messages)
    let case = format!("{}|new", id);
    if ctx.want(&case) && ops.iter().all(|o| matches!(o, Op::Send(_))) {
        let envs: Vec<Env> = ops.iter().map(|o| if let Op::Send(k) = o { env(*k) } else { unreachable!() }).collect();
        let built = match kind {
            Kind::Dup => Network::new_unordered_duplicating(envs),
            Kind::NonDup => Network::new_unordered_nonduplicating(envs),
            Kind::Ordered => Network::new_ordered(envs),
        };
        let got = view_of(&built);
        let obl: &[&str] = match kind {
            Kind::Dup => &["NET.new_unordered_duplicating.ensures.view", "NET.new_unordered_duplicating.ensures.wf", "NET.new_unordered_duplicating.loop1.invariant.fold"],
            Kind::NonDup => &["NET.new_unordered_nonduplicating.ensures.view", "NET.new_unordered_nonduplicating.ensures.wf", "NET.new_unordered_nonduplicating.loop1.invariant.fold"],
            Kind::Ordered => &["NET.new_ordered.ensures.view", "NET.new_ordered.ensures.wf", "NET.new_ordered.loop1.invariant.fold"],
        };
        // the view of the result is the left fold of send over the envelopes (= the model after the same sends)
        ctx.check(&case, &format!("new-{}", kn), obl, &got == model && &built == real, format!("{:?}", got), format!("{:?}", model));
        // the duplicating constructor with an explicit last message: same set, last_msg as given
        if kind == Kind::Dup {
            for last in [None, Some((0usize, 1usize, 'a')), Some((1usize, 0usize, 'b'))] {
                let case = format!("{}|new_with_last={:?}", id, last);
                if !ctx.want(&case) {
                    continue;
                }
                let envs: Vec<Env> = ops.iter().map(|o| if let Op::Send(k) = o { env(*k) } else { unreachable!() }).collect();
                let built = Network::new_unordered_duplicating_with_last_msg(envs, last.map(env));
                let want = match model {
                    Model::Dup(set, _) => Model::Dup(set.clone(), last),
                    _ => unreachable!(),
                };
                let got = view_of(&built);
                ctx.check(
                    &case,
                    "new-dup-with-last",
                    &["NET.new_unordered_duplicating_with_last_msg.ensures.view", "NET.new_unordered_duplicating_with_last_msg.loop1.invariant.fold"],
                    got == want,
                    format!("{:?}", got),
                    format!("{:?}", want),
                );
            }
        }
    }
}

fn explore(ctx: &mut Ctx, kind: Kind, universe: &[Key], depth: usize, ops: &mut Vec<Op>) {
    if ops.len() == depth {
        // replay the whole sequence on a fresh real network and a fresh model
        let mut real = new_real(kind);
        let mut model = Model::new(kind);
        for (i, op) in ops.iter().enumerate() {
            let consumes = matches!(op, Op::Deliver(_) | Op::Drop(_));
            let k = match op {
                Op::Send(k) | Op::Deliver(k) | Op::Drop(k) => *k,
            };
            if consumes && !model.in_flight(k) {
                // "delivered only if it was sent and not yet consumed": consuming a message that is not
                // in flight must be refused (panic) by the nondup / ordered networks. Only checked as the
                // last operation of a sequence.
                if i + 1 == ops.len() {
                    let case = format!("{}:{}|absent", kind_name(kind), show(ops));
                    if ctx.want(&case) {
                        let mut probe = real.clone();
                        let r = catch_unwind(AssertUnwindSafe(|| apply_real(&mut probe, *op)));
                        ctx.check(
                            &case,
                            &format!("consume-absent-{}", kind_name(kind)),
                            &["NET.on_deliver.requires.in-flight", "NET.on_drop.requires.in-flight"],
                            r.is_err(),
                            "accepted (no panic)".to_string(),
                            "panic: the envelope is not in flight".to_string(),
                        );
                    }
                }
                return;
            }
            let r = catch_unwind(AssertUnwindSafe(|| apply_real(&mut real, *op)));
            if r.is_err() {
                let case = format!("{}:{}|panic", kind_name(kind), show(&ops[..=i]));
                if i + 1 == ops.len() && ctx.want(&case) {
                    ctx.check(&case, &format!("unexpected-panic-{}", kind_name(kind)), &["NET.send.body", "NET.on_deliver.body", "NET.on_drop.body"], false, "panic".to_string(), "no panic: precondition holds".to_string());
                }
                return;
            }
            model.apply(*op);
        }
        check_state(ctx, kind, ops, &real, &model);
        return;
    }
    for k in universe {
        for op in [Op::Send(*k), Op::Deliver(*k), Op::Drop(*k)] {
            ops.push(op);
            explore(ctx, kind, universe, depth, ops);
            ops.pop();
        }
    }
}

pub fn run(ctx: &mut Ctx) {
    // 2 ids, both directed flows between them, 2 message values
    let universe: Vec<Key> = vec![(0, 1, 'a'), (0, 1, 'b'), (1, 0, 'a'), (1, 0, 'b')];
    for kind in [Kind::NonDup, Kind::Ordered, Kind::Dup] {
        for depth in 0..=MAX_OPS {
            explore(ctx, kind, &universe, depth, &mut Vec::new());
        }
    }
    // the reproduction quoted in DESIGN.md / KNOWN_FINDINGS: two initial copies of one envelope
    let case = "nondup:new[e,e]|iter_all";
    if ctx.want(case) {
        let e = env((0, 1, 'a'));
        let n = Network::new_unordered_nonduplicating([e, e]);
        let c = n.iter_all().take(10).count();
        ctx.check(case, "iter-all-nondup-extra-copy", &["NET.iter_next_rest.ensures.rest-nondup", "NET.iter_all.ensures.agrees-with-len", "NET.iter_all.ensures.multiset"], c == n.len(), format!("len()={} iter_all().count()={}", n.len(), c), "equal".to_string());
    }
}
