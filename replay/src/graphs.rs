//! Small explicit graph models for the checker-level oracles (C01 C02 C03 C11 C12 C13 C19), with
//! the reference computations (reachability, distances, maximal paths) done by brute force.
use stateright::{Checker, Expectation, HasDiscoveries, Model, Path, Property, StateRecorder, PathRecorder};
use std::collections::{BTreeMap, BTreeSet, VecDeque};
use std::time::{Duration, Instant};

#[derive(Clone, Debug)]
pub struct G {
    pub n: u8,
    pub inits: Vec<u8>,
    pub edges: Vec<Vec<u8>>, // edges[s] = successors in action order
    pub bound: u16,          // bit s set <=> state s is inside the boundary
    pub props: Vec<(Expectation, u16)>, // condition holds in state s <=> bit s set
}

pub const NAMES: [&str; 3] = ["p0", "p1", "p2"];
fn c0(m: &G, s: &u8) -> bool { m.props[0].1 & (1 << *s) != 0 }
fn c1(m: &G, s: &u8) -> bool { m.props[1].1 & (1 << *s) != 0 }
fn c2(m: &G, s: &u8) -> bool { m.props[2].1 & (1 << *s) != 0 }

impl Model for G {
    type State = u8;
    type Action = u8;
    fn init_states(&self) -> Vec<u8> { self.inits.clone() }
    fn actions(&self, s: &u8, a: &mut Vec<u8>) { a.extend(self.edges[*s as usize].iter().copied()) }
    /// an action >= 0x80 is offered by `actions` but ignored by `next_state` (returns None)
    fn next_state(&self, _s: &u8, a: u8) -> Option<u8> { if a >= 0x80 { None } else { Some(a) } }
    fn within_boundary(&self, s: &u8) -> bool { self.bound & (1 << *s) != 0 }
    fn properties(&self) -> Vec<Property<Self>> {
        let conds: [fn(&G, &u8) -> bool; 3] = [c0, c1, c2];
        self.props.iter().enumerate().map(|(i, (e, _))| Property { expectation: e.clone(), name: NAMES[i], condition: conds[i] }).collect()
    }
}

impl G {
    pub fn inb(&self, s: u8) -> bool { self.bound & (1 << s) != 0 }
    pub fn cond(&self, i: usize, s: u8) -> bool { self.props[i].1 & (1 << s) != 0 }
    pub fn succ(&self, s: u8) -> Vec<u8> { self.edges[s as usize].iter().copied().filter(|t| *t < 0x80 && self.inb(*t)).collect() }
    /// distance (in transitions) of every reachable in-boundary state from the in-boundary inits
    pub fn dist(&self) -> BTreeMap<u8, usize> {
        let mut d = BTreeMap::new();
        let mut q = VecDeque::new();
        for &i in &self.inits {
            if self.inb(i) && !d.contains_key(&i) {
                d.insert(i, 0);
                q.push_back(i);
            }
        }
        while let Some(s) = q.pop_front() {
            for t in self.succ(s) {
                if !d.contains_key(&t) {
                    d.insert(t, d[&s] + 1);
                    q.push_back(t);
                }
            }
        }
        d
    }
    pub fn reach(&self) -> BTreeSet<u8> { self.dist().keys().copied().collect() }
    /// a path is a real in-boundary execution from an init state
    pub fn is_exec(&self, p: &[u8]) -> bool {
        !p.is_empty() && self.inits.contains(&p[0]) && p.iter().all(|s| *s < 0x80 && self.inb(*s)) && p.windows(2).all(|w| self.edges[w[0] as usize].contains(&w[1]))
    }
    /// does some maximal in-boundary path from an init state (ending in a state without in-boundary
    /// successor, or looping forever) avoid the condition of property i everywhere?
    pub fn has_avoiding_maximal_path(&self, i: usize) -> bool {
        // states from which an avoiding maximal continuation exists, within the sub-graph of
        // in-boundary states not satisfying the condition: a dead end, or a cycle, is reachable
        let ok: Vec<u8> = (0..self.n).filter(|s| self.inb(*s) && !self.cond(i, *s)).collect();
        let sub = |s: u8| -> Vec<u8> { self.succ(s).into_iter().filter(|t| ok.contains(t)).collect() };
        // good(s): s in ok and (succ(s) (all in-boundary successors) empty, or some sub-successor is good) or s on a cycle of ok
        let mut good: BTreeSet<u8> = ok.iter().copied().filter(|s| self.succ(*s).is_empty()).collect();
        // cycles within ok: s can reach itself through sub
        for &s in &ok {
            let mut seen = BTreeSet::new();
            let mut st = sub(s);
            while let Some(t) = st.pop() {
                if t == s { good.insert(s); break; }
                if seen.insert(t) { st.extend(sub(t)); }
            }
        }
        loop {
            let mut changed = false;
            for &s in &ok {
                if !good.contains(&s) && sub(s).iter().any(|t| good.contains(t)) {
                    good.insert(s);
                    changed = true;
                }
            }
            if !changed { break; }
        }
        self.inits.iter().any(|i0| good.contains(i0))
    }
    /// every reachable state has exactly one path from the inits (forest)
    pub fn is_forest(&self) -> bool {
        let r = self.reach();
        let mut indeg: BTreeMap<u8, usize> = BTreeMap::new();
        let mut inits_seen = BTreeSet::new();
        for &i in &self.inits {
            if self.inb(i) && !inits_seen.insert(i) { return false; }
        }
        for &s in &r {
            for t in self.succ(s) { *indeg.entry(t).or_insert(0) += 1; }
        }
        r.iter().all(|s| { let d = indeg.get(s).copied().unwrap_or(0); if self.inits.contains(s) { d == 0 } else { d == 1 } })
    }
    pub fn describe(&self) -> String {
        format!("n={} inits={:?} edges={:?} bound={:#b} props={:?}", self.n, self.inits, self.edges, self.bound,
            self.props.iter().map(|(e, m)| format!("{:?}:{:#b}", e, m)).collect::<Vec<_>>())
    }
}

#[derive(Clone, Copy, Debug, PartialEq, Eq)]
pub enum Strategy { Bfs, Dfs, OnDemand, Sim }

pub struct Outcome {
    pub visited: Vec<u8>,
    pub visited_paths: Vec<Vec<u8>>,
    pub discoveries: BTreeMap<&'static str, Vec<u8>>,
    pub unique: usize,
    pub total: usize,
    pub done: bool,
    pub finished: bool, // false: the checker did not stop within the time box
    pub panicked: bool, // the checker API panicked (e.g. discoveries() on an empty path)
    pub labels_ok: bool, // every step of every discovery path carries the action that leads to the next state
}

#[derive(Clone, Debug, Default)]
pub struct Opts {
    pub threads: usize,
    pub max_depth: Option<usize>,
    pub target_states: Option<usize>,
    pub finish_when: Option<HasDiscoveries>,
    pub seed: u64,
}

fn path_states(p: Path<u8, u8>) -> Vec<u8> { p.into_states() }

/// Runs the real checker. On-demand checkers and simulations are polled with a time box instead of
/// joined (on-demand `join` never returns; a simulation only stops on a finish/target condition).
/// `run_inner` with panics of the checker API (e.g. `discoveries()`) turned into `panicked = true`.
pub fn run(g: &G, strat: Strategy, o: &Opts) -> Outcome {
    match std::panic::catch_unwind(std::panic::AssertUnwindSafe(|| run_inner(g, strat, o))) {
        Ok(out) => out,
        Err(_) => Outcome { visited: vec![], visited_paths: vec![], discoveries: Default::default(), unique: 0, total: 0, done: false, finished: false, panicked: true, labels_ok: true },
    }
}

fn run_inner(g: &G, strat: Strategy, o: &Opts) -> Outcome {
    let (prec, pacc) = PathRecorder::new_with_accessor();
    let mut b = g.clone().checker().threads(o.threads.max(1)).visitor(prec);
    if let Some(d) = o.max_depth { b = b.target_max_depth(d); }
    if let Some(t) = o.target_states { b = b.target_state_count(t); }
    if let Some(f) = &o.finish_when { b = b.finish_when(f.clone()); }
    fn collect(c: &dyn DynChecker, finished: bool) -> Outcome {
        Outcome { visited: vec![], visited_paths: vec![], discoveries: c.disc(), unique: c.uniq(), total: c.total(), done: c.done(), finished, panicked: false, labels_ok: c.labels_ok() }
    }
    let mut out = match strat {
        Strategy::Bfs => { let c = b.spawn_bfs().join(); collect(&c, true) }
        Strategy::Dfs => { let c = b.spawn_dfs().join(); collect(&c, true) }
        Strategy::OnDemand => {
            let mut c = b.spawn_on_demand();
            c.run_to_completion();
            // the WORKER threads are the first `threads` handles (the last one forwards control messages and lives as
            // long as the checker): the run is over when every worker has returned. (is_done() also turns true as soon
            // as every property has a discovery, whether or not the workers go on under the configured finish condition.)
            let hs = c.handles();
            let workers = &hs[..o.threads.max(1).min(hs.len())];
            let t0 = Instant::now();
            while t0.elapsed() < Duration::from_secs(20) && !workers.iter().all(|h| h.is_finished()) {
                std::thread::sleep(Duration::from_millis(1));
            }
            let fin = workers.iter().all(|h| h.is_finished());
            collect(&c, fin)
        }
        Strategy::Sim => {
            let mut c = b.spawn_simulation(o.seed, stateright::UniformChooser);
            let t0 = Instant::now();
            let hs = c.handles();
            while t0.elapsed() < Duration::from_secs(10) && !hs.iter().all(|h| h.is_finished()) {
                std::thread::sleep(Duration::from_millis(1));
            }
            let fin = hs.iter().all(|h| h.is_finished());
            collect(&c, fin)
        }
    };
    let mut paths: Vec<Vec<u8>> = pacc().into_iter().map(path_states).collect();
    paths.sort();
    out.visited = paths.iter().map(|p| *p.last().unwrap()).collect();
    out.visited_paths = paths;
    out
}

/// BFS, single thread, with the visit ORDER (StateRecorder) instead of paths.
pub fn run_bfs_order(g: &G, o: &Opts) -> (Vec<u8>, BTreeMap<&'static str, Vec<u8>>) {
    let (srec, sacc) = StateRecorder::new_with_accessor();
    let mut b = g.clone().checker().threads(1).visitor(srec);
    if let Some(d) = o.max_depth { b = b.target_max_depth(d); }
    let c = b.spawn_bfs().join();
    (sacc(), c.disc())
}

pub trait DynChecker {
    fn disc(&self) -> BTreeMap<&'static str, Vec<u8>>;
    fn uniq(&self) -> usize;
    fn total(&self) -> usize;
    fn done(&self) -> bool;
    fn labels_ok(&self) -> bool;
}
impl<C: Checker<G>> DynChecker for C {
    fn disc(&self) -> BTreeMap<&'static str, Vec<u8>> { self.discoveries().into_iter().map(|(k, p)| (k, p.into_states())).collect() }
    fn uniq(&self) -> usize { self.unique_state_count() }
    fn total(&self) -> usize { self.state_count() }
    fn done(&self) -> bool { self.is_done() }
    fn labels_ok(&self) -> bool {
        // in G an action IS the state it leads to; the last element carries no action
        self.discoveries().into_iter().all(|(_, p)| {
            let v = p.into_vec();
            v.windows(2).all(|w| w[0].1 == Some(w[1].0)) && v.last().map(|l| l.1.is_none()).unwrap_or(true)
        })
    }
}

/// Deterministic enumeration of small graphs: all edge sets over 3 states (self loops included) for
/// a few init / boundary choices, plus seeded random 4-state graphs.
pub fn graphs(seed: u64, thorough: bool) -> Vec<(u8, Vec<u8>, Vec<Vec<u8>>, u16)> {
    let mut out = Vec::new();
    let step = if thorough { 1 } else { 7 };
    let mut code = 0u32;
    while code < 512 {
        let mut edges = vec![vec![], vec![], vec![]];
        for s in 0..3u8 {
            for t in 0..3u8 {
                if code & (1 << (s * 3 + t)) != 0 { edges[s as usize].push(t); }
            }
        }
        for (inits, bound) in [(vec![0u8], 0b111u16), (vec![0, 1], 0b111), (vec![0], 0b011), (vec![0], 0b101), (vec![0, 1], 0b101)] {
            out.push((3, inits, edges.clone(), bound));
        }
        // the same graph with an ignored action listed first / in the middle of every action list
        if code % 5 == 0 {
            let ign: Vec<Vec<u8>> = edges.iter().map(|e| { let mut v = vec![0x80u8]; for (k, t) in e.iter().enumerate() { v.push(*t); if k == 0 { v.push(0x81); } } v }).collect();
            out.push((3, vec![0], ign.clone(), 0b111));
            out.push((3, vec![0, 1], ign, 0b011));
        }
        code += step;
    }
    // xorshift
    let mut x = seed.wrapping_mul(0x9E3779B97F4A7C15) | 1;
    let mut rnd = move || { x ^= x << 13; x ^= x >> 7; x ^= x << 17; x };
    let extra = if thorough { 400 } else { 60 };
    for _ in 0..extra {
        let n = 4 + (rnd() % 2) as u8;
        let mut edges = vec![];
        for _s in 0..n {
            let mut e = vec![];
            for t in 0..n {
                if rnd() % 3 == 0 { e.push(t); }
            }
            edges.push(e);
        }
        let bound = if rnd() % 2 == 0 { (1u16 << n) - 1 } else { ((1u16 << n) - 1) & !(1 << (1 + rnd() % (n as u64 - 1))) };
        let inits = if rnd() % 3 == 0 { vec![0, 1] } else { vec![0] };
        out.push((n, inits, edges, bound));
    }
    out
}
