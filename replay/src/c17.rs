//! C17 (decided clause only): Id <-> SocketAddrV4 bijection on 48-bit ids, sampled.
use crate::Ctx;
use stateright::actor::Id;
use std::net::{Ipv4Addr, SocketAddrV4};

pub fn run(ctx: &mut Ctx) {
    let ips = [0u32, 1, 0x7f000001, 0x0a000001, 0xc0a80001, 0x01020304, 0xffffffff, 0x80000000, 0x00ff00ff];
    let ports = [0u16, 1, 80, 3000, 0x1234, 0xff00, 0x00ff, 65535];
    for &ip in &ips {
        for &port in &ports {
            let id = format!("id.addr:{:#x}|{}", ip, port);
            if ctx.want(&id) {
                let addr = SocketAddrV4::new(Ipv4Addr::from(ip), port);
                let i = Id::from(addr);
                let back = SocketAddrV4::from(i);
                let v = usize::from(i) as u64;
                let want = ((ip as u64) << 16) | port as u64;
                ctx.check(&id, "id-addr-roundtrip", &["KX.k_id_addr_roundtrip"], back == addr && v == want, format!("{} id={:#x}", back, v), format!("{} id={:#x}", addr, want));
            }
            let v = ((ip as u64) << 16) | port as u64;
            let id = format!("id.id:{:#x}", v);
            if ctx.want(&id) {
                let i = Id::from(v as usize);
                let addr = SocketAddrV4::from(i);
                ctx.check(&id, "id-id-roundtrip", &["KX.k_id_id_roundtrip"], Id::from(addr) == i && u32::from(*addr.ip()) == ip && addr.port() == port,
                    format!("{}", addr), format!("{}:{}", Ipv4Addr::from(ip), port));
            }
        }
    }
}
