//! C17: (1) Id <-> SocketAddrV4 bijection on 48-bit ids, sampled (Kani harnesses k_id_*);
//! (2) the per-command clauses (unit SPAWN: contract of `on_command`) observed on the REAL UDP runtime:
//! `stateright::actor::spawn` is run on localhost sockets with a tiny scripted actor for a bounded time.
use crate::Ctx;
use stateright::actor::{spawn, Actor, Id, Out};
use std::borrow::Cow;
use std::net::{Ipv4Addr, SocketAddr, SocketAddrV4, UdpSocket};
use std::time::{Duration, Instant};

pub fn run(ctx: &mut Ctx) {
    run_recv(ctx);
    run_idle(ctx);
    run_after_bad(ctx);
    run_spawn(ctx);
    let ips = [0u32, 1, 0x7f000001, 0x0a000001, 0xc0a80001, 0x01020304, 0xffffffff, 0x80000000, 0x00ff00ff];
    let ports = [0u16, 1, 80, 3000, 0x1234, 0xff00, 0x00ff, 65535];
    for &ip in &ips {
        for &port in &ports {
            let id = format!("id.addr:{:#x}|{}", ip, port);
            if ctx.want(&id) {
                let addr = SocketAddrV4::new(Ipv4Addr::from(ip), port);
                let i = Id::from(addr);
                let back = SocketAddrV4::from(i);
                let v = usize::from(i) as u64;
                let want = ((ip as u64) << 16) | port as u64;
                ctx.check(&id, "id-addr-roundtrip", &["KX.k_id_addr_roundtrip"], back == addr && v == want, format!("{} id={:#x}", back, v), format!("{} id={:#x}", addr, want));
            }
            let v = ((ip as u64) << 16) | port as u64;
            let id = format!("id.id:{:#x}", v);
            if ctx.want(&id) {
                let i = Id::from(v as usize);
                let addr = SocketAddrV4::from(i);
                ctx.check(&id, "id-id-roundtrip", &["KX.k_id_id_roundtrip"], Id::from(addr) == i && u32::from(*addr.ip()) == ip && addr.port() == port,
                    format!("{}", addr), format!("{}:{}", Ipv4Addr::from(ip), port));
            }
        }
    }
}

// ------------------------------------------------------------------------------------------------
// (2) the UDP runtime, one command at a time (unit SPAWN)
// ------------------------------------------------------------------------------------------------

#[derive(Clone, Copy, Debug, PartialEq, Eq, Hash)]
enum Script { SendOnce, Rearm, SetCancel, SetCancelSet }
#[derive(Clone, Debug, PartialEq, Eq, Hash)]
enum Tm { Main, Aux }

const PAYLOAD: u32 = 0x0C17_BEEF;
const ALIVE: u32 = 1;
const REARMED: u32 = 2;
const FIRED: u32 = 3;

/// A scripted actor: everything it does is reported to `observer` (a plain UdpSocket of the oracle).
struct Probe { script: Script, observer: Id }

fn ms(n: u64) -> Duration { Duration::from_millis(n) }

impl Actor for Probe {
    type Msg = u32;
    type State = u32;
    type Timer = Tm;
    type Random = ();
    fn on_start(&self, _id: Id, o: &mut Out<Self>) -> u32 {
        match self.script {
            Script::SendOnce => { o.send(self.observer, PAYLOAD); }
            Script::Rearm => {
                o.set_timer(Tm::Main, ms(300)..ms(300));
                o.set_timer(Tm::Aux, ms(100)..ms(100));
            }
            Script::SetCancel => {
                o.set_timer(Tm::Main, ms(200)..ms(200));
                o.cancel_timer(Tm::Main);
                o.send(self.observer, ALIVE);
            }
            Script::SetCancelSet => {
                o.set_timer(Tm::Main, ms(200)..ms(200));
                o.cancel_timer(Tm::Main);
                o.set_timer(Tm::Main, ms(200)..ms(200));
                o.send(self.observer, ALIVE);
            }
        }
        0
    }
    fn on_timeout(&self, _id: Id, state: &mut Cow<u32>, timer: &Tm, o: &mut Out<Self>) {
        *state.to_mut() += 1;
        match (self.script, timer) {
            (Script::Rearm, Tm::Aux) => {
                // re-arm the main timer ~100 ms after the first arming: the LATEST arming must win
                o.set_timer(Tm::Main, ms(300)..ms(300));
                o.send(self.observer, REARMED);
            }
            (_, Tm::Main) => { o.send(self.observer, FIRED); }
            _ => {}
        }
    }
}

fn ser(m: &u32) -> Result<Vec<u8>, String> { Ok(format!("c17:{:08x};", m).into_bytes()) }
fn de(b: &[u8]) -> Result<u32, String> {
    let s = std::str::from_utf8(b).map_err(|e| e.to_string())?;
    let s = s.strip_prefix("c17:").and_then(|s| s.strip_suffix(';')).ok_or("frame")?;
    u32::from_str_radix(s, 16).map_err(|e| e.to_string())
}

/// First port in [base, base+40) on which a UDP socket can be bound on 127.0.0.1 right now.
fn bind_in(base: u16) -> Option<(UdpSocket, u16)> {
    for p in base..base + 40 {
        if let Ok(s) = UdpSocket::bind(SocketAddrV4::new(Ipv4Addr::LOCALHOST, p)) { return Some((s, p)); }
    }
    None
}

struct Rig { obs: UdpSocket, actor_addr: SocketAddrV4, t0: Instant }

/// Binds the observer, finds a free port for the actor, starts the real runtime on a detached thread
/// (`spawn` blocks for ever; the thread dies with the process).
fn start(script: Script, base: u16) -> Option<Rig> {
    let (obs, obs_port) = bind_in(base)?;
    let (probe, actor_port) = bind_in(base + 40)?;
    drop(probe);
    let observer = Id::from(SocketAddrV4::new(Ipv4Addr::LOCALHOST, obs_port));
    let actor_addr = SocketAddrV4::new(Ipv4Addr::LOCALHOST, actor_port);
    let t0 = Instant::now();
    std::thread::spawn(move || {
        let _ = spawn::<Probe, String>(ser, de, vec![(Id::from(actor_addr), Probe { script, observer })]);
    });
    Some(Rig { obs, actor_addr, t0 })
}

/// Next datagram arriving at the observer before `deadline`: (bytes, source, arrival time).
fn recv_before(s: &UdpSocket, deadline: Instant) -> Option<(Vec<u8>, SocketAddr, Instant)> {
    let mut buf = [0u8; 2048];
    loop {
        let left = deadline.checked_duration_since(Instant::now())?;
        if left.is_zero() { return None; }
        s.set_read_timeout(Some(left)).ok()?;
        match s.recv_from(&mut buf) {
            Ok((n, src)) => return Some((buf[..n].to_vec(), src, Instant::now())),
            Err(e) if matches!(e.kind(), std::io::ErrorKind::WouldBlock | std::io::ErrorKind::TimedOut | std::io::ErrorKind::Interrupted) => continue,
            Err(_) => return None,
        }
    }
}

/// All datagrams until `deadline`, decoded: (message, ms since t0).
fn collect(r: &Rig, deadline: Instant, stop_at: Option<u32>) -> Vec<(u32, u128)> {
    let mut v = Vec::new();
    while let Some((b, _, at)) = recv_before(&r.obs, deadline) {
        let m = de(&b).unwrap_or(u32::MAX);
        v.push((m, at.duration_since(r.t0).as_millis()));
        if Some(m) == stop_at { break; }
    }
    v
}

fn run_spawn(ctx: &mut Ctx) {
    let cases = ["spawn.send", "spawn.rearm", "spawn.set-cancel", "spawn.set-cancel-set"];
    if !cases.iter().any(|c| ctx.want(c)) { return; }
    // is UDP on 127.0.0.1 available at all?
    let udp_ok = UdpSocket::bind(SocketAddrV4::new(Ipv4Addr::LOCALHOST, 0)).and_then(|a| {
        let b = UdpSocket::bind(SocketAddrV4::new(Ipv4Addr::LOCALHOST, 0))?;
        a.send_to(b"x", b.local_addr()?)?;
        b.set_read_timeout(Some(ms(300)))?;
        let mut buf = [0u8; 4];
        b.recv_from(&mut buf).map(|_| ())
    });
    if let Err(e) = udp_ok {
        eprintln!("C17 spawn cases SKIPPED: UDP on 127.0.0.1 is not usable in this sandbox ({})", e);
        return;
    }

    // (a) Send: exactly one datagram, to the address encoded by the destination Id, carrying exactly the
    //     serialized bytes, from the actor's own address
    if ctx.want("spawn.send") {
        match start(Script::SendOnce, 42100) {
            None => eprintln!("C17 spawn.send SKIPPED: no free port in 42100-42179"),
            Some(r) => {
                let first = recv_before(&r.obs, r.t0 + ms(1000));
                let second = recv_before(&r.obs, Instant::now() + ms(250));
                let want = ser(&PAYLOAD).unwrap();
                let ok = matches!(&first, Some((b, src, _)) if *b == want && *src == SocketAddr::V4(r.actor_addr)) && second.is_none();
                ctx.check("spawn.send", "spawn-send-datagram", &["SPAWN.on_command.ensures.send-ok"], ok,
                    format!("first={:?} second={:?}", first.as_ref().map(|(b, s, _)| (String::from_utf8_lossy(b).to_string(), *s)), second.as_ref().map(|(b, s, _)| (String::from_utf8_lossy(b).to_string(), *s))),
                    format!("exactly one datagram {:?} from {}", String::from_utf8_lossy(&want), r.actor_addr));
            }
        }
    }
    // (b) a timer armed with 300ms..300ms at ~0 and re-armed with the same range at ~100 ms fires no earlier than
    //     400 ms after the start: the latest arming wins (and it does fire)
    if ctx.want("spawn.rearm") {
        match start(Script::Rearm, 42200) {
            None => eprintln!("C17 spawn.rearm SKIPPED: no free port in 42200-42279"),
            Some(r) => {
                let got = collect(&r, r.t0 + ms(1300), Some(FIRED));
                let rearmed = got.iter().find(|(m, _)| *m == REARMED).map(|x| x.1);
                let fired = got.iter().find(|(m, _)| *m == FIRED).map(|x| x.1);
                let ok = matches!((rearmed, fired), (Some(a), Some(f)) if a >= 100 && f >= 400 && f >= a + 300);
                ctx.check("spawn.rearm", "spawn-timer-rearm", &["SPAWN.on_command.ensures.set-timer", "SPAWN.lemma.rearm_latest_arming_wins"], ok,
                    format!("rearmed at {:?} ms, fired at {:?} ms (events {:?})", rearmed, fired, got),
                    "re-armed at >= 100 ms; fired once the NEW 300 ms elapsed: at >= 400 ms and >= rearm + 300 ms, before 1300 ms".to_string());
            }
        }
    }
    // (c) set then cancel: the timer does not fire within 600 ms (the actor is alive: its ALIVE datagram arrives)
    if ctx.want("spawn.set-cancel") {
        match start(Script::SetCancel, 42300) {
            None => eprintln!("C17 spawn.set-cancel SKIPPED: no free port in 42300-42379"),
            Some(r) => {
                let got = collect(&r, r.t0 + ms(700), None);
                let alive = got.iter().any(|(m, _)| *m == ALIVE);
                let fired = got.iter().find(|(m, _)| *m == FIRED).map(|x| x.1);
                ctx.check("spawn.set-cancel", "spawn-timer-cancel", &["SPAWN.on_command.ensures.cancel-timer", "SPAWN.lemma.set_then_cancel_is_disarmed"], alive && fired.is_none(),
                    format!("alive={} fired at {:?} ms (events {:?})", alive, fired, got),
                    "actor alive, and the cancelled 200 ms timer silent for 700 ms".to_string());
            }
        }
    }
    // (d) set, cancel, set again: the timer is armed again and fires (no earlier than its 200 ms)
    if ctx.want("spawn.set-cancel-set") {
        match start(Script::SetCancelSet, 42400) {
            None => eprintln!("C17 spawn.set-cancel-set SKIPPED: no free port in 42400-42479"),
            Some(r) => {
                let got = collect(&r, r.t0 + ms(1200), Some(FIRED));
                let alive = got.iter().any(|(m, _)| *m == ALIVE);
                let fired = got.iter().find(|(m, _)| *m == FIRED).map(|x| x.1);
                let ok = alive && matches!(fired, Some(f) if f >= 200);
                ctx.check("spawn.set-cancel-set", "spawn-timer-set-after-cancel", &["SPAWN.on_command.ensures.set-timer", "SPAWN.lemma.cancel_then_set_is_armed"], ok,
                    format!("alive={} fired at {:?} ms (events {:?})", alive, fired, got),
                    "actor alive, timer fires at >= 200 ms and before 1200 ms".to_string());
            }
        }
    }
}


// ---- a large (but legal) datagram reaches on_msg intact, with the sender's Id -------------------
struct EchoLen;
impl Actor for EchoLen {
    type Msg = Vec<u8>;
    type State = u32;
    type Timer = ();
    type Random = ();
    fn on_start(&self, _id: Id, _o: &mut Out<Self>) -> u32 { 0 }
    fn on_msg(&self, _id: Id, state: &mut std::borrow::Cow<u32>, src: Id, msg: Vec<u8>, o: &mut Out<Self>) {
        // reply to the sender (its Id is derived from the datagram's source address) with length + checksum
        let sum: u32 = msg.iter().fold(0u32, |a, b| a.wrapping_mul(31).wrapping_add(*b as u32));
        *state.to_mut() += 1;
        let mut r = (msg.len() as u32).to_be_bytes().to_vec();
        r.extend_from_slice(&sum.to_be_bytes());
        o.send(src, r);
    }
}
fn raw_ser(m: &Vec<u8>) -> Result<Vec<u8>, String> { Ok(m.clone()) }
fn raw_de(b: &[u8]) -> Result<Vec<u8>, String> { Ok(b.to_vec()) }

pub fn run_recv(ctx: &mut Ctx) {
    for (i, len) in [8usize, 1400, 1501, 5000, 60000].iter().enumerate() {
        let case = format!("spawn.recv:{}", len);
        if !ctx.want(&case) { continue; }
        let Some((me, _my_port)) = bind_in(42500 + 80 * i as u16) else { eprintln!("c17: no UDP port; skipping {}", case); continue };
        let Some((probe, actor_port)) = bind_in(42540 + 80 * i as u16) else { continue };
        drop(probe);
        let actor_addr = SocketAddrV4::new(Ipv4Addr::LOCALHOST, actor_port);
        std::thread::spawn(move || {
            let _ = spawn::<EchoLen, String>(raw_ser, raw_de, vec![(Id::from(actor_addr), EchoLen)]);
        });
        let payload: Vec<u8> = (0..*len).map(|k| (k * 7 + 3) as u8).collect();
        let want_sum: u32 = payload.iter().fold(0u32, |a, b| a.wrapping_mul(31).wrapping_add(*b as u32));
        let deadline = Instant::now() + ms(1500);
        let mut got = None;
        // the runtime thread needs a moment to bind: retransmit until the echo arrives
        while Instant::now() < deadline && got.is_none() {
            let _ = me.send_to(&payload, actor_addr);
            if let Some((b, src, _)) = recv_before(&me, Instant::now() + ms(150)) {
                if b.len() == 8 { got = Some((u32::from_be_bytes([b[0], b[1], b[2], b[3]]), u32::from_be_bytes([b[4], b[5], b[6], b[7]]), src)); }
            }
        }
        let ok = matches!(got, Some((l, s, src)) if l as usize == *len && s == want_sum && src == SocketAddr::V4(actor_addr));
        ctx.check(&case, "spawn-on-msg-not-the-datagram-sent", &["SPAWN.event-loop (not under contract)"], ok, format!("{:?}", got), format!("echo of length {} checksum {} from {}", len, want_sum, actor_addr));
    }
}


// ---- an empty datagram is still a datagram; a timer armed by a message handler after an idle period ----
struct Idle;
impl Actor for Idle {
    type Msg = Vec<u8>;
    type State = u64;
    type Timer = ();
    type Random = ();
    fn on_start(&self, _id: Id, _o: &mut Out<Self>) -> u64 { 0 }
    fn on_msg(&self, _id: Id, state: &mut std::borrow::Cow<u64>, src: Id, msg: Vec<u8>, o: &mut Out<Self>) {
        match msg.first() {
            // ping: echoed (lets the oracle know the runtime is up)
            Some(0) => o.send(src, vec![0]),
            // three sends, the middle one serializes to ZERO bytes
            Some(3) => { o.send(src, vec![1]); o.send(src, vec![]); o.send(src, vec![2]); }
            // arm a timer from a message handler; the timeout answers the requester
            Some(9) => { *state.to_mut() = usize::from(src) as u64; o.set_timer((), ms(400)..ms(400)); }
            _ => {}
        }
    }
    fn on_timeout(&self, _id: Id, state: &mut std::borrow::Cow<u64>, _t: &(), o: &mut Out<Self>) {
        o.send(Id::from(**state as usize), vec![7]);
    }
}

pub fn run_idle(ctx: &mut Ctx) {
    let cases = ["spawn.send-empty", "spawn.timer-after-idle"];
    if !cases.iter().any(|c| ctx.want(c)) { return; }
    let Some((me, _)) = bind_in(43100) else { eprintln!("c17: no UDP port; skipping idle cases"); return };
    let Some((probe, actor_port)) = bind_in(43140) else { return };
    drop(probe);
    let actor_addr = SocketAddrV4::new(Ipv4Addr::LOCALHOST, actor_port);
    std::thread::spawn(move || {
        let _ = spawn::<Idle, String>(raw_ser, raw_de, vec![(Id::from(actor_addr), Idle)]);
    });
    // wait until the runtime answers a ping
    let deadline = Instant::now() + ms(3000);
    let mut up = false;
    while Instant::now() < deadline && !up {
        let _ = me.send_to(&[0u8], actor_addr);
        if let Some((b, _, _)) = recv_before(&me, Instant::now() + ms(100)) { up = b == vec![0u8]; }
    }
    // drain late echoes of the pings
    while recv_before(&me, Instant::now() + ms(150)).is_some() {}
    if !up { eprintln!("c17: the Idle actor did not come up; skipping idle cases"); return; }
    if ctx.want("spawn.send-empty") {
        let _ = me.send_to(&[3u8], actor_addr);
        let mut got: Vec<Vec<u8>> = Vec::new();
        let dl = Instant::now() + ms(6000);
        while got.len() < 3 { match recv_before(&me, dl) { Some((b, _, _)) => got.push(b), None => break } }
        ctx.check("spawn.send-empty", "spawn-send-not-one-datagram-each", &["SPAWN.on_command.ensures.send"], got == vec![vec![1u8], vec![], vec![2u8]],
            format!("{:?}", got), "three datagrams [1], [] (zero bytes), [2]".into());
    }
    if ctx.want("spawn.timer-after-idle") {
        // the actor has been blocked in its receive for a while when the arming request arrives
        std::thread::sleep(ms(700));
        let t0 = Instant::now();
        let _ = me.send_to(&[9u8], actor_addr);
        let got = recv_before(&me, t0 + ms(10000));
        let after = got.as_ref().map(|(_, _, t)| t.duration_since(t0).as_millis());
        let ok = matches!(&got, Some((b, _, _)) if *b == vec![7u8]) && after.map(|a| a >= 395).unwrap_or(false);
        ctx.check("spawn.timer-after-idle", "spawn-timer-fires-before-its-lower-bound", &["SPAWN.on_command.ensures.set-timer"], ok,
            format!("timeout answer {:?} ms after the request to arm a 400 ms timer", after), "no earlier than 400 ms after the arming (sent at t0, so >= ~400 ms after t0)".into());
    }
}


// ---- a Send that cannot be serialized is ignored ALONE: the commands after it are still executed -------------------
struct AfterBad;
impl Actor for AfterBad {
    type Msg = Vec<u8>;
    type State = u32;
    type Timer = ();
    type Random = ();
    fn on_start(&self, _id: Id, _o: &mut Out<Self>) -> u32 { 0 }
    fn on_msg(&self, _id: Id, _state: &mut std::borrow::Cow<u32>, src: Id, msg: Vec<u8>, o: &mut Out<Self>) {
        match msg.first() {
            Some(0) => o.send(src, vec![0]),
            Some(4) => { o.send(src, vec![0xFF]); o.send(src, vec![5]); }
            _ => {}
        }
    }
}
fn ser_rejecting(m: &Vec<u8>) -> Result<Vec<u8>, String> { if m.first() == Some(&0xFF) { Err("unserializable".into()) } else { Ok(m.clone()) } }

pub fn run_after_bad(ctx: &mut Ctx) {
    let case = "spawn.send-after-unserializable";
    if !ctx.want(case) { return; }
    let Some((me, _)) = bind_in(43300) else { eprintln!("c17: no UDP port; skipping {}", case); return };
    let Some((probe, actor_port)) = bind_in(43340) else { return };
    drop(probe);
    let actor_addr = SocketAddrV4::new(Ipv4Addr::LOCALHOST, actor_port);
    std::thread::spawn(move || {
        let _ = spawn::<AfterBad, String>(ser_rejecting, raw_de, vec![(Id::from(actor_addr), AfterBad)]);
    });
    let deadline = Instant::now() + ms(3000);
    let mut up = false;
    while Instant::now() < deadline && !up {
        let _ = me.send_to(&[0u8], actor_addr);
        if let Some((b, _, _)) = recv_before(&me, Instant::now() + ms(100)) { up = b == vec![0u8]; }
    }
    while recv_before(&me, Instant::now() + ms(150)).is_some() {}
    if !up { eprintln!("c17: the AfterBad actor did not come up; skipping {}", case); return; }
    let _ = me.send_to(&[4u8], actor_addr);
    let got = recv_before(&me, Instant::now() + ms(6000)).map(|(b, _, _)| b);
    ctx.check(case, "spawn-send-not-one-datagram-each", &["SPAWN.on_command.ensures.send-ok", "LOOP.loop_iteration.check.each-command-through-on-command"], got == Some(vec![5u8]),
        format!("{:?}", got), "the serializable Send that follows an unserializable one is emitted: [5]".into());
}
