use vstd::prelude::*;
use std::marker::PhantomData;
verus! {

pub struct DenseNatMap<K, V> {
    values: Vec<V>,
    _key: PhantomData<K>,
}

impl<K, V> DenseNatMap<K, V> {
    pub fn get(&self, key: K) -> Option<&V>
    where
        usize: From<K>,
    {
        let index = usize::from(key);
        self.values.get(index)
    }

    pub fn insert(&mut self, key: K, mut value: V) -> Option<V>
    where
        usize: From<K>,
        K: From<usize>,
    {
        let index = usize::from(key);
        if index > self.values.len() {
            panic!("Out of bounds. index={}, len={}", index, self.values.len());
        }
        if index == self.values.len() {
            self.values.push(value);
            return None;
        }
        std::mem::swap(&mut self.values[index], &mut value);
        Some(value)
    }
    pub fn len(&self) -> usize {
        self.values.len()
    }
}

pub trait SequentialSpec: Sized {
    type Op;
    type Ret: PartialEq;
    fn invoke(&mut self, op: &Self::Op) -> Self::Ret;
    fn is_valid_step(&mut self, op: &Self::Op, ret: &Self::Ret) -> bool;
}

pub struct Register<T>(pub T);
pub enum RegisterOp<T> { Write(T), Read }
#[derive(PartialEq)]
pub enum RegisterRet<T> { WriteOk, ReadOk(T) }

impl<T: Clone + PartialEq> SequentialSpec for Register<T> {
    type Op = RegisterOp<T>;
    type Ret = RegisterRet<T>;
    fn invoke(&mut self, op: &Self::Op) -> Self::Ret {
        match op {
            RegisterOp::Write(v) => {
                self.0 = v.clone();
                RegisterRet::WriteOk
            }
            RegisterOp::Read => RegisterRet::ReadOk(self.0.clone()),
        }
    }
    fn is_valid_step(&mut self, op: &Self::Op, ret: &Self::Ret) -> bool {
        match (op, ret) {
            (RegisterOp::Write(v), RegisterRet::WriteOk) => {
                self.0 = v.clone();
                true
            }
            (RegisterOp::Read, RegisterRet::ReadOk(v)) => &self.0 == v,
            _ => false,
        }
    }
}

} // verus!
fn main() {}
