#![feature(allocator_api)]
use vstd::prelude::*;
use std::collections::VecDeque;
use std::alloc::Allocator;
verus! {

pub assume_specification<T: Ord>[core::cmp::min::<T>](a: T, b: T) -> (r: T)
    ensures r == a || r == b;


pub assume_specification<T, A: Allocator>[VecDeque::<T, A>::is_empty](q: &VecDeque<T, A>) -> (r: bool)
    ensures r == (q@.len() == 0);

struct JobMarket<Job> {
    open: bool,
    thread_count: usize,
    open_count: usize,
    job_batches: Vec<VecDeque<Job>>,
}

pub open spec fn flat<Job>(b: Seq<VecDeque<Job>>) -> Seq<Job>
    decreases b.len()
{
    if b.len() == 0 { Seq::empty() } else { flat(b.drop_last()) + b.last()@ }
}

fn split_and_push<Job>(market: &mut JobMarket<Job>, jobs: &mut VecDeque<Job>)
    ensures
        old(market).open ==> flat(final(market).job_batches@) + final(jobs)@ =~= flat(old(market).job_batches@) + old(jobs)@,
{
        if !market.open {
            // remove any jobs to be done
            jobs.clear();
            return;
        }
        let pieces = 1 + std::cmp::min(
            market.thread_count.saturating_sub(market.open_count),
            jobs.len(),
        );
        let size = jobs.len() / pieces;
        let mut it_ = 1;
        while it_ < pieces
            invariant
                1 <= it_,
                flat(market.job_batches@) + jobs@ =~= flat(old(market).job_batches@) + old(jobs)@,
                size <= old(jobs)@.len(),
                market.open == old(market).open,
            decreases pieces - it_,
        {
            it_ += 1;
            let ghost before = market.job_batches@;
            let ghost jb = jobs@;
            if jobs.len() < size { assume(false); }
            let to_share = jobs.split_off(jobs.len() - size);
            if to_share.is_empty() {
                continue;
            }
            market.job_batches.push(to_share);
            proof {
                assert(market.job_batches@.drop_last() =~= before);
                assert(flat(market.job_batches@) =~= flat(before) + to_share@);
                assert(jb =~= jobs@ + to_share@);
            }
        }
}

} // verus!
fn main() {}
