use vstd::prelude::*;
use std::collections::VecDeque;
verus! {
pub assume_specification<T>[Option::<T>::replace](o: &mut Option<T>, v: T) -> (r: Option<T>)
    ensures r == *old(o), *final(o) == Some(v);
pub enum Net {
    A(Vec<u64>, Option<u64>),
    B(VecDeque<u64>),
}
impl Net {
    pub open spec fn total(&self) -> int {
        match self { Net::A(v, _) => v@.len() as int, Net::B(q) => q@.len() as int }
    }
    fn send(&mut self, x: u64)
        ensures final(self).total() == old(self).total() + 1
    {
        match self {
            Net::A(v, _) => { v.push(x); }
            Net::B(q) => { q.push_back(x); }
        }
    }
    fn on_deliver(&mut self, x: u64) {
        match self {
            Net::A(_, last) => { last.replace(x); }
            Net::B(q) => { q.pop_front(); }
        }
    }
}
}
fn main() {}
