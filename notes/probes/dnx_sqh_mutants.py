#!/usr/bin/env python3
"""Seeded edits for units DNX / SQH (notes/units/DNX.md, SQH.md): each mutant is applied to a scratch copy of /repo under
$SCRATCH (default /var/tmp/dnx-mut), compiled with `cargo check`, and the unit(s) are run against it with
`VERIF_REPO=<copy> bin/check --unit U`.  usage: dnx_sqh_mutants.py [NAME-PREFIX ..]   (no argument: all)"""
import os, subprocess, sys, shutil, re
VERIF = os.path.dirname(os.path.dirname(os.path.dirname(os.path.abspath(__file__))))
SCRATCH = os.environ.get('SCRATCH', '/var/tmp/dnx-mut')
D='src/util/densenatmap.rs'
S='src/semantics.rs'
SORT='pairs.sort_by_key(|(k, _)| *k);'
CHECK='if i != i_expected {'
RW='.map(|(k, v)| (k.rewrite(plan), v.rewrite(plan)))'
HV='''.all(|(op, ret)| self.is_valid_step(&op, &ret))'''
MUT = {
 # (A)
 'A1-sortkey-reversed': (D, [(SORT, 'pairs.sort_by_key(|(k, _)| usize::MAX - *k);')], ['DNX']),
 'A2-check-flipped': (D, [(CHECK, 'if i == i_expected {')], ['DNX']),
 'A3-check-off-by-one': (D, [(CHECK, 'if i != i_expected + 1 {')], ['DNX']),
 'A4-check-removed': (D, [('''.map(|(i_expected, (i, v))| {
                        if i != i_expected {
                            panic!(
                                "Invalid key at index. index={}, expected_index={}",
                                i, i_expected
                            );
                        }
                        v
                    })''', '.map(|(_, (_, v))| v)')], ['DNX']),
 'A5-check-only-lower': (D, [(CHECK, 'if i < i_expected {')], ['DNX']),
 'A6-harmless-unstable-sort': (D, [(SORT, 'pairs.sort_unstable_by_key(|(k, _)| *k);')], ['DNX']),
 'A7-harmless-rename': (D, [('let mut pairs: Vec<_> =', 'let mut kvs: Vec<_> ='), (SORT, 'kvs.sort_by_key(|(key, _)| *key);'),
                            ('                pairs\n                    .into_iter()', '                kvs\n                    .into_iter()'),
                            ('.map(|(i_expected, (i, v))| {', '.map(|(want, (got, val))| {'), (CHECK, 'if got != want {'),
                            ('                                i, i_expected\n', '                                got, want\n'),
                            ('                        v\n                    })', '                        val\n                    })'),
                            ('iter.into_iter().map(|(k, v)| (usize::from(k), v)).collect();', 'iter.into_iter().map(|(key, val)| (usize::from(key), val)).collect();')], ['DNX']),
 'A8-sort-removed': (D, [(SORT, '')], ['DNX']),
 # (B)
 'B1-keys-not-rewritten': (D, [(RW, '.map(|(k, v)| (k, v.rewrite(plan)))')], ['DNX']),
 'B2-values-rewritten-twice': (D, [(RW, '.map(|(k, v)| (k.rewrite(plan), v.rewrite(plan).rewrite(plan)))')], ['DNX']),
 'B3-values-not-rewritten-clone': (D, [(RW, '.map(|(k, v)| (k.rewrite(plan), v.clone()))'), ('    V: Rewrite<R>,\n', '    V: Rewrite<R> + Clone,\n')], ['DNX']),
 'B4-inverse-permutation': (D, [(RW, '.map(|(k, _)| { let j = k.rewrite(plan); let v = self.values[usize::from(j)].rewrite(plan); (k, v) })')], ['DNX']),
 'B5-iter-key-off-by-one': (D, [('self.values.iter().enumerate().map(|(i, v)| (K::from(i), v))', 'self.values.iter().enumerate().map(|(i, v)| (K::from(i + 1), v))')], ['DNX', 'PLAN']),
 'B6-harmless-rename': (D, [(RW, '.map(|(key, val)| (key.rewrite(plan), val.rewrite(plan)))')], ['DNX']),
 # (C)
 'C1-all-to-any': (S, [(HV, '.any(|(op, ret)| self.is_valid_step(&op, &ret))')], ['SQH']),
 'C2-negated': (S, [(HV, '.all(|(op, ret)| !self.is_valid_step(&op, &ret))')], ['SQH']),
 'C3-step-taken-twice': (S, [(HV, '.all(|(op, ret)| self.is_valid_step(&op, &ret) && self.is_valid_step(&op, &ret))')], ['SQH']),
 'C4-state-not-advanced-clone': (S, [(HV, '.all(|(op, ret)| self.clone().is_valid_step(&op, &ret))'),
                                     ('fn is_valid_history(&mut self, ops: impl IntoIterator<Item = (Self::Op, Self::Ret)>) -> bool {',
                                      'fn is_valid_history(&mut self, ops: impl IntoIterator<Item = (Self::Op, Self::Ret)>) -> bool where Self: Clone {')], ['SQH']),
 'C5-first-step-skipped': (S, [('ops.into_iter()\n', 'ops.into_iter().skip(1)\n')], ['SQH']),
 'C6-harmless-rename': (S, [(HV, '.all(|(o, expected)| { let ok = self.is_valid_step(&o, &expected); ok })')], ['SQH']),
 'C7-result-ignored': (S, [(HV, '.all(|(op, ret)| { self.is_valid_step(&op, &ret); true })')], ['SQH']),
 'C8-default-step-negated': (S, [('&self.invoke(op) == ret', '&self.invoke(op) != ret')], ['SQH']),
 'C9-no-short-circuit': (S, [('ops.into_iter()\n            ' + HV, 'ops.into_iter()\n            .fold(true, |acc, (op, ret)| self.is_valid_step(&op, &ret) && acc)')], ['SQH']),
}
def run(name):
    f, edits, units = MUT[name]
    root = SCRATCH + '/src-' + name
    shutil.rmtree(root, ignore_errors=True)
    os.makedirs(root)
    subprocess.check_call(['rsync', '-a', '--exclude', 'target', '--exclude', '.git', '/repo/', root + '/repo/'])
    p = root + '/repo/' + f
    s = open(p).read()
    for a, b in edits:
        if s.count(a) != 1:
            print('%s: EDIT NOT APPLICABLE (%d matches): %r' % (name, s.count(a), a[:50])); return
        s = s.replace(a, b)
    open(p, 'w').write(s)
    env = dict(os.environ, CARGO_NET_OFFLINE='true', CARGO_TARGET_DIR=SCRATCH + '/target')
    c = subprocess.run(['cargo', 'check', '--offline', '--lib', '-q'], cwd=root + '/repo', env=env, capture_output=True, text=True)
    comp = 'compiles' if c.returncode == 0 else 'DOES NOT COMPILE: ' + ' | '.join(l for l in c.stderr.split('\n') if l.startswith('error'))[:300]
    print('== %s: %s' % (name, comp), flush=True)
    for u in units:
        env2 = dict(os.environ, VERIF_REPO=root + '/repo', VERIF_BUILD=SCRATCH + '/build-' + name)
        r = subprocess.run(['timeout', '900', VERIF + '/bin/check', '--unit', u], env=env2, capture_output=True, text=True)
        out = r.stdout + r.stderr
        lines = [l for l in out.split('\n') if re.match(r'(FAIL|UNDECIDED|unit )', l)]
        for l in lines:
            print('   ' + (l[:260] if l.startswith('UNDECIDED') else re.sub(r'; rules fired.*', '', l)))
        print('   exit=%d' % r.returncode, flush=True)
    shutil.rmtree(root, ignore_errors=True)
    shutil.rmtree(SCRATCH + '/build-' + name, ignore_errors=True)
names = sys.argv[1:] or sorted(MUT)
for n in names:
    for k in sorted(MUT):
        if k.startswith(n):
            run(k)
