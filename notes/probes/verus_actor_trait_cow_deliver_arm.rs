use vstd::prelude::*;
use std::borrow::Cow;
use std::sync::Arc;
verus! {
#[derive(Clone, Copy, PartialEq, Eq)]
pub struct Id(pub u64);

pub enum Command<Msg, Timer, Random> {
    CancelTimer(Timer),
    SetTimer(Timer),
    Send(Id, Msg),
    ChooseRandom(String, Vec<Random>),
}

#[verifier::reject_recursive_types(A)]
pub struct Out<A: Actor>(pub Vec<Command<A::Msg, A::Timer, A::Random>>);

impl<A: Actor> Out<A> {
    pub fn new() -> (r: Self) ensures r.0@.len() == 0 { Self(Vec::new()) }
}

pub open spec fn cv<T: Clone>(c: Cow<T>) -> T { match c { Cow::Borrowed(b) => *b, Cow::Owned(o) => o } }

pub trait Actor: Sized {
    type Msg: Clone;
    type Timer: Clone;
    type State: Clone;
    type Random: Clone;

    spec fn h_msg(&self, id: Id, st: Self::State, src: Id, m: Self::Msg) -> (Option<Self::State>, Seq<Command<Self::Msg, Self::Timer, Self::Random>>);

    fn on_msg(&self, id: Id, state: &mut Cow<Self::State>, src: Id, msg: Self::Msg, o: &mut Out<Self>)
        ensures
            final(o).0@ == old(o).0@ + self.h_msg(id, cv(*old(state)), src, msg).1,
            (self.h_msg(id, cv(*old(state)), src, msg).0 matches Some(s) ==> *final(state) == Cow::<Self::State>::Owned(s)),
            (self.h_msg(id, cv(*old(state)), src, msg).0 is None ==> *final(state) == *old(state)),
    ;
}

pub struct Sys<A: Actor> {
    pub actor_states: Vec<Arc<A::State>>,
    pub crashed: Vec<bool>,
}

pub fn step<A: Actor>(actors: &Vec<A>, last: &Sys<A>, src: Id, id: Id, msg: A::Msg) -> (r: Option<Vec<Arc<A::State>>>)
    requires actors@.len() == last.actor_states@.len(), last.crashed@.len() == actors@.len(), id.0 < usize::MAX,
{
    let index = id.0 as usize;
    let last_actor_state = &last.actor_states.get(index);
    if last_actor_state.is_none() {
        return None;
    }
    if last.crashed[index] {
        return None;
    }
    let last_actor_state = &**last_actor_state.unwrap();
    let mut state = Cow::Borrowed(last_actor_state);
    let mut out = Out::new();
    actors[index].on_msg(id, &mut state, src, msg.clone(), &mut out);
    let mut next = last.actor_states.clone();
    if let Cow::Owned(next_actor_state) = state {
        next.set(index, Arc::new(next_actor_state));
    }
    Some(next)
}
}
fn main() {}
