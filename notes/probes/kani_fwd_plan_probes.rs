// Scratch Kani probes used while writing DESIGN.md (harness crate with stateright = { path = <copy of /repo> },
// ahash = "0.8", choice = "0.0.2"; run: CARGO_NET_OFFLINE=true cargo kani [-Z stubbing] --harness <name>).
// Results on the pinned tree: fwd_choice_msg OK 1.0 s; fwd_choice_random FAILS (Choice does not forward
// on_random); plan_sort3 OK 15 s; hd_any_failures (BTreeSet<&str>) 261 s / 65 GB -> not viable.
#[cfg(kani)]
mod proofs {
    use stateright::actor::*;
    use stateright::*;
    use std::borrow::Cow;
    use choice::Choice;

    #[derive(Clone)]
    struct P;
    #[derive(Clone, Debug, PartialEq, Eq, Hash)]
    struct PS { tag: u8, id: u64, src: u64, x: u8 }
    impl Actor for P {
        type Msg = u8; type State = PS; type Timer = u8; type Random = u8;
        fn on_start(&self, id: Id, o: &mut Out<Self>) -> PS {
            o.send(id, 9);
            PS { tag: 0, id: usize::from(id) as u64, src: 0, x: 0 }
        }
        fn on_msg(&self, id: Id, s: &mut Cow<PS>, src: Id, m: u8, o: &mut Out<Self>) {
            *s.to_mut() = PS { tag: 1, id: usize::from(id) as u64, src: usize::from(src) as u64, x: m };
            o.send(src, m); o.set_timer(m, model_timeout());
        }
        fn on_timeout(&self, id: Id, s: &mut Cow<PS>, t: &u8, o: &mut Out<Self>) {
            *s.to_mut() = PS { tag: 2, id: usize::from(id) as u64, src: 0, x: *t };
            o.cancel_timer(*t);
        }
        fn on_random(&self, id: Id, s: &mut Cow<PS>, r: &u8, o: &mut Out<Self>) {
            *s.to_mut() = PS { tag: 3, id: usize::from(id) as u64, src: 0, x: *r };
            o.choose_random("k", vec![*r]);
        }
    }

    #[kani::proof]
    #[kani::unwind(4)]
    fn fwd_choice_msg() {
        let id: usize = kani::any(); let src: usize = kani::any(); let m: u8 = kani::any();
        let w: Choice<P, choice::Never> = Choice::new(P);
        let st0 = Choice::new(PS { tag: 7, id: 1, src: 2, x: 3 });
        let mut st = Cow::Borrowed(&st0);
        let mut o = Out::new();
        w.on_msg(Id::from(id), &mut st, Id::from(src), m, &mut o);
        assert!(matches!(st, Cow::Owned(_)));
        assert!(st.get() == &PS { tag: 1, id: id as u64, src: src as u64, x: m });
        assert!(o.len() == 2);
    }

    #[kani::proof]
    #[kani::unwind(4)]
    fn fwd_choice_random() {
        let id: usize = kani::any(); let r: u8 = kani::any();
        let w: Choice<P, choice::Never> = Choice::new(P);
        let st0 = Choice::new(PS { tag: 7, id: 1, src: 2, x: 3 });
        let mut st = Cow::Borrowed(&st0);
        let mut o = Out::new();
        w.on_random(Id::from(id), &mut st, &r, &mut o);
        assert!(st.get() == &PS { tag: 3, id: id as u64, src: 0, x: r });
    }

    #[kani::proof]
    #[kani::unwind(6)]
    fn plan_sort3() {
        let v: [u8; 3] = kani::any();
        kani::assume(v[0] < 3 && v[1] < 3 && v[2] < 3);
        let vals = v.to_vec();
        let plan = RewritePlan::<Id, _>::from_values_to_sort(&vals);
        let out: Vec<u8> = plan.reindex(&vals);
        assert!(out[0] <= out[1] && out[1] <= out[2]);
        let p0 = usize::from(plan.rewrite(&Id::from(0)));
        let p1 = usize::from(plan.rewrite(&Id::from(1)));
        assert!(p0 < 3 && p1 < 3 && p0 != p1);
        if v[0] <= v[1] { assert!(p0 < p1); } else { assert!(p0 > p1); }
        assert!(out[p0] == v[0]);
    }

    #[kani::proof]
    fn id_roundtrip() {
        use std::net::{Ipv4Addr, SocketAddrV4};
        let a: u32 = kani::any(); let p: u16 = kani::any();
        let addr = SocketAddrV4::new(Ipv4Addr::from(a), p);
        assert_eq!(addr, SocketAddrV4::from(Id::from(addr)));
    }
}
