#[cfg(kani)]
mod proofs {
    use stateright::actor::*;
    use stateright::actor::register::*;
    use std::borrow::Cow;
    use std::sync::Arc;

    fn fixed_rs() -> ahash::RandomState { ahash::RandomState::with_seeds(1, 2, 3, 4) }

    struct P;
    impl Actor for P {
        type Msg = u8; type State = u8; type Timer = u8; type Random = u8;
        fn on_start(&self, _id: Id, _o: &mut Out<Self>) -> u8 { 0 }
    }

    #[kani::proof]
    #[kani::unwind(4)]
    #[kani::stub(ahash::RandomState::new, fixed_rs)]
    fn eq_crashed() {
        let c1: bool = kani::any(); let c2: bool = kani::any();
        let mk = |c: bool| ActorModelState::<P, ()> {
            actor_states: vec![Arc::new(0u8)],
            network: Network::new_ordered([]),
            timers_set: vec![Timers::new()],
            random_choices: vec![RandomChoices::default()],
            crashed: vec![c],
            history: (),
        };
        let a = mk(c1); let b = mk(c2);
        if a == b { assert!(c1 == c2); }
    }

    // k_client: RegisterActor client arm
    struct S;
    impl Actor for S {
        type Msg = RegisterMsg<u64, char, ()>; type State = u8; type Timer = (); type Random = ();
        fn on_start(&self, _id: Id, _o: &mut Out<Self>) -> u8 { 0 }
    }
    #[kani::proof]
    #[kani::unwind(4)]
    fn client_putok() {
        let put_count: usize = kani::any(); let server_count: usize = kani::any();
        kani::assume(put_count <= 3 && server_count >= 1 && server_count <= 3);
        let idx: usize = kani::any(); kani::assume(idx >= server_count && idx < 16);
        let op_count: u64 = kani::any(); kani::assume(op_count >= 1 && op_count <= 4);
        let awaiting: u64 = op_count * idx as u64;
        let rid: u64 = kani::any();
        let a: RegisterActor<S> = RegisterActor::Client { put_count, server_count };
        let st0 = RegisterActorState::Client { awaiting: Some(awaiting), op_count };
        let mut st = Cow::Borrowed(&st0);
        let mut o = Out::new();
        a.on_msg(Id::from(idx), &mut st, Id::from(0), RegisterMsg::PutOk(rid), &mut o);
        if rid != awaiting {
            assert!(matches!(st, Cow::Borrowed(_)) && o.len() == 0);
        } else {
            assert!(o.len() == 1);
            match &*st {
                RegisterActorState::Client { awaiting: Some(n), op_count: oc } => {
                    assert!(*n == (op_count + 1) * idx as u64 && *n > awaiting && *oc == op_count + 1);
                }
                _ => assert!(false),
            }
        }
    }
}
