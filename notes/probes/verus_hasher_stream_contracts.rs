use vstd::prelude::*;
use std::hash::{Hash, Hasher};
use std::collections::HashSet;
verus! {

pub uninterp spec fn stream<H>(h: H) -> Seq<int>;
pub uninterp spec fn enc<T>(x: T) -> Seq<int>;
pub uninterp spec fn h64<T>(x: T) -> u64;

#[verifier::external_body]
pub fn feed<T: Hash, H: Hasher>(x: &T, state: &mut H)
    ensures stream(*final(state)) == stream(*old(state)) + enc(*x)
{ x.hash(state) }

#[verifier::external_body]
pub fn feed_word<H: Hasher>(w: u64, state: &mut H)
    ensures stream(*final(state)) == stream(*old(state)).push(w as int)
{ state.write_u64(w) }

#[verifier::external_body]
pub fn feed_len<H: Hasher>(w: usize, state: &mut H)
    ensures stream(*final(state)) == stream(*old(state)).push(w as int)
{ state.write_usize(w) }

#[verifier::external_body]
pub fn stable_hash_of<T: Hash>(v: &T) -> (r: u64) ensures r == h64(*v)
{ unimplemented!() }

#[verifier::external_body]
pub fn sort_unstable_u64(v: &mut Vec<u64>)
    ensures final(v)@.to_multiset() == old(v)@.to_multiset(),
            forall|i: int, j: int| 0 <= i < j < final(v)@.len() ==> final(v)@[i] <= final(v)@[j],
{ v.sort_unstable() }

pub struct S3 { a: u64, b: Vec<u8>, c: bool }
impl S3 {
    fn hash<H: Hasher>(&self, state: &mut H)
        ensures stream(*final(state)) == stream(*old(state)) + enc(self.a) + enc(self.b) + enc(self.c)
    {
        feed(&self.a, state);
        feed(&self.b, state);
        feed(&self.c, state);
    }
}

pub fn words<H: Hasher>(buffer: &Vec<u64>, hasher: &mut H)
    ensures stream(*final(hasher)) == stream(*old(hasher)) + buffer@.map_values(|w: u64| w as int)
{
    for k in 0..buffer.len()
        invariant stream(*hasher) == stream(*old(hasher)) + buffer@.take(k as int).map_values(|w: u64| w as int)
    {
        let v = &buffer[k];
        feed_word(*v, hasher);
        assert(buffer@.take(k as int + 1) =~= buffer@.take(k as int).push(buffer@[k as int]));
        assert(buffer@.take(k as int + 1).map_values(|w: u64| w as int) =~= buffer@.take(k as int).map_values(|w: u64| w as int).push(buffer@[k as int] as int));
    }
    assert(buffer@.take(buffer@.len() as int) =~= buffer@);
}
}
fn main() {}
