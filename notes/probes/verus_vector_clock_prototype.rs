use vstd::prelude::*;
use std::cmp::{max, Ordering};
verus! {

pub assume_specification<T: Ord>[core::cmp::max::<T>](a: T, b: T) -> (r: T)
    ensures r == a || r == b;
// u32/usize instances need the ordering fact; stated on concrete wrappers
#[verifier::external_body]
pub fn max_u32(a: u32, b: u32) -> (r: u32) ensures r == if a >= b { a } else { b } { max(a, b) }
#[verifier::external_body]
pub fn max_usize(a: usize, b: usize) -> (r: usize) ensures r == if a >= b { a } else { b } { max(a, b) }

pub open spec fn at(c: Seq<u32>, i: int) -> u32 { if 0 <= i < c.len() { c[i] } else { 0 } }
pub open spec fn veq(a: Seq<u32>, b: Seq<u32>) -> bool { forall|i: int| at(a, i) == at(b, i) }
pub open spec fn vle(a: Seq<u32>, b: Seq<u32>) -> bool { forall|i: int| at(a, i) <= at(b, i) }

pub struct VectorClock(pub Vec<u32>);

impl VectorClock {
    pub fn merge_max(c1: &VectorClock, c2: &VectorClock) -> (r: Self)
        ensures forall|i: int| at(r.0@, i) == (if at(c1.0@, i) >= at(c2.0@, i) { at(c1.0@, i) } else { at(c2.0@, i) }),
    {
        let VectorClock(c1) = c1;
        let VectorClock(c2) = c2;
        let mut result = vec![0; max_usize(c1.len(), c2.len())];
        let n_ = result.len();
        for i in 0..n_
            invariant
                n_ == result.len(),
                n_ == (if c1.len() >= c2.len() { c1.len() } else { c2.len() }),
                forall|j: int| 0 <= j < i ==> result@[j] == (if at(c1@, j) >= at(c2@, j) { at(c1@, j) } else { at(c2@, j) }),
        {
            let v1 = *c1.get(i).unwrap_or(&0);
            let v2 = *c2.get(i).unwrap_or(&0);
            result.set(i, max_u32(v1, v2));
        }
        VectorClock(result)
    }

    pub fn incremented(self, index: usize) -> (r: Self)
        requires index < usize::MAX, at(self.0@, index as int) < u32::MAX,
        ensures at(r.0@, index as int) == at(self.0@, index as int) + 1,
                forall|j: int| j != index ==> at(r.0@, j) == at(self.0@, j),
    {
        let mut self_ = self;
        if index >= self_.0.len() {
            self_.0.resize(1 + index, 0);
        }
        self_.0[index] += 1;
        self_
    }

    fn eq(&self, rhs: &Self) -> (r: bool)
        ensures r == veq(self.0@, rhs.0@)
    {
        let n_ = max_usize(self.0.len(), rhs.0.len());
        for i in 0..n_
            invariant n_ >= self.0.len(), n_ >= rhs.0.len(),
                forall|j: int| 0 <= j < i ==> at(self.0@, j) == at(rhs.0@, j),
        {
            let lhs_elem = self.0.get(i).unwrap_or(&0);
            let rhs_elem = rhs.0.get(i).unwrap_or(&0);
            if lhs_elem != rhs_elem {
                assert(at(self.0@, i as int) != at(rhs.0@, i as int));
                return false;
            }
        }
        true
    }

    fn partial_cmp(&self, rhs: &Self) -> (r: Option<Ordering>)
        ensures
            r == Some(Ordering::Equal) <==> veq(self.0@, rhs.0@),
            r == Some(Ordering::Less) <==> (vle(self.0@, rhs.0@) && !veq(self.0@, rhs.0@)),
            r == Some(Ordering::Greater) <==> (vle(rhs.0@, self.0@) && !veq(self.0@, rhs.0@)),
            r.is_none() <==> (!vle(self.0@, rhs.0@) && !vle(rhs.0@, self.0@)),
    {
        let mut expected_ordering = Ordering::Equal;
        let n_ = max_usize(self.0.len(), rhs.0.len());
        for i in 0..n_
            invariant n_ >= self.0.len(), n_ >= rhs.0.len(),
                expected_ordering == Ordering::Equal ==> forall|j: int| 0 <= j < i ==> at(self.0@, j) == at(rhs.0@, j),
                expected_ordering == Ordering::Less ==> (forall|j: int| 0 <= j < i ==> at(self.0@, j) <= at(rhs.0@, j)) && (exists|j: int| 0 <= j < i && at(self.0@, j) < at(rhs.0@, j)),
                expected_ordering == Ordering::Greater ==> (forall|j: int| 0 <= j < i ==> at(self.0@, j) >= at(rhs.0@, j)) && (exists|j: int| 0 <= j < i && at(self.0@, j) > at(rhs.0@, j)),
        {
            let ordering = {
                let lhs_elem = self.0.get(i).unwrap_or(&0);
                let rhs_elem = rhs.0.get(i).unwrap_or(&0);
                lhs_elem.cmp(rhs_elem)
            };
            if expected_ordering == Ordering::Equal {
                expected_ordering = ordering;
            } else if ordering != expected_ordering && ordering != Ordering::Equal {
                return None;
            }
        }
        Some(expected_ordering)
    }
}

// ---- property lemmas (spec level) ----
proof fn law_refl(a: Seq<u32>) ensures vle(a, a), veq(a, a) {}
proof fn law_antisym(a: Seq<u32>, b: Seq<u32>) requires vle(a, b), vle(b, a) ensures veq(a, b) {}
proof fn law_trans(a: Seq<u32>, b: Seq<u32>, c: Seq<u32>) requires vle(a, b), vle(b, c) ensures vle(a, c) {
    assert forall|i: int| at(a, i) <= at(c, i) by { assert(at(a, i) <= at(b, i)); assert(at(b, i) <= at(c, i)); }
}

} // verus!
fn main() {}
