#![feature(allocator_api)]
use vstd::prelude::*;
use std::collections::VecDeque;
use std::borrow::Cow;
verus! {

pub trait SequentialSpec: Sized {
    type Op;
    type Ret;
    fn invoke(&mut self, op: &Self::Op) -> Self::Ret;
    fn is_valid_step(&mut self, op: &Self::Op, ret: &Self::Ret) -> bool;
}

// prelude: ordered map abstraction for BTreeMap<K, V> (assumed contracts)
#[verifier::external_body]
#[verifier::reject_recursive_types(K)]
#[verifier::reject_recursive_types(V)]
pub struct OMap<K, V> { m: std::collections::BTreeMap<u64, (K, V)> }
impl<K, V> OMap<K, V> {
    pub uninterp spec fn view(&self) -> Map<K, V>;
    pub uninterp spec fn keys_sorted(&self) -> Seq<K>;
    #[verifier::external_body]
    pub fn keys_vec(&self) -> (r: Vec<K>) ensures r@ == self.keys_sorted(), forall|k: K| r@.contains(k) <==> self.view().contains_key(k) { unimplemented!() }
    #[verifier::external_body]
    pub fn get(&self, k: &K) -> (r: Option<&V>) ensures r == (if self.view().contains_key(*k) { Some(&self.view()[*k]) } else { None }) { unimplemented!() }
    #[verifier::external_body]
    pub fn contains_key(&self, k: &K) -> (r: bool) ensures r == self.view().contains_key(*k) { unimplemented!() }
    #[verifier::external_body]
    pub fn remove(&mut self, k: &K) -> (r: Option<V>)
        ensures final(self).view() == old(self).view().remove(*k),
                r == (if old(self).view().contains_key(*k) { Some(old(self).view()[*k]) } else { None }) { unimplemented!() }
    #[verifier::external_body]
    pub fn insert(&mut self, k: K, v: V) ensures final(self).view() == old(self).view().insert(k, v) { unimplemented!() }
    #[verifier::external_body]
    pub fn clone(&self) -> (r: Self) ensures r.view() == self.view(), r.keys_sorted() == self.keys_sorted() { unimplemented!() }
}

pub open spec fn total<K, E>(m: Map<K, VecDeque<E>>) -> nat;

pub assume_specification<T, A: std::alloc::Allocator>[VecDeque::<T, A>::is_empty](q: &VecDeque<T, A>) -> (r: bool)
    ensures r == (q@.len() == 0);

#[verifier::exec_allows_no_decreases_clause]
fn serialize<T: Copy, RefObj: SequentialSpec + Clone>(
    valid_history: Vec<(RefObj::Op, RefObj::Ret)>,
    ref_obj: &RefObj,
    remaining_history_by_thread: &OMap<T, VecDeque<(RefObj::Op, RefObj::Ret)>>,
    in_flight_by_thread: &OMap<T, RefObj::Op>,
) -> Option<Vec<(RefObj::Op, RefObj::Ret)>>
    where RefObj::Op: Clone, RefObj::Ret: Clone
{
    let ks_ = remaining_history_by_thread.keys_vec();
    // done = all(|(_id, h)| h.is_empty())
    let mut done = true;
    let mut j_ = 0;
    while j_ < ks_.len() {
        if !remaining_history_by_thread.get(&ks_[j_]).unwrap().is_empty() { done = false; }
        j_ += 1;
    }
    if done {
        return Some(valid_history);
    }

    let mut i_ = 0;
    while i_ < ks_.len() {
        let thread_id = &ks_[i_];
        let remaining_history = remaining_history_by_thread.get(thread_id).unwrap();
        i_ += 1;
        let mut remaining_history_by_thread = remaining_history_by_thread.clone();
        let mut in_flight_by_thread = in_flight_by_thread.clone();
        let (ref_obj, valid_history) = if remaining_history.is_empty() {
            if !in_flight_by_thread.contains_key(thread_id) {
                continue;
            }
            let op = in_flight_by_thread.remove(thread_id).unwrap();
            let mut ref_obj = ref_obj.clone();
            let ret = ref_obj.invoke(&op);
            let mut valid_history = valid_history.clone();
            valid_history.push((op, ret));
            (ref_obj, valid_history)
        } else {
            let mut q_ = remaining_history_by_thread.remove(thread_id).unwrap();
            let (op, ret) = q_.pop_front().unwrap();
            remaining_history_by_thread.insert(*thread_id, q_);
            let mut ref_obj = ref_obj.clone();
            if !ref_obj.is_valid_step(&op, &ret) {
                continue;
            }
            let mut valid_history = valid_history.clone();
            valid_history.push((op, ret));
            (ref_obj, valid_history)
        };
        if let Some(valid_history) = serialize(
            valid_history,
            &ref_obj,
            &remaining_history_by_thread,
            &in_flight_by_thread,
        ) {
            return Some(valid_history);
        }
    }
    None
}
}
fn main() {}
