use vstd::prelude::*;
use std::collections::BTreeSet;
verus! {
pub enum Expectation { Always, Eventually, Sometimes }
impl Expectation {
    pub const fn discovery_is_failure(&self) -> (r: bool)
        ensures r == !(self is Sometimes)
    {
        match self {
            Expectation::Always => true,
            Expectation::Eventually => true,
            Expectation::Sometimes => false,
        }
    }
}
pub struct Property { pub expectation: Expectation, pub name: &'static str }

pub enum HasDiscoveries {
    All, Any, AnyFailures, AllFailures,
    AllOf(BTreeSet<&'static str>),
    AnyOf(BTreeSet<&'static str>),
}

impl HasDiscoveries {
    pub fn matches(&self, discoveries: &BTreeSet<&'static str>, properties: &[Property]) -> (r: bool)
        ensures
            self is Any ==> r == (discoveries@.len() > 0),
            self is All ==> r == (discoveries@.len() == properties@.len()),
            self is AnyFailures ==> r == (exists|i: int| 0 <= i < properties@.len() && !(properties@[i].expectation is Sometimes) && discoveries@.contains(properties@[i].name)),
    {
        match self {
            HasDiscoveries::All => discoveries.len() == properties.len(),
            HasDiscoveries::Any => !discoveries.is_empty(),
            HasDiscoveries::AnyFailures => properties
                .iter()
                .filter(|prop| prop.expectation.discovery_is_failure())
                .any(|prop| discoveries.contains(prop.name)),
            _ => false,
        }
    }
}
}
fn main() {}
