use vstd::prelude::*;
use std::collections::VecDeque;
use std::num::NonZeroUsize;
verus! {

// ---------------- prelude (trusted) ----------------
pub type Fingerprint = u64; // NonZeroU64 in the real code; see note

pub enum Expectation { Always, Eventually, Sometimes }

#[verifier::external_body]
#[verifier::reject_recursive_types(M)]
pub struct CondFn<M: Model> { f: fn(&M, &M::State) -> bool }

pub uninterp spec fn cond_holds<M: Model>(f: CondFn<M>, m: M, s: M::State) -> bool;

#[verifier::external_body]
pub fn call_cond<M: Model>(f: &CondFn<M>, m: &M, s: &M::State) -> (r: bool)
    ensures r == cond_holds(*f, *m, *s)
{ (f.f)(m, s) }

#[verifier::reject_recursive_types(M)]
pub struct Property<M: Model> {
    pub expectation: Expectation,
    pub name: &'static str,
    pub condition: CondFn<M>,
}

pub trait Model: Sized {
    type State;
    type Action;
    spec fn inits(&self) -> Seq<Self::State>;
    spec fn acts(&self, s: Self::State) -> Seq<Self::Action>;
    spec fn nxt(&self, s: Self::State, a: Self::Action) -> Option<Self::State>;
    spec fn within(&self, s: Self::State) -> bool;
    fn actions(&self, state: &Self::State, actions: &mut Vec<Self::Action>)
        ensures final(actions)@ == old(actions)@ + self.acts(*state);
    fn next_state(&self, last_state: &Self::State, action: Self::Action) -> (r: Option<Self::State>)
        ensures r == self.nxt(*last_state, action);
    fn properties(&self) -> Vec<Property<Self>>;
    fn within_boundary(&self, state: &Self::State) -> (r: bool)
        ensures r == self.within(*state);
}

pub uninterp spec fn fp<S>(s: S) -> Fingerprint;
#[verifier::external_body]
pub fn fingerprint<S>(s: &S) -> (r: Fingerprint) ensures r == fp(*s) { unimplemented!() }

#[verifier::external_body]
#[verifier::reject_recursive_types(K)]
#[verifier::reject_recursive_types(V)]
pub struct SeqMap<K, V> { m: std::collections::HashMap<u64, (K, V)> }
impl<K, V> SeqMap<K, V> {
    pub uninterp spec fn view(&self) -> Map<K, V>;
    #[verifier::external_body]
    pub fn contains_key(&self, k: &K) -> (r: bool) ensures r == self.view().contains_key(*k) { unimplemented!() }
    #[verifier::external_body]
    pub fn insert(&mut self, k: K, v: V) ensures final(self).view() == old(self).view().insert(k, v) { unimplemented!() }
}

#[verifier::external_body]
pub struct Counter { c: usize }
impl Counter {
    pub uninterp spec fn view(&self) -> nat;
    #[verifier::external_body]
    pub fn fetch_add1(&mut self) ensures final(self).view() == old(self).view() + 1 { unimplemented!() }
    #[verifier::external_body]
    pub fn load(&self) -> (r: usize) ensures r == self.view() { unimplemented!() }
    #[verifier::external_body]
    pub fn raise_to(&mut self, cur: usize, v: usize) { unimplemented!() }
}

#[verifier::external_body]
pub struct EventuallyBits { s: Vec<usize> }
impl EventuallyBits {
    pub uninterp spec fn view(&self) -> Set<usize>;
    #[verifier::external_body]
    pub fn remove(&mut self, i: usize) ensures final(self).view() == old(self).view().remove(i) { unimplemented!() }
    #[verifier::external_body]
    pub fn contains(&self, i: usize) -> (r: bool) ensures r == self.view().contains(i) { unimplemented!() }
    #[verifier::external_body]
    pub fn clone(&self) -> (r: Self) ensures r.view() == self.view() { unimplemented!() }
}

#[verifier::external_body]
#[verifier::reject_recursive_types(M)]
pub struct VisitorBox<M: Model> { v: Option<M> }

#[verifier::external_body]
#[verifier::reject_recursive_types(T)]
pub struct DrainAll<T> { v: std::collections::VecDeque<T> }
impl<T> DrainAll<T> {
    pub uninterp spec fn view(&self) -> Seq<T>;
    #[verifier::external_body]
    pub fn next(&mut self) -> (r: Option<T>)
        ensures old(self).view().len() == 0 ==> r.is_none() && final(self).view() == old(self).view(),
                old(self).view().len() > 0 ==> r == Some(old(self).view()[0]) && final(self).view() == old(self).view().drop_first(),
    { self.v.pop_front() }
}
#[verifier::external_body]
pub fn drain_all<T>(v: &mut Vec<T>) -> (r: DrainAll<T>)
    ensures r.view() == old(v)@, final(v)@.len() == 0
{ DrainAll { v: v.drain(..).collect() } }

pub type Job<State> = (State, Fingerprint, EventuallyBits, NonZeroUsize);

// ---------------- extracted: bfs.rs check_block, rules R2 R3 R6 R7 R11 R12 applied ----------------
fn check_block<M: Model>(
    model: &M,
    state_count: &mut Counter,
    generated: &mut SeqMap<Fingerprint, Option<Fingerprint>>,
    pending: &mut VecDeque<Job<M::State>>,
    discoveries: &mut SeqMap<&'static str, Fingerprint>,
    visitor: &Option<VisitorBox<M>>,
    mut max_count: usize,
    target_max_depth: Option<NonZeroUsize>,
    global_max_depth: &mut Counter,
) {
    let properties = model.properties();

    let mut current_max_depth = global_max_depth.load();
    let mut actions = Vec::new();
    loop
        invariant actions@.len() == 0,
        decreases max_count,
    {
        // Done if reached max count.
        if max_count == 0 {
            return;
        }
        max_count -= 1;

        // Done if none pending.
        let (state, state_fp, mut ebits, max_depth) = match pending.pop_back() {
            None => return,
            Some(pair) => pair,
        };

        if max_depth.get() > current_max_depth {
            global_max_depth.raise_to(current_max_depth, max_depth.get());
            current_max_depth = max_depth.get();
        }

        if let Some(target_max_depth) = target_max_depth {
            if max_depth.get() >= target_max_depth.get() {
                continue;
            }
        }

        // Done if discoveries found for all properties.
        let mut is_awaiting_discoveries = false;
        let mut i = 0;
        while i < properties.len()
            invariant i <= properties.len(),
            decreases properties.len() - i,
        {
            let property = &properties[i];
            i += 1;
            if discoveries.contains_key(&property.name) {
                continue;
            }
            match property {
                Property {
                    expectation: Expectation::Always,
                    condition: always,
                    ..
                } => {
                    if !call_cond(always, model, &state) {
                        discoveries.insert(property.name, state_fp);
                    } else {
                        is_awaiting_discoveries = true;
                    }
                }
                Property {
                    expectation: Expectation::Sometimes,
                    condition: sometimes,
                    ..
                } => {
                    if call_cond(sometimes, model, &state) {
                        discoveries.insert(property.name, state_fp);
                    } else {
                        is_awaiting_discoveries = true;
                    }
                }
                Property {
                    expectation: Expectation::Eventually,
                    condition: eventually,
                    ..
                } => {
                    is_awaiting_discoveries = true;
                    if call_cond(eventually, model, &state) {
                        ebits.remove(i - 1);
                    }
                }
            }
        }
        if !is_awaiting_discoveries {
            return;
        }

        // Otherwise enqueue newly generated states (with related metadata).
        let mut is_terminal = true;
        model.actions(&state, &mut actions);
        let mut it_ = drain_all(&mut actions);
        loop
            invariant actions@.len() == 0,
            decreases it_.view().len(),
        {
            let a = match it_.next() { None => { break; } Some(a) => a };
            let next_state = match model.next_state(&state, a) { None => { continue; } Some(s) => s };
            // Skip if outside boundary.
            if !model.within_boundary(&next_state) {
                continue;
            }
            state_count.fetch_add1();

            let next_fingerprint = fingerprint(&next_state);
            if !generated.contains_key(&next_fingerprint) {
                generated.insert(next_fingerprint, Some(state_fp));
            } else {
                is_terminal = false;
                continue;
            }

            // Otherwise further checking is applicable.
            is_terminal = false;
            pending.push_front((
                next_state,
                next_fingerprint,
                ebits.clone(),
                NonZeroUsize::new(max_depth.get() + 1).unwrap(),
            ));
        }
        if is_terminal {
            let mut i = 0;
            while i < properties.len()
            invariant i <= properties.len(),
            decreases properties.len() - i,
        {
                let property = &properties[i];
                i += 1;
                if ebits.contains(i - 1) {
                    discoveries.insert(property.name, state_fp);
                }
            }
        }
    }
}

} // verus!
fn main() {}
